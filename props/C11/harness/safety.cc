// C11 harness: real ORANGE navigator on generated geometries (orangeinp API).
// stdin:
//   geom <nunits>
//   unit <label> <m|e> <bg 0|1> <shape> <nchildren>
//   mat <shape> <transform>            | dau <unit index> <transform>
//   ...            (units in definition order; the last one is the global universe)
//   pt x y z                         (any number)
//   endgeom
// shape: sph r | box hx hy hz | cyl r hh | cone rlo rhi hh | ell rx ry rz
// transform: none | tr x y z | tf r00 .. r22 x y z
// stdout per geom: "geom ok" | "geom error <msg>"
// per pt: "pt skip <why>" |
//   "pt ok <safety> <minstep> <dx dy dz> <nlev> {<univ> <vol> <flag> <px py pz> <nfaces> {<type> <n> data..}}
//        <nsample_bad> [<bx by bz>]"
#include "../../../harness/common.hh"
#include <memory>
#include <variant>
#include "corecel/data/CollectionStateStore.hh"
#include "corecel/math/ArrayUtils.hh"
#include "orange/MatrixUtils.hh"
#include "orange/OrangeData.hh"
#include "orange/OrangeInput.hh"
#include "orange/OrangeParams.hh"
#include "orange/OrangeTrackView.hh"
#include "orange/detail/LevelStateAccessor.hh"
#include "orange/orangeinp/CsgObject.hh"
#include "orange/orangeinp/InputBuilder.hh"
#include "orange/orangeinp/Shape.hh"
#include "orange/orangeinp/Transformed.hh"
#include "orange/orangeinp/UnitProto.hh"
#include "orange/surf/LocalSurfaceVisitor.hh"
#include "orange/univ/VolumeView.hh"
#include "orange/univ/TrackerVisitor.hh"
#include "corecel/data/HyperslabIndexer.hh"

using namespace celeritas;
namespace oi = celeritas::orangeinp;
using oi::UnitProto; using oi::InputBuilder; using oi::ObjectInterface; using oi::Transformed;
using verif::hex;
using verif::rd;

using SPConstObject = std::shared_ptr<ObjectInterface const>;
using SPUnit = std::shared_ptr<UnitProto>;

static int g_label = 0;
std::string next_label(char const* pfx)
{
    return std::string(pfx) + std::to_string(g_label++);
}

SPConstObject read_shape(std::istream& is)
{
    std::string k; is >> k;
    if (k == "sph") { double r = rd(is); return std::make_shared<oi::Shape<oi::Sphere>>(next_label("sph"), r); }
    if (k == "box") { Real3 h; for (auto& x : h) x = rd(is); return std::make_shared<oi::Shape<oi::Box>>(next_label("box"), h); }
    if (k == "cyl") { double r = rd(is), hh = rd(is); return std::make_shared<oi::Shape<oi::Cylinder>>(next_label("cyl"), r, hh); }
    if (k == "cone")
    {
        double a = rd(is), b = rd(is), hh = rd(is);
        return std::make_shared<oi::Shape<oi::Cone>>(next_label("cone"), Array<real_type, 2>{a, b}, hh);
    }
    if (k == "ell") { Real3 h; for (auto& x : h) x = rd(is); return std::make_shared<oi::Shape<oi::Ellipsoid>>(next_label("ell"), h); }
    throw std::runtime_error("bad shape " + k);
}

VariantTransform read_transform(std::istream& is)
{
    std::string k; is >> k;
    if (k == "none") return NoTransformation{};
    if (k == "tr") { Real3 t; for (auto& x : t) x = rd(is); return Translation{t}; }
    if (k == "tf")
    {
        SquareMatrixReal3 r;
        for (auto& row : r) for (auto& x : row) x = rd(is);
        Real3 t; for (auto& x : t) x = rd(is);
        return Transformation{r, t};
    }
    throw std::runtime_error("bad transform " + k);
}

SPConstObject xf_obj(SPConstObject obj, VariantTransform const& t)
{
    if (t.index() == 0) return obj;
    return std::make_shared<Transformed>(std::move(obj), t);
}

struct Geo
{
    std::unique_ptr<OrangeParams> params;
    using StateStore = CollectionStateStore<OrangeStateData, MemSpace::host>;
    std::unique_ptr<StateStore> state;
};

struct PathT
{
    std::vector<int> v;
    bool operator==(PathT const& o) const { return v == o.v; }
};

struct SurfPrinter
{
    std::ostream& os;
    template<class S>
    void operator()(S const& s) const
    {
        os << " " << to_cstring(S::surface_type());
        auto d = s.data();
        os << " " << d.size();
        for (auto x : d) os << " " << hex(x);
    }
};

// Locate a point (fresh initialisation); returns false if failed/outside/on boundary
bool locate(Geo& g, Real3 const& pos, Real3 const& dir, PathT* path, OrangeTrackView* out = nullptr)
{
    auto const& pref = g.params->host_ref();
    OrangeTrackView geo(pref, g.state->ref(), TrackSlotId{0});
    geo = GeoTrackInitializer{pos, dir};
    if (geo.failed() || geo.is_outside() || geo.is_on_boundary()) return false;
    if (path)
    {
        path->v.clear();
        for (auto lev : range(LevelId{geo.level() + 1}))
        {
            celeritas::detail::LevelStateAccessor lsa(&g.state->ref(), TrackSlotId{0}, lev);
            path->v.push_back(static_cast<int>(lsa.universe().get()));
            path->v.push_back(static_cast<int>(lsa.vol().get()));
        }
    }
    return true;
}

double next_step(Geo& g, Real3 const& pos, Real3 const& dir)
{
    auto const& pref = g.params->host_ref();
    OrangeTrackView geo(pref, g.state->ref(), TrackSlotId{0});
    geo = GeoTrackInitializer{pos, dir};
    if (geo.failed() || geo.is_outside() || geo.is_on_boundary()) return -1;
    return geo.find_next_step().distance;
}

// local positions of every level of the current state
std::vector<Real3> level_positions(Geo& g, OrangeTrackView const& tv)
{
    std::vector<Real3> r;
    for (auto lev : range(LevelId{tv.level() + 1}))
    {
        celeritas::detail::LevelStateAccessor lsa(&g.state->ref(), TrackSlotId{0}, lev);
        r.push_back(lsa.pos());
    }
    return r;
}

PathT current_path(Geo& g, OrangeTrackView const& tv)
{
    PathT p;
    for (auto lev : range(LevelId{tv.level() + 1}))
    {
        celeritas::detail::LevelStateAccessor lsa(&g.state->ref(), TrackSlotId{0}, lev);
        p.v.push_back(static_cast<int>(lsa.universe().get()));
        p.v.push_back(static_cast<int>(lsa.vol().get()));
    }
    return p;
}

template<class Rnd>
double min_next_step(Geo& g, Real3 const& pos, std::vector<Real3> const& dirs, Rnd& rnd, Real3* bestd_out)
{
    double best = std::numeric_limits<double>::infinity();
    Real3 bestd = dirs[0];
    for (auto const& d : dirs)
    {
        double s = next_step(g, pos, d);
        if (s >= 0 && s < best) { best = s; bestd = d; }
    }
    double ang = 0.12;
    for (int round = 0; round < 6; ++round, ang *= 0.3)
    {
        Real3 centre = bestd;
        for (int k = 0; k < 24; ++k)
        {
            Real3 d{centre[0] + ang * rnd(), centre[1] + ang * rnd(), centre[2] + ang * rnd()};
            d = make_unit_vector(d);
            double s = next_step(g, pos, d);
            if (s >= 0 && s < best) { best = s; bestd = d; }
        }
    }
    if (bestd_out) *bestd_out = bestd;
    return best;
}

std::vector<Real3> make_dirs()
{
    std::vector<Real3> d;
    for (int a = 0; a < 3; ++a)
        for (double s : {1.0, -1.0}) { Real3 v{0, 0, 0}; v[a] = s; d.push_back(v); }
    int const n = 250;
    double const ga = M_PI * (3.0 - std::sqrt(5.0));
    for (int i = 0; i < n; ++i)
    {
        double z = 1 - (2.0 * i + 1) / n;
        double r = std::sqrt(1 - z * z);
        d.push_back(make_unit_vector(Real3{r * std::cos(ga * i), r * std::sin(ga * i), z}));
    }
    return d;
}

int main()
{
    std::string line;
    Geo geo;
    std::vector<SPUnit> units;
    auto const dirs = make_dirs();
    std::uint64_t lcg = 12345;
    std::size_t npoint = 0;
    auto rnd = [&lcg] {
        lcg = lcg * 6364136223846793005ULL + 1442695040888963407ULL;
        return ((lcg >> 11) * (1.0 / 9007199254740992.0)) * 2 - 1;
    };
    while (std::getline(std::cin, line))
    {
        if (line.empty()) continue;
        std::istringstream is(line);
        std::string cmd; is >> cmd;
        if (cmd == "geom")
        {
            geo = Geo{};
            units.clear();
            std::size_t nunits; is >> nunits;
            std::string err;
            try
            {
                for (std::size_t u = 0; u < nunits; ++u)
                {
                    std::getline(std::cin, line);
                    std::istringstream us(line);
                    std::string kw, label, zo; int bg; us >> kw >> label >> zo >> bg;
                    UnitProto::Input inp;
                    inp.label = label;
                    inp.boundary.interior = read_shape(us);
                    inp.boundary.zorder = (zo == "m") ? ZOrder::media : ZOrder::exterior;
                    if (bg) inp.background.fill = GeoMaterialId{0};
                    std::size_t nch; us >> nch;
                    for (std::size_t c = 0; c < nch; ++c)
                    {
                        std::getline(std::cin, line);
                        std::istringstream cs(line);
                        std::string ck; cs >> ck;
                        if (ck == "mat")
                        {
                            auto shp = read_shape(cs);
                            auto tr = read_transform(cs);
                            UnitProto::MaterialInput mi;
                            mi.interior = xf_obj(shp, tr);
                            mi.fill = GeoMaterialId{static_cast<GeoMaterialId::size_type>(1 + c % 3)};
                            inp.materials.push_back(std::move(mi));
                        }
                        else if (ck == "dau")
                        {
                            std::size_t idx; cs >> idx;
                            auto tr = read_transform(cs);
                            UnitProto::DaughterInput di;
                            di.fill = units.at(idx);
                            di.transform = tr;
                            inp.daughters.push_back(std::move(di));
                        }
                        else throw std::runtime_error("bad child " + ck);
                    }
                    units.push_back(std::make_shared<UnitProto>(std::move(inp)));
                }
                InputBuilder::Options opts; opts.tol = Tolerance<>::from_default();
                OrangeInput oinp = InputBuilder{std::move(opts)}(*units.back());
                geo.params = std::make_unique<OrangeParams>(std::move(oinp));
                geo.state = std::make_unique<Geo::StateStore>(geo.params->host_ref(), 1);
            }
            catch (std::exception const& e)
            {
                err = e.what();
                for (auto& c : err) if (c == '\n') c = ' ';
                geo = Geo{};
            }
            if (err.empty()) std::cout << "geom ok\n";
            else std::cout << "geom error " << err.substr(0, 300) << "\n";
        }
        else if (cmd == "pt")
        {
            Real3 pos; for (auto& x : pos) x = rd(is);
            if (!geo.params) { std::cout << "pt skip nogeom\n"; continue; }
            std::ostringstream os;
            try
            {
                auto const& pref = geo.params->host_ref();
                PathT path;
                if (!locate(geo, pos, dirs[0], &path)) { std::cout << "pt skip notinside\n"; continue; }
                double safety;
                std::vector<double> level_safety;
                std::ostringstream dump;
                {
                    OrangeTrackView tv(pref, geo.state->ref(), TrackSlotId{0});
                    tv = GeoTrackInitializer{pos, dirs[0]};
                    safety = tv.find_safety();
                    int nlev = tv.level().get() + 1;
                    dump << " " << nlev;
                    for (auto lev : range(LevelId{tv.level() + 1}))
                    {
                        celeritas::detail::LevelStateAccessor lsa(&geo.state->ref(), TrackSlotId{0}, lev);
                        auto uid = lsa.universe();
                        dump << " " << uid.get() << " " << lsa.vol().get();
                        {
                            TrackerVisitor visit_tracker{pref};
                            double sl = visit_tracker(
                                [&lsa](auto&& t) { return t.safety(lsa.pos(), lsa.vol()); }, uid);
                            level_safety.push_back(sl);
                        }
                        if (pref.universe_types[uid] == UniverseType::rect_array)
                        {
                            // a rect-array cell is a box: dump it as six aligned planes with simple safety
                            RectArrayId rid{static_cast<RectArrayId::size_type>(pref.universe_indices[uid])};
                            auto const& rec = pref.rect_arrays[rid];
                            HyperslabInverseIndexer<3> to_coords(rec.dims);
                            auto coords = to_coords(lsa.vol().unchecked_get());
                            dump << " 1"; for (auto x : lsa.pos()) dump << " " << hex(x);
                            dump << " 6";
                            char const* names[] = {"px", "py", "pz"};
                            for (int ax = 0; ax < 3; ++ax)
                            {
                                auto grid = pref.reals[rec.grid[ax]];
                                for (int i = 0; i < 2; ++i)
                                    dump << " " << names[ax] << " 1 " << hex(grid[coords[ax] + i]);
                            }
                            continue;
                        }
                        if (pref.universe_types[uid] != UniverseType::simple)
                        {
                            dump << " -1"; for (auto x : lsa.pos()) dump << " " << hex(x); dump << " 0";
                            continue;
                        }
                        SimpleUnitId suid{static_cast<SimpleUnitId::size_type>(pref.universe_indices[uid])};
                        auto const& rec = pref.simple_units[suid];
                        VolumeView vv(pref, rec, lsa.vol());
                        dump << " " << (vv.simple_safety() ? 1 : 0);
                        for (auto x : lsa.pos()) dump << " " << hex(x);
                        auto faces = vv.faces();
                        dump << " " << faces.size();
                        LocalSurfaceVisitor visit(pref, rec.surfaces);
                        for (auto f : faces) visit(SurfPrinter{dump}, f);
                    }
                }
                // min over directions of the distance to the next boundary
                Real3 bestd = dirs[0];
                double best = min_next_step(geo, pos, dirs, rnd, &bestd);
                // the overload with a search radius (the one Urban MSC calls): radii below, at and above
                // the safety of every level and of the whole stack
                std::ostringstream ms;
                {
                    std::vector<double> radii = {1e-6, 1e6};
                    std::vector<double> basis = level_safety; basis.push_back(safety);
                    for (double b : basis)
                        if (b > 0 && b < 1e300)
                            for (double f : {0.5, 0.999999, 1.0, 1.000001, 2.0, 30.0}) radii.push_back(b * f);
                    OrangeTrackView tv(pref, geo.state->ref(), TrackSlotId{0});
                    tv = GeoTrackInitializer{pos, dirs[0]};
                    ms << " " << radii.size();
                    for (double m : radii) ms << " " << hex(m) << " " << hex(tv.find_safety(m));
                    ms << " " << level_safety.size();
                    for (double x : level_safety) ms << " " << hex(x);
                }
                os << "pt ok " << hex(safety) << " " << hex(best);
                for (auto x : bestd) os << " " << hex(x);
                os << dump.str();
                // sample the sphere of radius safety*(1 - 1e-6): same volume path
                int nbad = 0; Real3 badp{0, 0, 0};
                double maxrep = safety;
                {
                    OrangeTrackView tv(pref, geo.state->ref(), TrackSlotId{0});
                    tv = GeoTrackInitializer{pos, dirs[0]};
                    for (double x : level_safety)
                        if (x > 0 && x < 1e300)
                        {
                            double rm = tv.find_safety(x * 2);
                            if (rm < 1e300 && rm > maxrep) maxrep = rm;
                        }
                }
                if (maxrep > 0 && maxrep < 1e300)
                {
                    double rad = maxrep * (1 - 1e-6);
                    std::vector<Real3> sd = dirs; sd.push_back(bestd);
                    for (auto const& d : sd)
                    {
                        Real3 q{pos[0] + rad * d[0], pos[1] + rad * d[1], pos[2] + rad * d[2]};
                        PathT p2;
                        bool ok = locate(geo, q, dirs[0], &p2);
                        if (!ok || !(p2 == path)) { if (!nbad) badp = q; ++nbad; }
                    }
                }
                os << " " << nbad;
                for (auto x : badp) os << " " << hex(x);
                os << ms.str();
                // ---- points reached by the navigator's own moves --------------------------------------
                // from pos go half-way to the next boundary along u, once with move_internal(distance) and once
                // with move_internal(position); the state must be the one of a fresh initialisation there
                {
                    Real3 u = dirs[(npoint * 37 + 11) % dirs.size()];
                    ++npoint;
                    double dnext = next_step(geo, pos, u);
                    if (dnext > 0)
                    {
                        double step = 0.5 * (dnext < 1e3 ? dnext : 1e3) * (0.2 + 0.8 * std::fabs(rnd()));
                        Real3 target{pos[0] + step * u[0], pos[1] + step * u[1], pos[2] + step * u[2]};
                        double s_dist, s_distm, s_pos, s_posm, s_fresh;
                        std::vector<Real3> lp_dist, lp_pos, lp_fresh;
                        PathT path_dist, path_pos, path_fresh;
                        Real3 reached;
                        {
                            OrangeTrackView tv(pref, geo.state->ref(), TrackSlotId{0});
                            tv = GeoTrackInitializer{pos, u};
                            tv.find_next_step();
                            tv.move_internal(step);
                            reached = tv.pos();
                            s_dist = tv.find_safety(); s_distm = tv.find_safety(1e6);
                            lp_dist = level_positions(geo, tv); path_dist = current_path(geo, tv);
                        }
                        {
                            OrangeTrackView tv(pref, geo.state->ref(), TrackSlotId{0});
                            tv = GeoTrackInitializer{pos, u};
                            tv.move_internal(reached);
                            s_pos = tv.find_safety(); s_posm = tv.find_safety(1e6);
                            lp_pos = level_positions(geo, tv); path_pos = current_path(geo, tv);
                        }
                        bool fresh_ok;
                        {
                            OrangeTrackView tv(pref, geo.state->ref(), TrackSlotId{0});
                            tv = GeoTrackInitializer{reached, u};
                            fresh_ok = !(tv.failed() || tv.is_outside() || tv.is_on_boundary());
                            if (fresh_ok)
                            {
                                s_fresh = tv.find_safety();
                                lp_fresh = level_positions(geo, tv); path_fresh = current_path(geo, tv);
                            }
                        }
                        if (fresh_ok)
                        {
                            auto dev = [&](std::vector<Real3> const& a) {
                                if (a.size() != lp_fresh.size()) return std::numeric_limits<double>::infinity();
                                double m = 0;
                                for (std::size_t i = 0; i < a.size(); ++i)
                                    for (int k = 0; k < 3; ++k) m = std::fmax(m, std::fabs(a[i][k] - lp_fresh[i][k]));
                                return m;
                            };
                            Real3 bd2;
                            double best2 = min_next_step(geo, reached, dirs, rnd, &bd2);
                            double rmax = std::fmax(std::fmax(s_dist, s_pos), std::fmax(s_distm, s_posm));
                            int nbad2 = 0; Real3 badp2{0, 0, 0};
                            if (rmax > 0 && rmax < 1e300)
                            {
                                double rad = rmax * (1 - 1e-6);
                                for (auto const& d : dirs)
                                {
                                    Real3 q{reached[0] + rad * d[0], reached[1] + rad * d[1], reached[2] + rad * d[2]};
                                    PathT p2;
                                    bool ok = locate(geo, q, dirs[0], &p2);
                                    if (!ok || !(p2 == path_fresh)) { if (!nbad2) badp2 = q; ++nbad2; }
                                }
                            }
                            os << " mv 1";
                            for (auto x : u) os << " " << hex(x);
                            os << " " << hex(step);
                            for (auto x : reached) os << " " << hex(x);
                            os << " " << hex(s_dist) << " " << hex(s_distm) << " " << hex(s_pos) << " " << hex(s_posm)
                               << " " << hex(s_fresh) << " " << hex(best2) << " " << hex(dev(lp_dist)) << " "
                               << hex(dev(lp_pos)) << " " << ((path_dist == path_fresh) ? 1 : 0) << " "
                               << ((path_pos == path_fresh) ? 1 : 0) << " " << nbad2;
                            for (auto x : badp2) os << " " << hex(x);
                            os << " " << lp_fresh.size();
                        }
                        else os << " mv 0";
                    }
                    else os << " mv 0";
                }
                // ---- re-entrant boundary bounce (multi-level points only) ------------------------------
                // init at pos along u, move_to_boundary, set_dir(-u) on the boundary (re-entrant), cross_boundary
                // (a no-op then), find_next_step, move_internal(part of the way back): the state - in particular
                // the local position of EVERY level - must be that of a fresh initialisation at the reached point
                {
                    bool done = false;
                    if (path.v.size() >= 4)
                    {
                        for (int att = 0; att < 3 && !done; ++att)
                        {
                            Real3 u = dirs[(npoint * 53 + 29 + att * 71) % dirs.size()];
                            Real3 back{-u[0], -u[1], -u[2]};
                            OrangeTrackView tv(pref, geo.state->ref(), TrackSlotId{0});
                            tv = GeoTrackInitializer{pos, u};
                            auto nx = tv.find_next_step();
                            if (!nx.boundary || !(nx.distance > 0) || !(nx.distance < 1e3)) continue;
                            std::size_t nlev_before = level_positions(geo, tv).size();
                            tv.move_to_boundary();
                            tv.set_dir(back);
                            tv.cross_boundary();
                            if (tv.failed() || tv.is_outside()) continue;
                            auto nx2 = tv.find_next_step();
                            if (!(nx2.distance > 0)) continue;
                            double step = (nx2.distance < 1e3 ? nx2.distance : 1e3) * (0.05 + 0.85 * std::fabs(rnd()));
                            tv.move_internal(step);
                            Real3 reached = tv.pos();
                            double s_b = tv.find_safety(), s_bm = tv.find_safety(1e6);
                            auto lp_b = level_positions(geo, tv); auto path_b = current_path(geo, tv);
                            double s_fresh = 0; std::vector<Real3> lp_fresh; PathT path_fresh; bool fresh_ok;
                            {
                                OrangeTrackView t2(pref, geo.state->ref(), TrackSlotId{0});
                                t2 = GeoTrackInitializer{reached, back};
                                fresh_ok = !(t2.failed() || t2.is_outside() || t2.is_on_boundary());
                                if (fresh_ok)
                                {
                                    s_fresh = t2.find_safety();
                                    lp_fresh = level_positions(geo, t2); path_fresh = current_path(geo, t2);
                                }
                            }
                            if (!fresh_ok) continue;
                            double dv = std::numeric_limits<double>::infinity();
                            if (lp_b.size() == lp_fresh.size())
                            {
                                dv = 0;
                                for (std::size_t i = 0; i < lp_b.size(); ++i)
                                    for (int k = 0; k < 3; ++k) dv = std::fmax(dv, std::fabs(lp_b[i][k] - lp_fresh[i][k]));
                            }
                            Real3 bd2;
                            double best2 = min_next_step(geo, reached, dirs, rnd, &bd2);
                            double rmax = std::fmax(s_b, s_bm);
                            int nbad2 = 0; Real3 badp2{0, 0, 0};
                            if (rmax > 0 && rmax < 1e300)
                            {
                                double rad = rmax * (1 - 1e-6);
                                for (auto const& d : dirs)
                                {
                                    Real3 q{reached[0] + rad * d[0], reached[1] + rad * d[1], reached[2] + rad * d[2]};
                                    PathT p2;
                                    bool ok = locate(geo, q, dirs[0], &p2);
                                    if (!ok || !(p2 == path_fresh)) { if (!nbad2) badp2 = q; ++nbad2; }
                                }
                            }
                            os << " bn 1";
                            for (auto x : u) os << " " << hex(x);
                            os << " " << hex(step);
                            for (auto x : reached) os << " " << hex(x);
                            os << " " << hex(s_b) << " " << hex(s_bm) << " " << hex(s_b) << " " << hex(s_bm)
                               << " " << hex(s_fresh) << " " << hex(best2) << " " << hex(dv) << " " << hex(dv) << " "
                               << ((path_b == path_fresh) ? 1 : 0) << " " << ((path_b == path_fresh) ? 1 : 0) << " " << nbad2;
                            for (auto x : badp2) os << " " << hex(x);
                            os << " " << lp_fresh.size() << " " << nlev_before << " " << hex(nx.distance);
                            done = true;
                        }
                    }
                    if (!done) os << " bn 0";
                }
                std::cout << os.str() << "\n";
            }
            catch (std::exception const& e)
            {
                std::string w = e.what();
                for (auto& c : w) if (c == '\n') c = ' ';
                std::cout << "pt skip error " << w.substr(0, 200) << "\n";
            }
        }
        else if (cmd == "file")
        {
            // a shipped .org.json geometry (prints its bounding box; points follow as pt lines)
            std::string path; is >> path;
            geo = Geo{};
            std::string err;
            try
            {
                geo.params = std::make_unique<OrangeParams>(path);
                geo.state = std::make_unique<Geo::StateStore>(geo.params->host_ref(), 1);
            }
            catch (std::exception const& e)
            {
                err = e.what();
                for (auto& c : err) if (c == '\n') c = ' ';
                geo = Geo{};
            }
            if (err.empty())
            {
                auto const& bb = geo.params->bbox();
                std::cout << "geom ok";
                for (auto x : bb.lower()) std::cout << " " << hex(x);
                for (auto x : bb.upper()) std::cout << " " << hex(x);
                std::cout << "\n";
            }
            else std::cout << "geom error " << err.substr(0, 300) << "\n";
        }
        else if (cmd == "endgeom") { std::cout << "endgeom\n"; }
    }
    return 0;
}
