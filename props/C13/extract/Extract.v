(* C13: extraction of the executable model for the correspondence check
   (ExtrOcamlBasic only: N/positive stay Coq's inductive types). Lives outside
   coq/ so that building "everything" there never writes .ml files. *)
From Coq Require Import NArith List.
From Coq Require Extraction ExtrOcamlBasic.
From Celer Require Import C13.Xorwow C13.Run.
Extraction "xorwow_model.ml" mk run_tables run_next run_draw run_outs run_discard run_subseq
  run_poly run_init run_reseed run_canon_d run_canon_f run_canon_e.
