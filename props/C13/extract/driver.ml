(* C13 model driver: same line protocol as harness/xorwow.cc, numbers in hex
   (no 0x), answers = space-separated hex words. *)
open Xorwow_model

let rec pos_of_bits = function
  | [] -> failwith "pos_of_bits"
  | [true] -> XH
  | b :: r -> if b then XI (pos_of_bits r) else XO (pos_of_bits r)

let n_of_hex (s : string) : n =
  (* bits, least significant first *)
  let bits = ref [] in
  String.iter (fun c ->
      let d = int_of_string ("0x" ^ String.make 1 c) in
      (* prepend this (less significant than the previous) digit's bits: we walk MSB->LSB *)
      bits := [d land 1 = 1; d land 2 = 2; d land 4 = 4; d land 8 = 8] @ !bits) s;
  (* strip most significant zeros *)
  let rec strip = function
    | [] -> []
    | l -> (match List.rev l with false :: r -> strip (List.rev r) | _ -> l) in
  match strip !bits with [] -> N0 | l -> Npos (pos_of_bits l)

let rec bits_of_pos = function
  | XH -> [true]
  | XO p -> false :: bits_of_pos p
  | XI p -> true :: bits_of_pos p

let hex_of_n = function
  | N0 -> "0"
  | Npos p ->
    let rec digits = function
      | [] -> []
      | l ->
        let take k l = let rec go k l acc = if k = 0 then (List.rev acc, l) else
                          match l with [] -> (List.rev acc, []) | x :: r -> go (k - 1) r (x :: acc) in go k l [] in
        let (d, r) = take 4 l in
        let v = List.fold_right (fun b acc -> 2 * acc + (if b then 1 else 0)) d 0 in
        v :: digits r in
    let ds = digits (bits_of_pos p) in
    String.concat "" (List.rev_map (Printf.sprintf "%x") ds)

let () =
  try
    while true do
      let line = input_line stdin in
      match List.filter (fun s -> s <> "") (String.split_on_char ' ' line) with
      | [] -> ()
      | op :: args ->
        let a = Array.of_list (List.map n_of_hex args) in
        let st i = mk a.(i) a.(i+1) a.(i+2) a.(i+3) a.(i+4) a.(i+5) in
        let res = match op with
          | "tables" -> run_tables
          | "next" -> run_next (st 0)
          | "draw" -> run_draw a.(0) (st 1)
          | "outs" -> run_outs a.(0) (st 1)
          | "discard" -> run_discard a.(0) (st 1)
          | "subseq" -> run_subseq a.(0) (st 1)
          | "poly" -> run_poly a.(0) a.(1) (st 2)
          | "init" -> run_init a.(0) a.(1) a.(2)
          | "reseed" -> run_reseed a.(0) a.(1) a.(2)
          | "canon_d" -> run_canon_d a.(0) a.(1)
          | "canon_f" -> run_canon_f a.(0)
          | "canon_e" -> run_canon_e (st 0)
          | _ -> failwith ("bad op " ^ op) in
        print_string (String.concat " " (List.map hex_of_n res));
        print_newline ()
    done
  with End_of_file -> ()
