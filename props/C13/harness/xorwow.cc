// C13 correspondence harness: the real XorwowRngEngine / XorwowRngParams /
// reseed_rng / GenerateCanonical32, driven line by line from stdin.
//
// XorwowRngParams.cc and RngReseed.cc are compiled INTO this binary from the
// working tree (see run.py), so edits to the tables or to the subsequence
// formula are seen without rebuilding libceleritas.
//
// Numbers are decimal or 0x-hex unsigned 64-bit. A state is six words
// "s0 s1 s2 s3 s4 weyl". Every answer is one line of hex words.
//
//   tables                         -> 320 words: jump then jump_subsequence
//   next <st>                      -> st         (private next())
//   draw <k> <st>                  -> st + last output   (k x operator())
//   outs <k> <st>                  -> k outputs
//   discard <n> <st>               -> st
//   seqdisc <n> <st>               -> st(discard n) st(n x operator())
//   subseq <k> <st>                -> st         (private discard_subsequence)
//   poly <tbl:0|1> <i> <st>        -> st         (private jump(JumpPoly))
//   init <seed> <subseq> <offset>  -> st
//   reseed <seed> <event> <size>   -> size states
//   canon_d <upper> <lower>        -> double bits (mock 32-bit generator)
//   canon_f <u>                    -> float bits  (mock 32-bit generator)
//   canon_e <st>                   -> double bits + st (real engine, GenerateCanonical)
#include <cstdint>
#include <cstdio>
#include <cstring>
#include <iostream>
#include <memory>
#include <sstream>
#include <string>
#include <vector>
#include <algorithm>
#include <cmath>

#include "corecel/Assert.hh"
#include "corecel/OpaqueId.hh"
#include "corecel/Types.hh"
#include "corecel/cont/Array.hh"
#include "corecel/cont/Range.hh"
#include "corecel/cont/Span.hh"
#include "corecel/data/Collection.hh"
#include "corecel/data/CollectionBuilder.hh"
#include "corecel/data/CollectionMirror.hh"
#include "corecel/sys/ThreadId.hh"
#include "celeritas/Types.hh"
#include "celeritas/random/XorwowRngData.hh"
#include "celeritas/random/XorwowRngParams.hh"
#include "celeritas/random/distribution/GenerateCanonical.hh"
#include "celeritas/random/detail/GenerateCanonical32.hh"

// The skip-ahead primitives are private; the harness needs them on arbitrary
// states. All dependencies are already included (include guards), so this
// only affects XorwowRngEngine itself.
#define private public
#include "celeritas/random/XorwowRngEngine.hh"
#undef private

#include "celeritas/random/RngReseed.hh"

using namespace celeritas;
using u64 = unsigned long long;

namespace
{
struct Mock32
{
    using result_type = unsigned int;
    static constexpr result_type min() { return 0u; }
    static constexpr result_type max() { return 0xffffffffu; }
    std::vector<unsigned int> v;
    std::size_t pos{0};
    result_type operator()() { return v.at(pos++); }
};

u64 rd(std::istream& is)
{
    std::string t;
    if (!(is >> t))
        throw std::runtime_error("missing number");
    return std::stoull(t, nullptr, 0);
}

struct Fixture
{
    std::shared_ptr<XorwowRngParams> params;
    HostVal<XorwowRngStateData> val;
    HostRef<XorwowRngStateData> ref;

    explicit Fixture(unsigned int seed, size_type size)
    {
        params = std::make_shared<XorwowRngParams>(seed);
        resize(&val.state, size);
        ref = val;
    }
    XorwowState& st(size_type i) { return ref.state[TrackSlotId{i}]; }
    XorwowRngEngine engine(size_type i)
    {
        return XorwowRngEngine(params->host_ref(), ref, TrackSlotId{i});
    }
};

void rd_state(std::istream& is, XorwowState& s)
{
    for (int i = 0; i < 5; ++i)
        s.xorstate[i] = static_cast<XorwowUInt>(rd(is));
    s.weylstate = static_cast<XorwowUInt>(rd(is));
}

void pr_state(XorwowState const& s)
{
    for (int i = 0; i < 5; ++i)
        std::printf("%x ", s.xorstate[i]);
    std::printf("%x ", s.weylstate);
}
}  // namespace

int main()
{
    Fixture fx(12345u, 1);
    std::string line;
    while (std::getline(std::cin, line))
    {
        if (line.empty())
            continue;
        std::istringstream is(line);
        std::string op;
        is >> op;
        if (op == "tables")
        {
            auto const& p = fx.params->host_ref();
            for (auto const& row : p.jump)
                for (auto w : row)
                    std::printf("%x ", w);
            for (auto const& row : p.jump_subsequence)
                for (auto w : row)
                    std::printf("%x ", w);
        }
        else if (op == "next")
        {
            rd_state(is, fx.st(0));
            auto e = fx.engine(0);
            e.next();
            pr_state(fx.st(0));
        }
        else if (op == "draw" || op == "outs")
        {
            u64 k = rd(is);
            rd_state(is, fx.st(0));
            auto e = fx.engine(0);
            unsigned int last = 0;
            for (u64 i = 0; i < k; ++i)
            {
                last = e();
                if (op == "outs")
                    std::printf("%x ", last);
            }
            if (op == "draw")
            {
                pr_state(fx.st(0));
                std::printf("%x ", last);
            }
        }
        else if (op == "discard")
        {
            u64 n = rd(is);
            rd_state(is, fx.st(0));
            auto e = fx.engine(0);
            e.discard(n);
            pr_state(fx.st(0));
        }
        else if (op == "seqdisc")
        {
            u64 n = rd(is);
            XorwowState s0;
            rd_state(is, s0);
            fx.st(0) = s0;
            auto e = fx.engine(0);
            e.discard(n);
            pr_state(fx.st(0));
            fx.st(0) = s0;
            for (u64 i = 0; i < n; ++i)
                e();
            pr_state(fx.st(0));
        }
        else if (op == "commute")
        {
            // discard(n) then discard_subsequence(k), and the other order
            u64 n = rd(is);
            u64 k = rd(is);
            XorwowState s0;
            rd_state(is, s0);
            fx.st(0) = s0;
            {
                auto e = fx.engine(0);
                e.discard_subsequence(k);
                e.discard(n);
            }
            pr_state(fx.st(0));
            fx.st(0) = s0;
            {
                auto e = fx.engine(0);
                e.discard(n);
                e.discard_subsequence(k);
            }
            pr_state(fx.st(0));
        }
        else if (op == "subseq")
        {
            u64 k = rd(is);
            rd_state(is, fx.st(0));
            auto e = fx.engine(0);
            e.discard_subsequence(k);
            pr_state(fx.st(0));
        }
        else if (op == "poly")
        {
            u64 t = rd(is);
            u64 i = rd(is);
            rd_state(is, fx.st(0));
            auto e = fx.engine(0);
            auto const& p = fx.params->host_ref();
            e.jump(t == 0 ? p.jump[i] : p.jump_subsequence[i]);
            pr_state(fx.st(0));
        }
        else if (op == "init")
        {
            XorwowRngInitializer init;
            init.seed[0] = static_cast<unsigned int>(rd(is));
            init.subsequence = rd(is);
            init.offset = rd(is);
            auto e = fx.engine(0);
            e = init;
            pr_state(fx.st(0));
        }
        else if (op == "reseed")
        {
            unsigned int seed = static_cast<unsigned int>(rd(is));
            u64 event = rd(is);
            size_type size = static_cast<size_type>(rd(is));
            Fixture f2(seed, size);
            for (size_type i = 0; i < size; ++i)
            {
                f2.st(i) = XorwowState{{0, 0, 0, 0, 0}, 0};
            }
            reseed_rng(f2.params->host_ref(), f2.ref, StreamId{0}, UniqueEventId{event});
            for (size_type i = 0; i < size; ++i)
                pr_state(f2.st(i));
        }
        else if (op == "canon_d")
        {
            Mock32 m;
            m.v.push_back(static_cast<unsigned int>(rd(is)));
            m.v.push_back(static_cast<unsigned int>(rd(is)));
            double d = detail::GenerateCanonical32<double>()(m);
            u64 b;
            std::memcpy(&b, &d, 8);
            std::printf("%llx ", b);
        }
        else if (op == "canon_f")
        {
            Mock32 m;
            m.v.push_back(static_cast<unsigned int>(rd(is)));
            float f = detail::GenerateCanonical32<float>()(m);
            unsigned int b;
            std::memcpy(&b, &f, 4);
            std::printf("%x ", b);
        }
        else if (op == "canon_e")
        {
            rd_state(is, fx.st(0));
            auto e = fx.engine(0);
            double d = GenerateCanonical<XorwowRngEngine, double>()(e);
            u64 b;
            std::memcpy(&b, &d, 8);
            std::printf("%llx ", b);
            pr_state(fx.st(0));
        }
        else
        {
            std::printf("bad-op");
        }
        std::printf("\n");
    }
    return 0;
}
