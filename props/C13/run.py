"""C13 -- XORWOW skip-ahead == sequential draws, disjoint streams, canonical in [0,1).

1. translators/xorwow.py regenerates coq/Generated/C13_tables.v from the
   current source (tables, shifts, increments, digit width, SplitMix64, ...)
   together with untrusted GF(2)[z] certificates.
2. Properties_C13.v is re-proved (certificates re-checked against the tables).
3. The executable model (coq/C13/Run.v, vm_compute) is compared word for word
   with the real engine (harness/xorwow.cc + XorwowRngParams.cc + RngReseed.cc
   compiled from the working tree).
4. Property oracles on the implementation's outputs:
   - discard(n) vs n sequential operator() calls (n <= 2^16 quick, 2^20 thorough);
   - discard / discard_subsequence / init vs T^n x computed independently in
     GF(2)[z] (z^n mod the annihilating polynomial, which python re-verifies on
     the 160 basis vectors) -- this is "n sequential draws" for n nobody can draw;
   - reseed_rng streams pairwise distinct and exactly (idx_b - idx_a)
     subsequences apart;
   - canonical double < 1; canonical float < 1 (finding F2, gated, see below).
"""
import os
import sys

import vlib

HERE = os.path.dirname(os.path.abspath(__file__))
sys.path.insert(0, os.path.join(vlib.VERIF, "translators"))
import xorwow as tr  # noqa: E402

GEN = os.path.join(vlib.COQDIR, "Generated", "C13_tables.v")
M32 = 0xffffffff
M64 = 0xffffffffffffffff
F2_SIGNATURE = "canonical-float-returns-one"
MY_COQ_FILES = ["Properties_C13.v", "C13/Xorwow.v", "C13/Run.v", "C13/Gf2.v", "C13/XorwowProofs.v", "C13/Period.v",
                "C13/PeriodProofs.v", "C13/InitProofs.v", "Generated/C13_tables.v", "Generated/C13_period.v"]


# ---------------------------------------------------------------------------
# independent reference: T^n x through GF(2)[z]

class Ref:
    def __init__(self, P):
        self.P = P
        self.p = tr.annihilator(P)
        # re-verify p(T) e_i = 0 on all basis vectors (so z^n mod p evaluated at T is T^n)
        self.ok = all(self.peval(self.p, tuple((1 << (i % 32)) if i // 32 == w else 0 for w in range(5))) == (0,) * 5
                      for i in range(160))

    def peval(self, g, x):
        acc = (0, 0, 0, 0, 0)
        while g:
            if g & 1:
                acc = tuple(a ^ b for a, b in zip(acc, x))
            x = tr.next_state(self.P, x)
            g >>= 1
        return acc

    def zpow(self, n):
        r, b = 1, 2
        while n:
            if n & 1:
                r = tr.pdivmod(tr.clmul(r, b), self.p)[1]
            b = tr.pdivmod(tr.clmul(b, b), self.p)[1]
            n >>= 1
        return r

    def advance(self, st, n):
        """state after n sequential operator() calls"""
        x = self.peval(self.zpow(n), tuple(st[:5]))
        return list(x) + [(st[5] + n * self.P["weyl_draw"]) & M32]

    def seed_state(self, seed):
        P = self.P
        outs = []
        s = seed
        for _ in range(3):
            s = (s + P["sm_gamma"]) & M64
            z = s
            z = ((z ^ (z >> P["sm_s1"])) * P["sm_m1"]) & M64
            z = ((z ^ (z >> P["sm_s2"])) * P["sm_m2"]) & M64
            outs.append(z ^ (z >> P["sm_s3"]))
        a, b, c = outs
        return [a & M32, a >> 32, b & M32, b >> 32, c & M32, c >> 32]


# ---------------------------------------------------------------------------
# case generation

def rstate(r):
    c = r.random()
    if c < 0.08:
        s = [0] * 5
        s[r.randrange(5)] = 1 << r.randrange(32)
    elif c < 0.12:
        s = [M32] * 5
    elif c < 0.16:
        s = [r.choice([0, M32, 1, 0x80000000]) for _ in range(5)]
        if not any(s):
            s[4] = 1
    else:
        s = [r.getrandbits(32) for _ in range(5)]
    w = r.choice([0, M32, M32 - 362436, r.getrandbits(32), r.getrandbits(32)])
    return s + [w]


def gen_cases(ctx):
    r = ctx.rng
    big = ctx.tier != "quick"
    mul = 20 if big else 1
    C = []

    def add(op, *args):
        C.append((op, list(args)))

    add("tables")
    for _ in range(40 * mul):
        add("next", *rstate(r))
    for _ in range(30 * mul):
        add("draw", r.randrange(1, 9), *rstate(r))
        add("outs", r.randrange(1, 9), *rstate(r))
    # every table entry on its own
    for t in (0, 1):
        for i in range(32):
            for _ in range(1 if not big else 3):
                add("poly", t, i, *rstate(r))
    # skip counts: every entry, every digit value
    for op in ("discard", "subseq"):
        for i in range(32):
            for d in (1, 2, 3):
                add(op, d * 4 ** i, *rstate(r))
        for i in range(1, 33):
            add(op, r.choice([4 ** i - 1, (4 ** i + r.getrandbits(2 * i)) & M64]), *rstate(r))
        add(op, 0, *rstate(r))
        add(op, M64, *rstate(r))
        for _ in range((40 if op == "discard" else 30) * mul):
            add(op, r.getrandbits(r.choice([64, 64, 64, 33, 17])), *rstate(r))
    # discard / discard_subsequence in both orders (C13_discard_commute; C++ only)
    for _ in range(24 * mul):
        add("commute", r.getrandbits(r.choice([64, 64, 33, 7])), r.getrandbits(r.choice([64, 64, 20, 3])), *rstate(r))
    add("commute", M64, M64, *rstate(r))
    add("commute", 0, 0, *rstate(r))
    # sequential comparison (C++ only; a few also through the model)
    top = 20 if big else 16
    for i in range(top // 2 + 1):
        for d in (1, 2, 3):
            if d * 4 ** i <= 2 ** top:
                add("seqdisc", d * 4 ** i, *rstate(r))
    for _ in range(30 * mul):
        add("seqdisc", r.randrange(0, 2 ** r.choice([4, 8, 12, top]) + 1), *rstate(r))
    add("seqdisc", 2 ** top, *rstate(r))
    # initialisation
    for _ in range(30 * mul):
        seed = r.choice([0, 12345, M32, r.getrandbits(32), r.getrandbits(32)])
        sub = r.choice([0, 1, r.getrandbits(10), r.getrandbits(64), r.getrandbits(64), M64])
        off = r.choice([0, 1, r.getrandbits(10), r.getrandbits(64), r.getrandbits(33)])
        add("init", seed, sub, off)
    # reseed: (seed, event, number of slots)
    for _ in range(12 * mul):
        size = r.choice([1, 2, 3, 4, 5])
        ev = r.choice([0, 1, 2, r.getrandbits(8), r.getrandbits(40), r.getrandbits(62) // size])
        add("reseed", r.choice([12345, r.getrandbits(32)]), ev, size)
    for ev in (0, 1, 2, 3, 4):          # consecutive events, same slot count: streams must be pairwise distinct
        add("reseed", 12345, ev, 3)
    add("reseed", 7, (M64 // 3) + 5, 3)     # 64-bit wrap of event*size (modelled mod 2^64)
    # canonical reals
    for u, l in [(0, 0), (0, 1), (1, 0), (0x80000000, 0), (M32, M32), (M32, 0x1ffffe), (M32, 0x1fffff),
                 (M32, 0), (0x7ff, M32), (M32, 0x200000), (0x7fffffff, M32)]:
        add("canon_d", u, l)
    for _ in range(40 * mul):
        add("canon_d", r.choice([M32, r.getrandbits(32)]), r.choice([M32, 0x1fffff, r.getrandbits(32), r.getrandbits(21)]))
    for u in [0, 1, 0x7fffffff, 0x80000000, 0x80000001, 0xfffffffe, M32, 0xffffff7f, 0xffffff80, 0xffffff81,
              0xffffff00, 0xfffffe80, 0x1000000, 0x1000001, 0x1000002, 0x1000003, 0xffffff, 0x2000001, 0x2000002,
              0x2000003, 0x2000006, 0xffffff40, 0xffffffc0]:
        add("canon_f", u)
    for _ in range(40 * mul):
        add("canon_f", r.choice([r.getrandbits(32), M32 - r.getrandbits(9), (1 << r.randrange(24, 32)) + r.getrandbits(8)]))
    for _ in range(20 * mul):
        add("canon_e", *rstate(r))
    return C


def model_expr(op, a):
    st = lambda xs: "(mk %s)" % " ".join(str(x) for x in xs)  # noqa: E731
    if op == "tables":
        return "run_tables"
    if op == "next":
        return "run_next %s" % st(a)
    if op in ("draw", "outs"):
        return "run_%s %d %s" % (op, a[0], st(a[1:]))
    if op == "discard":
        return "run_discard %d %s" % (a[0], st(a[1:]))
    if op == "subseq":
        return "run_subseq %d %s" % (a[0], st(a[1:]))
    if op == "poly":
        return "run_poly %d %d %s" % (a[0], a[1], st(a[2:]))
    if op == "init":
        return "run_init %d %d %d" % tuple(a)
    if op == "reseed":
        return "run_reseed %d %d %d" % tuple(a)
    if op == "canon_d":
        return "run_canon_d %d %d" % tuple(a)
    if op == "canon_f":
        return "run_canon_f %d" % a[0]
    if op == "canon_e":
        return "run_canon_e %s" % st(a)
    raise ValueError(op)


def dbl_int(bits, log2):
    """double bit pattern -> value * 2^log2 as an exact integer (None if not integral)"""
    import struct
    from fractions import Fraction
    x = struct.unpack("<d", struct.pack("<Q", bits))[0]
    v = Fraction(x) * (1 << log2)
    return int(v) if v.denominator == 1 else None


def flt_int(bits, log2):
    import struct
    from fractions import Fraction
    x = struct.unpack("<f", struct.pack("<I", bits))[0]
    v = Fraction(x) * (1 << log2)
    return int(v) if v.denominator == 1 else None


# ---------------------------------------------------------------------------
# Other builders edit coq/ concurrently; coqdep over the whole tree can
# transiently miss a target ("no such Coq target"). Retry that case only.

def build_retry(ctx, targets):
    import time
    for attempt in range(4):
        ok, log = ctx.coq_build(targets)
        if ok or "no such Coq target" not in log:
            return ok
        time.sleep(2 + attempt)
    return ok


def prove_retry(ctx):
    import time
    for attempt in range(4):
        n_obl, n_dis = len(ctx.obligations), len(ctx.discharged)
        ok = ctx.coq_prove("Properties_C13.v")
        if ok or "no such Coq target" not in str(getattr(ctx, "broken_proof", {}).get("log_tail", "")):
            return ok
        del ctx.obligations[n_obl:]
        del ctx.discharged[n_dis:]
        time.sleep(2 + attempt)
    return ok


def run(ctx):
    ctx.trusted += [
        "hand-written model coq/C13/Xorwow.v; its constants and tables are regenerated from source by translators/xorwow.py "
        "(regex templates over comment-stripped source: an unrecognised shape is reported as a broken tie)",
        "correspondence harness props/C13/harness/xorwow.cc (uses '#define private public' around XorwowRngEngine.hh to reach "
        "next/jump/discard_subsequence on arbitrary states)",
        "binary64/binary32 conversion in GenerateCanonical32: the model carries the exact integer; int->double exactness for "
        "integers < 2^53 and exact scaling by a power of two are standard IEEE-754 facts, checked by the differential on the real code",
        "python GF(2)[z] certificate generator is NOT trusted (Coq re-checks every certificate); the python reference T^n used by the "
        "skip-ahead oracle is trusted only to the extent that it re-verifies p(T)=0 on the 160 basis vectors each run",
    ]
    ctx.assumptions += [
        "state words and Weyl counter are 32-bit (wf_rng); skip counts are 64-bit",
        "streams_disjoint: event*slots+slot does not wrap 64 bits (stated hypothesis; the C++ multiplies in ull_int)",
        "initialize_xorwow (mt19937 seeding at state construction) is outside the property",
    ]
    # 1. translator --------------------------------------------------------
    tie_err = None
    P = None
    try:
        P = tr.translate(vlib.REPO, GEN)
        ctx.log("translator ok: shifts=(%d,%d,%d) weyl=(%d,%d) digit=(&%d,>>%d) deg p=%d" % (
            P["sh_a"], P["sh_b"], P["sh_c"], P["weyl_draw"], P["weyl_discard"], P["digit_mask"], P["digit_shift"],
            P["p"].bit_length() - 1))
    except tr.TieError as e:
        tie_err = str(e)
        ctx.log("translator: TIE BROKEN:", tie_err)
    except Exception as e:      # a translator crash on an odd source is a broken tie, not a tool error
        tie_err = "translator crashed on the current source: %r" % (e,)
        ctx.log("translator: TIE BROKEN:", tie_err)

    # 2+3. harness build (background thread) and proofs ---------------------------
    from concurrent.futures import ThreadPoolExecutor
    rnd = os.path.join(vlib.REPO, "src", "celeritas", "random")

    def build_harness():
        ctx.build_libs(["corecel"])
        return ctx.compile_harness([os.path.join(HERE, "harness", "xorwow.cc"),
                                    os.path.join(rnd, "XorwowRngParams.cc"),
                                    os.path.join(rnd, "RngReseed.cc")], "xorwow", libs=["corecel"])

    proofs_ok = False
    model_ok = False
    with ThreadPoolExecutor(max_workers=1) as ex:
        fut = ex.submit(build_harness)
        if P is not None:
            proofs_ok = prove_retry(ctx)
            model_ok = build_retry(ctx, ["C13/Run.vo"])
            # vlib's dependency closure does not follow `From Celer Require Import X`: scan our own files explicitly
            forb = ctx.scan_forbidden(MY_COQ_FILES)
            if forb:
                proofs_ok = False
                ctx.broken_proof = {"target": "Properties_C13.vo", "forbidden": forb}
                del ctx.discharged[:]
        exe = fut.result()      # BuildError propagates: tie broken
    cases = gen_cases(ctx)
    inp = "".join("%s %s\n" % (op, " ".join(str(x) for x in a)) for op, a in cases)
    rc, out = ctx.run_harness(exe, input=inp, timeout=900)
    lines = out.strip("\n").split("\n")
    if rc != 0 or len(lines) != len(cases):
        raise vlib.BuildError("xorwow harness failed rc=%d (%d lines for %d cases)" % (rc, len(lines), len(cases)), out[-2000:])
    impl = [[int(t, 16) for t in ln.split()] for ln in lines]

    # 4. property oracles on the implementation ---------------------------------
    found_input = False
    ref = None
    Pref = P
    if P is None:
        # the engine constants may still be extractable: keep the GF(2)[z] reference oracle alive
        try:
            part = tr.extract(vlib.REPO, [])
        except Exception:
            part = {}
        if all(k in part for k in ("sh_a", "sh_b", "sh_c", "weyl_draw", "sm_gamma", "sm_s1", "sm_m1", "sm_s2", "sm_m2", "sm_s3")):
            Pref = part
    if Pref is not None:
        try:
            ref = Ref(Pref)
        except Exception as e:
            ctx.notes.append("python reference unavailable: %r" % (e,))
            ref = None
    if ref is not None:
        if not ref.ok:
            ctx.notes.append("python reference: computed polynomial does not annihilate T; reference oracle disabled")
            ref = None
    nviol = {}

    def viol(kind, what, replay, **kw):
        nonlocal found_input
        nviol[kind] = nviol.get(kind, 0) + 1
        if nviol[kind] <= 3:
            ctx.violation(kind, what, replay, **kw)
        if not kw.get("no_input"):
            found_input = True

    f2_hits = []
    pending_streams = []
    stream_states = {}
    order = sorted(range(len(cases)), key=lambda i: 0 if cases[i][0] == "seqdisc" else 1)   # direct evidence first
    for (op, a), v in [(cases[i], impl[i]) for i in order]:
        ctx.count("op:" + op)
        if op == "seqdisc":
            if v[:6] != v[6:]:
                viol("skip-ahead", "discard(%d) differs from %d sequential draws" % (a[0], a[0]),
                     {"state": a[1:], "n": a[0], "discard_state": v[:6], "sequential_state": v[6:]})
        elif op == "commute":
            if v[:6] != v[6:]:
                viol("skip-ahead", "discard(%d) and discard_subsequence(%d) do not commute" % (a[0], a[1]),
                     {"state": a[2:], "n": a[0], "k": a[1], "subseq_then_discard": v[:6], "discard_then_subseq": v[6:]})
            elif ref is not None and v[:6] != ref.advance(a[2:], a[0] + (a[1] << 67)):
                viol("skip-ahead", "discard(%d) after discard_subsequence(%d) differs from n + k*2^67 sequential draws" % (a[0], a[1]),
                     {"state": a[2:], "n": a[0], "k": a[1], "implementation_state": v[:6],
                      "sequential_state": ref.advance(a[2:], a[0] + (a[1] << 67))})
        elif op in ("discard", "subseq") and ref is not None:
            n = a[0] if op == "discard" else a[0] << 67
            exp = ref.advance(a[1:], n)
            if v != exp:
                viol("skip-ahead", "%s(%d) differs from the state after %d sequential draws (T^n x computed in GF(2)[z])" % (
                    "discard" if op == "discard" else "discard_subsequence", a[0], n),
                     {"state": a[1:], "count": a[0], "op": op, "implementation_state": v, "sequential_state": exp})
        elif op == "init" and ref is not None:
            exp = ref.advance(ref.seed_state(a[0]), (a[1] << 67) + a[2])
            if v != exp:
                viol("skip-ahead", "initialisation (seed, subsequence, offset) differs from subsequence*2^67+offset sequential draws",
                     {"seed": a[0], "subsequence": a[1], "offset": a[2], "implementation_state": v, "sequential_state": exp})
        elif op == "reseed":
            seed, ev, size = a
            sts = [tuple(v[6 * i:6 * i + 6]) for i in range(size)]
            if len(set(s[:5] for s in sts)) != size:
                viol("streams", "reseed_rng gives two track slots of one event the same generator state",
                     {"seed": seed, "event": ev, "slots": size, "states": sts})
            for i, st_ in enumerate(sts):
                seen = stream_states.setdefault((seed, size), {})
                prev = seen.get(st_[:5])
                if prev is not None and prev != (ev, i):
                    viol("streams", "streams overlap: with %d slots, (event %d, slot %d) and (event %d, slot %d) receive the same generator state" % (
                        size, prev[0], prev[1], ev, i),
                         {"seed": seed, "slots": size, "event_slot_a": prev, "event_slot_b": (ev, i), "state": st_})
                seen[st_[:5]] = (ev, i)
            if ref is not None and (ev + 1) * size <= M64:
                base = ref.seed_state(seed)
                for i, st_ in enumerate(sts):
                    exp = ref.advance(base, (ev * size + i) << 67)
                    if list(st_) != exp:
                        pending_streams.append((ev, i, seed, size, st_, exp))
                        break
        elif op in ("canon_d", "canon_e"):
            import struct
            x = struct.unpack("<d", struct.pack("<Q", v[0]))[0]
            if not (0.0 <= x < 1.0):
                viol("canonical", "GenerateCanonical32<double> returned %r outside [0,1)" % x, {"op": op, "args": a, "bits": v[0]})
        elif op == "canon_f":
            import struct
            x = struct.unpack("<f", struct.pack("<I", v[0]))[0]
            if not (0.0 <= x < 1.0):
                f2_hits.append((a[0], x))
    if pending_streams and not nviol.get("streams"):
        for ev, i, seed, size, s_, exp in pending_streams[:2]:
            viol("streams", "reseed_rng stream of (event %d, slot %d) is not subsequence event*slots+slot" % (ev, i),
                 {"seed": seed, "event": ev, "slots": size, "slot": i, "state": s_, "expected": exp}, no_input=True)
    if f2_hits:
        what = ("GenerateCanonical32<float> returns exactly 1.0f for rng() >= 0xffffff80 (float(u) rounds up to 2^32); "
                "documented range is [0,1). Build uses real_type=double, the float specialisation is pinned by unit tests.")
        if any(k.get("signature") == F2_SIGNATURE for k in ctx.known):
            ctx.violation("canonical", what, {"rng_output": f2_hits[0][0], "result": f2_hits[0][1],
                                              "all_hits": [h[0] for h in f2_hits][:10]}, signature=F2_SIGNATURE)
        else:
            ctx.notes.append("finding F2 reproduced on the implementation (%d inputs, e.g. rng()=0x%x -> %r) but NOT reported: "
                             "known_findings.json has no entry with signature '%s' yet" % (
                                 len(f2_hits), f2_hits[0][0], f2_hits[0][1], F2_SIGNATURE))
            ctx.log("F2 (canonical float == 1.0f) reproduced; gated: no known-finding entry '%s'" % F2_SIGNATURE)

    # 5. correspondence model <-> implementation -----------------------------------
    ndis = 0
    if model_ok:
        mexe = ctx.ocaml_extract(os.path.join(HERE, "extract", "Extract.v"), os.path.join(HERE, "extract", "driver.ml"),
                                 "model", "xorwow_model")
        idx = [i for i, (op, a) in enumerate(cases) if op not in ("seqdisc", "commute")]
        # sequential cases through the model as well: n model draws vs the implementation's n draws
        seq_idx = [i for i, (op, a) in enumerate(cases) if op == "seqdisc" and 0 < a[0] <= 65536][:60]
        mlines = ["%s %s" % (cases[i][0], " ".join("%x" % x for x in cases[i][1])) for i in idx]
        mlines += ["draw %s" % " ".join("%x" % x for x in cases[i][1]) for i in seq_idx]
        rc, mout = vlib.sh([mexe], input="\n".join(mlines) + "\n", timeout=1500)
        ml = mout.strip("\n").split("\n")
        if rc != 0 or len(ml) != len(mlines):
            raise RuntimeError("extracted model failed rc=%d: %s" % (rc, mout[-1000:]))
        vals = [[int(t, 16) for t in ln.split()] for ln in ml]
        allidx = idx + seq_idx
        for k, i in enumerate(allidx):
            op, a = cases[i]
            mv = vals[k]
            iv = impl[i]
            if op == "seqdisc":
                iv = impl[i][6:12]
                mv = mv[:6]
            elif op == "canon_d":
                iv = [dbl_int(iv[0], P["norm_d_log2"])]
            elif op == "canon_e":
                iv = [dbl_int(iv[0], P["norm_d_log2"])] + iv[1:]
            elif op == "canon_f":
                iv = [flt_int(iv[0], P["norm_f_log2"])]
            if op != "seqdisc":
                ctx.case((op, a), nontrivial=op != "tables")
            ctx.sample({"op": op, "args": a, "impl": iv[:8], "model": list(mv)[:8]})
            if list(mv) != list(iv):
                ndis += 1
                if ndis <= 3:
                    ctx.violation("correspondence", "model and implementation differ for %s" % op,
                                  {"op": op, "args": a, "impl": iv[:12], "model": list(mv)[:12],
                                   "note": "Properties_C13.v is about a model that no longer matches the code"},
                                  no_input=True)
    # sequential cases count as evaluations too
    for (op, a), v in zip(cases, impl):
        if op == "seqdisc":
            ctx.case((op, a), nontrivial=a[0] > 0)
        elif op == "commute":
            ctx.case((op, a), nontrivial=a[0] > 0 and a[1] > 0)

    # 6. verdicts ------------------------------------------------------------
    if tie_err is not None and not found_input:
        ctx.violation("tie-broken", "translator does not recognise the source: " + tie_err,
                      {"broken": "translators/xorwow.py template match", "detail": tie_err}, no_input=True)
    elif tie_err is not None:
        ctx.notes.append("translator: " + tie_err)
    if P is not None and not model_ok and not found_input:
        ctx.violation("model-broken", "the executable model no longer compiles", getattr(ctx, "broken_proof", {}), no_input=True)
    if P is not None and not proofs_ok and not found_input:
        ctx.violation("proof-broken", "Properties_C13.v no longer checks (certificates vs regenerated tables/constants)",
                      getattr(ctx, "broken_proof", {}), no_input=True)
    ctx.coverage["rule"] = ("cases = (operation, arguments) drawn from one PRNG seeded by VERIF_SEED: every jump-table entry alone, "
                            "skip counts d*4^i for all i<32, d in 1..3, boundary and random 64-bit counts, subsequence counts likewise, "
                            "(seed, subsequence, offset), (seed, event, slots), 32-bit generator outputs for the canonical reals; "
                            "non-trivial = every case except the table dump and n=0 sequential runs; distinct by (operation, arguments)")
    ctx.coverage["traces_validated_against_impl"] = len(cases)
    ctx.coverage["table_entries_exercised"] = "all 64 (32 jump + 32 jump_subsequence), individually and through discard/discard_subsequence"
