// C15 correspondence harness for the *generic* GenerateCanonical path
// (celeritas/random/distribution/GenerateCanonical.hh: no specialisation for
// the engine, so it goes through std::generate_canonical<double, 53>).
// stdin: one case per line:  <w> <n> x_1 ... x_n   (w = 32 or 64; decimal words)
// stdout: "ok <consumed> <hex via generate_canonical(rng)> <hex via GenerateCanonical<E,double>()(rng)>"
//         | "exhausted"
#include "../../../harness/common.hh"
#include "celeritas/random/distribution/GenerateCanonical.hh"

namespace
{
template<class U>
struct WordEngine
{
    using result_type = U;
    static constexpr result_type min() { return 0; }
    static constexpr result_type max() { return ~U(0); }

    std::vector<std::uint64_t> const* words;
    std::size_t pos{0};
    result_type operator()()
    {
        if (pos >= words->size())
            throw verif::StreamExhausted{};
        return static_cast<result_type>((*words)[pos++]);
    }
};

template<class U>
void run_case(std::vector<std::uint64_t> const& xs)
{
    try
    {
        WordEngine<U> e1{&xs};
        double a = celeritas::generate_canonical(e1);
        WordEngine<U> e2{&xs};
        double b = celeritas::GenerateCanonical<WordEngine<U>, double>()(e2);
        WordEngine<U> e3{&xs};
        double c = celeritas::generate_canonical<double>(e3);
        if (e1.pos != e2.pos || e1.pos != e3.pos || !(b == c))
        {
            std::cout << "inconsistent\n";
            return;
        }
        std::cout << "ok " << e1.pos << " " << verif::hex(a) << " " << verif::hex(b) << "\n";
    }
    catch (verif::StreamExhausted const&)
    {
        std::cout << "exhausted\n";
    }
}
}  // namespace

int main()
{
    std::string line;
    while (std::getline(std::cin, line))
    {
        if (line.empty())
            continue;
        std::istringstream is(line);
        int w;
        std::size_t n;
        is >> w >> n;
        std::vector<std::uint64_t> xs(n);
        for (auto& x : xs)
            is >> x;
        if (w == 32)
            run_case<std::uint32_t>(xs);
        else if (w == 64)
            run_case<std::uint64_t>(xs);
        else
            std::cout << "badwidth\n";
    }
    return 0;
}
