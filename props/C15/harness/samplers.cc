// C15 correspondence harness: real sampler templates on a replayed stream.
// stdin: one case per line:  <kind> <nparams> p... <nstream> u...
// stdout: one line per case: "ok <consumed> <nvals> v..."  |  "exhausted"
#include "../../../harness/common.hh"
#include "celeritas/random/distribution/UniformRealDistribution.hh"
#include "celeritas/random/distribution/ExponentialDistribution.hh"
#include "celeritas/random/distribution/BernoulliDistribution.hh"
#include "celeritas/random/distribution/PoissonDistribution.hh"
#include "celeritas/random/distribution/NormalDistribution.hh"
#include "celeritas/random/distribution/GammaDistribution.hh"
#include "celeritas/random/distribution/ReciprocalDistribution.hh"
#include "celeritas/random/distribution/InverseSquareDistribution.hh"
#include "celeritas/random/distribution/RadialDistribution.hh"
#include "celeritas/random/distribution/IsotropicDistribution.hh"
#include "celeritas/random/distribution/UniformBoxDistribution.hh"
#include "celeritas/random/distribution/RejectionSampler.hh"
#include "celeritas/random/Selector.hh"
#include "celeritas/em/distribution/TsaiUrbanDistribution.hh"

using namespace celeritas;
using verif::hex;

// one sample of distribution `kind` with parameters p; false = unknown kind
static bool sample_once(std::string const& kind, std::vector<double> const& p,
                        verif::ReplayEngine& rng, std::vector<double>& out)
{
    if (kind == "uniform") { UniformRealDistribution<double> d(p[0], p[1]); out.push_back(d(rng)); }
            else if (kind == "exponential") { ExponentialDistribution<double> d(p[0]); out.push_back(d(rng)); }
            else if (kind == "bernoulli") { BernoulliDistribution d(p[0]); out.push_back(d(rng) ? 1 : 0); }
            else if (kind == "bernoulli2") { BernoulliDistribution d(p[0], p[1]); out.push_back(d(rng) ? 1 : 0); }
            else if (kind == "poisson") { PoissonDistribution<double> d(p[0]); out.push_back(static_cast<double>(d(rng))); }
            else if (kind == "normal2")
            {   // two successive samples (second uses the spare)
                NormalDistribution<double> d(p[0], p[1]); out.push_back(d(rng)); out.push_back(d(rng));
            }
            else if (kind == "gamma") { GammaDistribution<double> d(p[0], p[1]); out.push_back(d(rng)); }
            else if (kind == "reciprocal") { ReciprocalDistribution<double> d(p[0], p[1]); out.push_back(d(rng)); }
            else if (kind == "invsquare") { InverseSquareDistribution<double> d(p[0], p[1]); out.push_back(d(rng)); }
            else if (kind == "radial") { RadialDistribution<double> d(p[0]); out.push_back(d(rng)); }
            else if (kind == "isotropic") { IsotropicDistribution<double> d; auto v = d(rng); out.assign(v.begin(), v.end()); }
            else if (kind == "box")
            {
                UniformBoxDistribution<double> d({p[0], p[1], p[2]}, {p[3], p[4], p[5]});
                auto v = d(rng); out.assign(v.begin(), v.end());
            }
            else if (kind == "rejection") { RejectionSampler<double> d(p[0], p[1]); out.push_back(d(rng) ? 1 : 0); }
            else if (kind == "selector")
            {   // p = total, w0..wn-1
                std::vector<double> w(p.begin() + 1, p.end());
                auto sel = make_selector([&w](size_type i) { return w[i]; }, size_type(w.size()), p[0]);
                out.push_back(static_cast<double>(sel(rng)));
            }
            else if (kind == "tsaiurban")
            {
                TsaiUrbanDistribution d(units::MevEnergy{p[0]}, units::MevMass{p[1]});
                out.push_back(d(rng));
            }
            else if (kind == "normalN")
            {   // p = mean, sd, n: n successive samples (bulk statistics)
                NormalDistribution<double> d(p[0], p[1]);
                for (int i = 0; i < int(p[2]); ++i) out.push_back(d(rng));
            }
            else { return false; }
    return true;
}

int main()
{
    std::string line;
    while (std::getline(std::cin, line))
    {
        if (line.empty()) continue;
        std::istringstream is(line);
        std::string kind; is >> kind;
        std::vector<double> p = verif::rdvec(is);
        // "bulk:<kind>": last parameter = number of samples drawn from one engine
        // (supporting statistical test); output "ok <consumed> <n> v..."
        std::size_t nsamp = 1;
        bool bulk = kind.rfind("bulk:", 0) == 0;
        if (bulk) { kind = kind.substr(5); nsamp = static_cast<std::size_t>(p.back()); p.pop_back(); }
        verif::ReplayEngine rng(verif::rdvec(is));
        std::vector<double> out;
        try
        {
            bool known = true;
            for (std::size_t i = 0; i < nsamp && known; ++i)
            {
                std::vector<double> one;
                known = sample_once(kind, p, rng, one);
                if (bulk) { if (!one.empty()) out.push_back(one[0]); }
                else out = one;
            }
            if (!known) { std::cout << "unknown " << kind << "\n"; continue; }
        }
        catch (verif::StreamExhausted const&)
        {
            if (!bulk) { std::cout << "exhausted\n"; continue; }
        }
        std::cout << "ok " << rng.consumed() << " " << out.size();
        for (double v : out) std::cout << " " << hex(v);
        std::cout << "\n";
    }
    return 0;
}
