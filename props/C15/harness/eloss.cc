// C15 correspondence harness, part 2: energy-loss fluctuation distributions
// (EnergyLossHelper + Gamma / Gaussian / Urban) on a replayed stream, set up
// as test/celeritas/em/distribution/EnergyLossHelper.test.cc does (argon).
// stdin:  eloss <pid 0=e- 1=mu-> <material 0=Ar 1=H 2=C 3=Pb> <energy MeV> <mean_loss MeV> <step cm> <cutoff MeV> <k> u...
//         urbanctor <material> <unscaled mean> <max_energy> <two_mebsgs> <beta_sq> <k> u...  (direct constructor)
//         urbanN <material> <mean> <max_energy> <two_mebsgs> <beta_sq> <n> <k> u...  (n samples)
//         gaussN|gammadN <a> <b> <n> <k> u...   (n samples, mean-of-law oracle)
//         gauss <mean> <stddev> <k> u...        (EnergyLossGaussianDistribution, n samples=2)
//         gammad <mean> <var> <k> u...          (EnergyLossGammaDistribution)
// stdout: eloss: "ok <model 0..3> <consumed|-1> <loss> mean max_energy beta_sq bohr_var two_mebsgs gamma mass
//                 I logI be0 be1 logbe0 logbe1 f0 f1   (material inputs of the Urban constructor)
//                 [urban state: max_energy loss_scaling be0 be1 xs0 xs1 xs_ion]"
#include "../../../harness/common.hh"

#include <memory>

#include "corecel/data/CollectionStateStore.hh"
#include "celeritas/Quantities.hh"
#include "celeritas/em/distribution/EnergyLossDeltaDistribution.hh"
#include "celeritas/em/distribution/EnergyLossGammaDistribution.hh"
#include "celeritas/em/distribution/EnergyLossGaussianDistribution.hh"
#include "celeritas/em/distribution/EnergyLossHelper.hh"
#include "celeritas/em/params/FluctuationParams.hh"
#include "celeritas/mat/MaterialParams.hh"
#include "celeritas/mat/MaterialTrackView.hh"
#include "celeritas/phys/CutoffParams.hh"
#include "celeritas/phys/CutoffView.hh"
#include "celeritas/phys/ParticleParams.hh"
#include "celeritas/phys/ParticleTrackView.hh"
#include "celeritas/random/distribution/PoissonDistribution.hh"
#include "celeritas/random/distribution/UniformRealDistribution.hh"

// read-only access to the state computed by the Urban constructor (the
// constructor itself is not modelled; the sampling is)
#define private public
#include "celeritas/em/distribution/EnergyLossUrbanDistribution.hh"
#undef private

using namespace celeritas;
using verif::hex;
using verif::rd;
using units::MevEnergy;
using EnergySq = Quantity<UnitProduct<units::Mev, units::Mev>>;

struct Setup
{
    std::shared_ptr<MaterialParams> materials;
    std::shared_ptr<ParticleParams> particles;
    std::shared_ptr<FluctuationParams> fluct;
    CollectionStateStore<ParticleStateData, MemSpace::host> particle_state;
    CollectionStateStore<MaterialStateData, MemSpace::host> material_state;

    Setup()
    {
        using namespace constants;
        using namespace units;
        MaterialParams::Input mat_inp;
        // material 0 = argon as in the unit test; others reach the Urban
        // constructor's other excitation branches (Z <= 2: single level only)
        mat_inp.elements = {{AtomicNumber{18}, AmuMass{39.948}, {}, "Ar"},
                            {AtomicNumber{1}, AmuMass{1.008}, {}, "H"},
                            {AtomicNumber{6}, AmuMass{12.011}, {}, "C"},
                            {AtomicNumber{82}, AmuMass{207.2}, {}, "Pb"}};
        mat_inp.materials = {
            {native_value_from(MolCcDensity{1.0}), 293.0, MatterState::solid,
             {{ElementId{0}, 1.0}}, "Ar"},
            {native_value_from(MolCcDensity{0.1}), 293.0, MatterState::gas,
             {{ElementId{1}, 1.0}}, "H"},
            {native_value_from(MolCcDensity{0.2}), 293.0, MatterState::solid,
             {{ElementId{2}, 1.0}}, "C"},
            {native_value_from(MolCcDensity{0.05}), 293.0, MatterState::solid,
             {{ElementId{3}, 1.0}}, "Pb"}};
        materials = std::make_shared<MaterialParams>(std::move(mat_inp));
        ParticleParams::Input par_inp{
            {"electron", pdg::electron(), MevMass{0.5109989461},
             ElementaryCharge{-1}, stable_decay_constant},
            {"mu_minus", pdg::mu_minus(), MevMass{105.6583745},
             ElementaryCharge{-1}, stable_decay_constant}};
        particles = std::make_shared<ParticleParams>(std::move(par_inp));
        particle_state = CollectionStateStore<ParticleStateData, MemSpace::host>(
            particles->host_ref(), 1);
        material_state = CollectionStateStore<MaterialStateData, MemSpace::host>(
            materials->host_ref(), 1);
        fluct = std::make_shared<FluctuationParams>(*particles, *materials);
    }
};

int main()
{
    Setup su;
    std::string line;
    while (std::getline(std::cin, line))
    {
        if (line.empty()) continue;
        std::istringstream is(line);
        std::string kind;
        is >> kind;
        if (kind == "gaussN" || kind == "gammadN")
        {   // N samples from one distribution object (mean-of-law oracle)
            double a = rd(is), b = rd(is);
            int n; is >> n;
            verif::ReplayEngine rng(verif::rdvec(is));
            std::cout << "ok";
            try
            {
                if (kind == "gaussN")
                {
                    EnergyLossGaussianDistribution d(MevEnergy{a}, MevEnergy{b});
                    for (int i = 0; i < n; ++i) std::cout << " " << hex(d(rng).value());
                }
                else
                {
                    EnergyLossGammaDistribution d(MevEnergy{a}, EnergySq{b});
                    for (int i = 0; i < n; ++i) std::cout << " " << hex(d(rng).value());
                }
            }
            catch (verif::StreamExhausted const&) {}
            std::cout << "\n";
            continue;
        }
        if (kind == "gauss" || kind == "gammad")
        {
            double a = rd(is), b = rd(is);
            verif::ReplayEngine rng(verif::rdvec(is));
            try
            {
                double x1, x2 = 0;
                if (kind == "gauss")
                {
                    EnergyLossGaussianDistribution d(MevEnergy{a}, MevEnergy{b});
                    x1 = d(rng).value();
                    x2 = d(rng).value();
                }
                else
                {
                    EnergyLossGammaDistribution d(MevEnergy{a}, EnergySq{b});
                    x1 = d(rng).value();
                }
                std::cout << "ok " << rng.consumed() << " " << hex(x1) << " "
                          << hex(x2) << "\n";
            }
            catch (verif::StreamExhausted const&) { std::cout << "exhausted\n"; }
            continue;
        }
        if (kind == "urbanN")
        {   // n samples from one directly constructed Urban distribution (sampling-side mean oracle)
            int matid; is >> matid;
            double mean = rd(is), max_e = rd(is), tmb = rd(is), bsq = rd(is);
            int n; is >> n;
            verif::ReplayEngine rng(verif::rdvec(is));
            MaterialTrackView material(su.materials->host_ref(),
                                       su.material_state.ref(), TrackSlotId{0});
            material = {MaterialId(matid)};
            EnergyLossUrbanDistribution d(su.fluct->host_ref(), material,
                                          MevEnergy{mean}, MevEnergy{max_e},
                                          units::MevMass{tmb}, bsq);
            std::cout << "ok " << hex(d.xs_exc_[0]) << " " << hex(d.xs_exc_[1]) << " "
                      << hex(d.xs_ion_);
            try { for (int i = 0; i < n; ++i) std::cout << " " << hex(d(rng).value()); }
            catch (verif::StreamExhausted const&) {}
            std::cout << "\n";
            continue;
        }
        if (kind == "urbanctor")
        {   // direct constructor: mat unscaled_mean max_energy two_mebsgs beta_sq
            int matid; is >> matid;
            double mean = rd(is), max_e = rd(is), tmb = rd(is), bsq = rd(is);
            verif::ReplayEngine rng(verif::rdvec(is));
            MaterialTrackView material(su.materials->host_ref(),
                                       su.material_state.ref(), TrackSlotId{0});
            material = {MaterialId(matid)};
            EnergyLossUrbanDistribution d(su.fluct->host_ref(), material,
                                          MevEnergy{mean}, MevEnergy{max_e},
                                          units::MevMass{tmb}, bsq);
            double loss = 0;
            long consumed = -1;
            try { loss = d(rng).value(); consumed = static_cast<long>(rng.consumed()); }
            catch (verif::StreamExhausted const&) { consumed = -1; }
            auto const& up = su.fluct->host_ref().urban[MaterialId(matid)];
            auto mv = material.make_material_view();
            std::cout << "ok " << consumed << " " << hex(loss) << " "
                      << hex(mv.mean_excitation_energy().value()) << " "
                      << hex(mv.log_mean_excitation_energy().value()) << " "
                      << hex(up.binding_energy[0]) << " " << hex(up.binding_energy[1])
                      << " " << hex(up.log_binding_energy[0]) << " "
                      << hex(up.log_binding_energy[1]) << " "
                      << hex(up.oscillator_strength[0]) << " "
                      << hex(up.oscillator_strength[1]) << " " << hex(d.max_energy_)
                      << " " << hex(d.loss_scaling_) << " " << hex(d.binding_energy_[0])
                      << " " << hex(d.binding_energy_[1]) << " " << hex(d.xs_exc_[0])
                      << " " << hex(d.xs_exc_[1]) << " " << hex(d.xs_ion_) << "\n";
            continue;
        }
        if (kind != "eloss") { std::cout << "unknown\n"; continue; }
        int pid; is >> pid;
        int matid; is >> matid;
        double energy = rd(is), mean_loss = rd(is), step = rd(is), cut = rd(is);
        verif::ReplayEngine rng(verif::rdvec(is));

        CutoffParams::Input cut_inp{
            su.particles, su.materials,
            {{pdg::electron(),
              {{MevEnergy{cut}, 0}, {MevEnergy{cut}, 0}, {MevEnergy{cut}, 0},
               {MevEnergy{cut}, 0}}}}};
        auto cutoffs = std::make_shared<CutoffParams>(std::move(cut_inp));
        ParticleTrackView particle(su.particles->host_ref(),
                                   su.particle_state.ref(), TrackSlotId{0});
        particle = {ParticleId(pid), MevEnergy{energy}};
        MaterialTrackView material(su.materials->host_ref(),
                                   su.material_state.ref(), TrackSlotId{0});
        material = {MaterialId(matid)};
        CutoffView cutoff(cutoffs->host_ref(), MaterialId(matid));
        EnergyLossHelper helper(su.fluct->host_ref(), cutoff, material,
                                particle, MevEnergy{mean_loss}, step);
        int model = static_cast<int>(helper.model());
        std::ostringstream tail;
        double loss = 0;
        long consumed = -1;
        try
        {
            switch (helper.model())
            {
                case EnergyLossFluctuationModel::none:
                    loss = EnergyLossDeltaDistribution(helper)(rng).value();
                    break;
                case EnergyLossFluctuationModel::gamma:
                    loss = EnergyLossGammaDistribution(helper)(rng).value();
                    break;
                case EnergyLossFluctuationModel::gaussian:
                    loss = EnergyLossGaussianDistribution(helper)(rng).value();
                    break;
                case EnergyLossFluctuationModel::urban: {
                    EnergyLossUrbanDistribution d(helper);
                    tail << " " << hex(d.max_energy_) << " "
                         << hex(d.loss_scaling_) << " "
                         << hex(d.binding_energy_[0]) << " "
                         << hex(d.binding_energy_[1]) << " " << hex(d.xs_exc_[0])
                         << " " << hex(d.xs_exc_[1]) << " " << hex(d.xs_ion_);
                    loss = d(rng).value();
                    break;
                }
            }
            consumed = static_cast<long>(rng.consumed());
        }
        catch (verif::StreamExhausted const&) { consumed = -1; }
        std::cout << "ok " << model << " " << consumed << " " << hex(loss) << " "
                  << hex(mean_loss);
        if (helper.model() != EnergyLossFluctuationModel::none)
        {
            std::cout << " " << hex(helper.max_energy().value()) << " "
                      << hex(helper.beta_sq()) << " "
                      << hex(helper.bohr_variance().value()) << " "
                      << hex(helper.two_mebsgs().value());
        }
        else
        {
            std::cout << " 0x0p+0 0x0p+0 0x0p+0 0x0p+0";
        }
        std::cout << " " << hex(particle.lorentz_factor()) << " "
                  << hex(particle.mass().value());
        {   // material-dependent inputs of the Urban constructor
            auto const& up = su.fluct->host_ref().urban[MaterialId(matid)];
            auto mv = material.make_material_view();
            std::cout << " " << hex(mv.mean_excitation_energy().value()) << " "
                      << hex(mv.log_mean_excitation_energy().value()) << " "
                      << hex(up.binding_energy[0]) << " "
                      << hex(up.binding_energy[1]) << " "
                      << hex(up.log_binding_energy[0]) << " "
                      << hex(up.log_binding_energy[1]) << " "
                      << hex(up.oscillator_strength[0]) << " "
                      << hex(up.oscillator_strength[1]);
        }
        std::cout << tail.str() << "\n";
    }
    return 0;
}
