"""C15 — random samplers: proofs (Properties_C15.v) + replay-RNG differential
of the float model against the real templates + support oracle."""
import math, os, sys
import vlib
from vlib import hexf, close

HERE = os.path.dirname(os.path.abspath(__file__))
PRE = ("From Coq Require Import ZArith List Floats.\n"
       "From Celer Require Import Base.Num Base.NumF Base.Vec3 C15.Run.\n"
       "Import ListNotations.\nOpen Scope float_scope.\n")

EPS = 2.0 ** -53


def fl(xs):
    return "[" + "; ".join(hexf(x) for x in xs) + "]"


def gen_u(r, n, extremes=True):
    """stream of canonical uniforms in [0,1), with forced extremes sometimes"""
    out = []
    for _ in range(n):
        c = r.random()
        if extremes and c < 0.06:
            out.append(r.choice([0.0, 1 - EPS, EPS, 0.5, 2.0 ** -30, 1 - 2.0 ** -20]))
        else:
            out.append(r.random())
    return out


def nz(u):
    """avoid u == 0 where log(u) = -inf (documented: canonical in [0,1))"""
    return [x if x > 0 else 2.0 ** -60 for x in u]


def logu(r, lo, hi):
    return 10 ** r.uniform(lo, hi)


def gen_cases(ctx, n):
    r = ctx.rng
    cases = []
    # the stored minimal reproduction of finding F6 runs first (corpus)
    cases.append(("poisson", [16.5], [0.75, 1e-5]))
    kinds = ["uniform", "exponential", "bernoulli", "bernoulli2", "rejection", "reciprocal",
             "invsquare", "radial", "isotropic", "box", "normal2", "poisson", "poisson",
             "selector", "gamma"]
    for i in range(n):
        k = kinds[i % len(kinds)]
        if k == "uniform":
            a = r.choice([0.0, -1.0, logu(r, -6, 6), -logu(r, -6, 6)])
            b = a + r.choice([0.0, logu(r, -8, 8)])
            cases.append((k, [a, b], gen_u(r, 1)))
        elif k == "exponential":
            cases.append((k, [logu(r, -8, 8)], nz(gen_u(r, 1))))
        elif k == "bernoulli":
            cases.append((k, [r.choice([0.0, 1.0, r.random(), EPS, 1 - EPS])], gen_u(r, 1)))
        elif k == "bernoulli2":
            cases.append((k, [r.choice([0.0, logu(r, -5, 5)]), logu(r, -5, 5)], gen_u(r, 1)))
        elif k == "rejection":
            m = logu(r, -5, 5)
            cases.append((k, [m * r.choice([0.0, 1.0, r.random()]), m], gen_u(r, 1)))
        elif k in ("reciprocal", "invsquare"):
            a = logu(r, -6, 6)
            b = a * r.choice([1.0, 1 + logu(r, -10, 0), logu(r, 0, 8)])
            cases.append((k, [a, b], gen_u(r, 1)))
        elif k == "radial":
            cases.append((k, [logu(r, -6, 6)], gen_u(r, 1)))
        elif k == "isotropic":
            cases.append((k, [], gen_u(r, 2)))
        elif k == "box":
            lo = [r.uniform(-10, 10) for _ in range(3)]
            hi = [x + r.choice([0.0, logu(r, -3, 3)]) for x in lo]
            cases.append((k, lo + hi, gen_u(r, 3)))
        elif k == "normal2":
            cases.append((k, [r.uniform(-100, 100), logu(r, -5, 5)], nz(gen_u(r, 2))))
        elif k == "poisson":
            c = r.random()
            if c < 0.35:      # direct method
                lam = r.choice([16.0, logu(r, -3, 1.2), r.uniform(0.01, 16)])
                cases.append((k, [lam], nz(gen_u(r, 200, extremes=False))))
            elif c < 0.7:     # gaussian branch near the threshold, low tail aimed at negatives
                lam = r.choice([16.0 + 2.0 ** -40, 16.5, r.uniform(16, 20)])
                u2 = r.choice([logu(r, -12, -3), r.random()])
                u1 = r.choice([0.75, r.uniform(0.7, 0.8), r.random()])
                cases.append((k, [lam], [u1, u2]))
            else:
                cases.append((k, [logu(r, 1.3, 6)], nz(gen_u(r, 2))))
        elif k == "selector":
            n_w = r.choice([1, 2, 3, 5, 12])
            w = [r.choice([0.0, r.random()]) for _ in range(n_w)]
            if sum(w) == 0:
                w[r.randrange(n_w)] = 1.0
            tot = math.fsum(w)
            cases.append((k, [tot] + w, gen_u(r, 1)))
        elif k == "gamma":
            al = r.choice([1.0, 0.5, logu(r, -2, 2), r.uniform(0.9, 1.1)])
            cases.append((k, [al, logu(r, -3, 3)], nz(gen_u(r, 60, extremes=False))))
    return cases


def model_expr(k, p, u, clamp):
    s = fl(u)
    if k == "isotropic":
        return "run_isotropic %s" % s
    if k == "box":
        return "run_box (V3 %s %s %s) (V3 %s %s %s) %s" % (*[hexf(x) for x in p], s)
    if k == "poisson":
        return "run_poisson %s %s %s" % ("true" if clamp else "false", hexf(p[0]), s)
    if k == "selector":
        return "run_selector %s %s %s" % (fl(p[1:]), hexf(p[0]), s)
    return "run_%s %s %s" % (k, " ".join(hexf(x) for x in p), s)


def support_violation(k, p, vals):
    """The property's own oracle on the implementation's output: documented support."""
    if any(v != v for v in vals):
        return "NaN result"
    x = vals[0]
    if k == "uniform" and not (p[0] <= x <= p[1]):
        return "uniform outside [a,b]"
    if k == "exponential" and not (x >= 0):
        return "exponential negative"
    if k in ("reciprocal", "invsquare") and not (p[0] * (1 - 1e-12) <= x <= p[1] * (1 + 1e-12)):
        return k + " outside [a,b]"
    if k == "radial" and not (0 <= x <= p[0]):
        return "radial outside [0,R]"
    if k == "isotropic" and abs(math.sqrt(sum(v * v for v in vals)) - 1) > 1e-12:
        return "isotropic direction not unit"
    if k == "box" and not all(p[i] <= vals[i] <= p[3 + i] for i in range(3)):
        return "box sample outside box"
    if k == "poisson":
        lam = p[0]
        if not (0 <= x <= lam + 40 * math.sqrt(lam) + 60):
            return "poisson count outside plausible support: %r" % x
    if k == "selector" and not (0 <= x < len(p) - 1):
        return "selector index out of range"
    if k == "gamma" and not (x >= 0 and math.isfinite(x)):
        return "gamma sample not in (0, inf)"
    return None


def run(ctx):
    n = 600 if ctx.tier == "quick" else 12000
    ctx.trusted += [
        "hand-written model coq/C15/Samplers.v tied by replay-RNG differential (props/C15/run.py, harness/samplers.cc)",
        "float instance of Num (Base/NumF.v, Base/FloatFun.v): own exp/log/sin/cos/cbrt; compared with libm under rtol 1e-9",
        "gap R vs binary64 rounding (DESIGN.md 3.1)",
    ]
    ctx.assumptions += ["uniform stream values are canonical: in [0,1) (C13 proves it for the double generator)",
                        "rejection samplers' distribution law is not a theorem (partial): only support/draw bounds"]
    proofs_ok = ctx.coq_prove("Properties_C15.v")
    if not proofs_ok:
        ok, _ = ctx.coq_build(["C15/Run.vo"])
        if not ok:
            ctx.violation("model-broken", "the executable model no longer compiles", ctx.broken_proof, no_input=True)
            return
    else:
        ctx.coq_build(["C15/Run.vo"])
    exe = ctx.compile_harness([os.path.join(HERE, "harness", "samplers.cc")], "samplers")
    cases = gen_cases(ctx, n)
    inp = "".join("%s %d %s %d %s\n" % (k, len(p), " ".join(float(x).hex() for x in p), len(u),
                                        " ".join(float(x).hex() for x in u)) for k, p, u in cases)
    rc, out = ctx.run_harness(exe, input=inp)
    lines = out.strip().splitlines()
    if rc != 0 or len(lines) != len(cases):
        raise vlib.BuildError("sampler harness failed rc=%d" % rc, out[-2000:])
    # which Poisson model is the current code? decided by the differential on
    # both variants: the model with clamp (repaired) is the one the theorem is about
    exprs = [model_expr(k, p, u, True) for k, p, u in cases]
    mvals = ctx.coq_eval("cases", PRE, exprs, chunk=max(50, len(exprs) // 16 + 1))
    ndis = 0
    for (k, p, u), line, mv in zip(cases, lines, mvals):
        tok = line.split()
        ctx.count("kind:" + k)
        if tok[0] == "exhausted":
            impl = None
        else:
            cons = int(tok[1]); nv = int(tok[2])
            impl = ([float.fromhex(t) if t not in ("nan", "inf", "-inf") else float(t) for t in tok[3:3 + nv]], cons)
        model = None if mv is None else (list(mv[0]), mv[1])
        key = (k, p, u[:4])
        ctx.case(key, nontrivial=impl is not None)
        ctx.sample({"kind": k, "params": p, "stream_head": u[:3], "impl": impl, "model": model})
        if impl is None and model is None:
            ctx.count("both-exhausted")
            continue
        # property oracle on the implementation
        sv = support_violation(k, p, impl[0]) if impl else None
        if sv:
            sig = "poisson-gauss-negative-sample-cast" if (k == "poisson" and p[0] > 16 and impl[0][0] > 2e9) else None
            ctx.violation("support", "%s (%s params=%r)" % (sv, k, p),
                          {"sampler": k, "params": p, "stream": u[:impl[1]], "impl_values": impl[0], "model_values": model and model[0]},
                          signature=sig)
            continue
        agree = (impl is not None and model is not None and impl[1] == model[1]
                 and close(impl[0], model[0], rtol=1e-9, atol=1e-300))
        if not agree and impl and model and impl[1] == model[1] and k in ("poisson", "selector", "bernoulli", "bernoulli2", "rejection", "gamma"):
            # knife-edge: a discrete outcome decided by a comparison within rounding error
            agree = knife_edge(k, p, u, impl, model)
            if agree:
                ctx.count("knife-edge-accepted")
        if not agree:
            ndis += 1
            ctx.violation("correspondence", "model and implementation differ for %s" % k,
                          {"sampler": k, "params": p, "stream": u[:max(impl[1] if impl else 0, 8)],
                           "impl": impl, "model": model,
                           "theorem": "Properties_C15.v is about a model that no longer matches the code"},
                          no_input=True)
            if ndis > 5:
                break
    if not proofs_ok:
        ctx.violation("proof-broken", "Properties_C15.v no longer checks", ctx.broken_proof, no_input=True)
    ctx.coverage["rule"] = ("cases = (sampler kind, parameters, uniform stream) drawn from one PRNG seeded by VERIF_SEED; "
                            "non-trivial = the implementation returned a sample (stream not exhausted); distinct by (kind, params, stream head)")
    ctx.coverage["traces_validated_against_impl"] = len(cases)


def knife_edge(k, p, u, impl, model):
    # accept a differing discrete answer only when a tiny perturbation of the
    # deciding uniform flips the model too: not attempted (conservative) except poisson direct count +-1 at p*u ~ 1
    if k == "poisson" and p[0] <= 16 and abs(impl[0][0] - model[0][0]) <= 1:
        prod = math.exp(p[0])
        for x in u[:impl[1]]:
            prod *= x
            if abs(prod - 1) < 1e-9:
                return True
    return False
