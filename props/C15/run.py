"""C15 — random samplers: proofs (Properties_C15.v) + replay-RNG differential
of the float model against the real templates + support oracle."""
import math, os, sys
import vlib
from vlib import hexf, close

HERE = os.path.dirname(os.path.abspath(__file__))
PRE = ("From Coq Require Import ZArith List Floats.\n"
       "From Celer Require Import Base.Num Base.NumF Base.Vec3 C15.Run.\n"
       "Import ListNotations.\nOpen Scope float_scope.\n")

EPS = 2.0 ** -53


def fl(xs):
    return "[" + "; ".join(hexf(x) for x in xs) + "]"


def gen_u(r, n, extremes=True):
    """stream of canonical uniforms in [0,1), with forced extremes sometimes"""
    out = []
    for _ in range(n):
        c = r.random()
        if extremes and c < 0.06:
            out.append(r.choice([0.0, 1 - EPS, EPS, 0.5, 2.0 ** -30, 1 - 2.0 ** -20]))
        else:
            out.append(r.random())
    return out


def nz(u):
    """avoid u == 0 where log(u) = -inf (documented: canonical in [0,1))"""
    return [x if x > 0 else 2.0 ** -60 for x in u]


def logu(r, lo, hi):
    return 10 ** r.uniform(lo, hi)


def gen_cases(ctx, n):
    r = ctx.rng
    cases = []
    # the stored minimal reproduction of finding F6 runs first (corpus)
    cases.append(("poisson", [16.5], [0.75, 1e-5]))
    # the direct/Gaussian switch-over: lambda exactly at the threshold and one ulp on either side, several streams
    for lam in (16.0, math.nextafter(16.0, 0.0), math.nextafter(16.0, 32.0)):
        for _ in range(3):
            cases.append(("poisson", [lam], nz(gen_u(r, 200, extremes=False))))
    kinds = ["uniform", "exponential", "bernoulli", "bernoulli2", "rejection", "reciprocal",
             "invsquare", "radial", "isotropic", "box", "normal2", "poisson", "poisson",
             "selector", "gamma", "tsaiurban", "selector"]
    for i in range(n):
        k = kinds[i % len(kinds)]
        if k == "uniform":
            a = r.choice([0.0, -1.0, logu(r, -6, 6), -logu(r, -6, 6)])
            b = a + r.choice([0.0, logu(r, -8, 8)])
            cases.append((k, [a, b], gen_u(r, 1)))
        elif k == "exponential":
            cases.append((k, [logu(r, -8, 8)], nz(gen_u(r, 1))))
        elif k == "bernoulli":
            cases.append((k, [r.choice([0.0, 1.0, r.random(), EPS, 1 - EPS])], gen_u(r, 1)))
        elif k == "bernoulli2":
            cases.append((k, [r.choice([0.0, logu(r, -5, 5)]), logu(r, -5, 5)], gen_u(r, 1)))
        elif k == "rejection":
            m = logu(r, -5, 5)
            cases.append((k, [m * r.choice([0.0, 1.0, r.random()]), m], gen_u(r, 1)))
        elif k in ("reciprocal", "invsquare"):
            a = logu(r, -6, 6)
            b = a * r.choice([1.0, 1 + logu(r, -10, 0), logu(r, 0, 8)])
            cases.append((k, [a, b], gen_u(r, 1)))
        elif k == "radial":
            cases.append((k, [logu(r, -6, 6)], gen_u(r, 1)))
        elif k == "isotropic":
            cases.append((k, [], gen_u(r, 2)))
        elif k == "box":
            lo = [r.uniform(-10, 10) for _ in range(3)]
            hi = [x + r.choice([0.0, logu(r, -3, 3)]) for x in lo]
            cases.append((k, lo + hi, gen_u(r, 3)))
        elif k == "normal2":
            cases.append((k, [r.uniform(-100, 100), logu(r, -5, 5)], nz(gen_u(r, 2))))
        elif k == "poisson":
            c = r.random()
            if c < 0.35:      # direct method
                lam = r.choice([16.0, logu(r, -3, 1.2), r.uniform(0.01, 16)])
                cases.append((k, [lam], nz(gen_u(r, 200, extremes=False))))
            elif c < 0.7:     # gaussian branch near the threshold, low tail aimed at negatives
                lam = r.choice([16.0 + 2.0 ** -40, 16.5, r.uniform(16, 20)])
                u2 = r.choice([logu(r, -12, -3), r.random()])
                u1 = r.choice([0.75, r.uniform(0.7, 0.8), r.random()])
                cases.append((k, [lam], [u1, u2]))
            else:
                cases.append((k, [logu(r, 1.3, 6)], nz(gen_u(r, 2))))
        elif k == "selector":
            n_w = r.choice([1, 2, 3, 5, 12])
            w = [r.choice([0.0, r.random()]) for _ in range(n_w)]
            if sum(w) == 0:
                w[r.randrange(n_w)] = 1.0
            tot = math.fsum(w)
            if r.random() < 0.3 and n_w > 1:      # u aimed at a cumulative boundary (dyadic weights: exact)
                w = [r.choice([0.0, 0.125, 0.25, 0.5]) for _ in range(n_w)]
                if sum(w) == 0:
                    w[0] = 0.5
                tot = sum(w)
                kcut = r.randrange(0, n_w + 1)
                ub = min(sum(w[:kcut]) / tot, 1 - EPS)
                cases.append((k, [tot] + w, [r.choice([ub, max(0.0, ub - EPS), min(1 - EPS, ub + EPS)])]))
            else:
                cases.append((k, [tot] + w, gen_u(r, 1)))
        elif k == "gamma":
            al = r.choice([1.0, 0.5, 1 - EPS, 1 + 2 * EPS, logu(r, -2, 2), r.uniform(0.9, 1.1)])
            cases.append((k, [al, logu(r, -3, 3)], nz(gen_u(r, 60, extremes=False))))
        elif k == "tsaiurban":
            mass = r.choice([0.5109989461, 105.6583745])
            en = r.choice([logu(r, -3, 4), 0.0, mass * logu(r, -6, 0)])
            cases.append((k, [en, mass], nz(gen_u(r, 90))))
    # Marsaglia-Tsang squeeze gap (theorem C15_gamma_squeeze_sound): first-iteration points (z, u) that fail the
    # exact logarithmic test by a clear margin, with u in the gap between squeeze and exact bound.  The code as it
    # is rejects them; a weaker squeeze constant accepts them, which `squeeze_oracle` turns into a concrete input.
    for j in range(10 if ctx.tier == "quick" else 200):
        al = r.choice([1.0, 1.0, 1.25, 2.0, 5.0])
        z = r.choice([-1, -1, 1]) * r.uniform(1.2, 2.3)
        g = mt_first_iteration(al, z)
        if g is None:
            continue
        sq, ex = g
        if sq <= 0:
            continue
        u3 = max(math.exp(ex), sq) * (1 + r.choice([1e-6, 1e-4, 1e-3]))
        if not (u3 < 1):
            continue
        u1 = 0.25 if z > 0 else 0.75          # sin(2 pi u1) = +-1
        u2 = math.exp(-0.5 * z * z)           # r = |z|
        cases.append(("gamma", [al, 1.0], [u1, u2, u3] + nz(gen_u(r, 60, extremes=False))))
    return cases


def mt_first_iteration(alpha, z):
    """(squeeze bound, exact bound) of the Marsaglia-Tsang test at deviate z, None if v <= 0 (alpha >= 1)"""
    d = alpha - 1.0 / 3
    c = 1 / math.sqrt(9 * d)
    v = 1 + c * z
    if v <= 0:
        return None
    v3 = v ** 3
    return 1 - 0.0331 * z ** 4, 0.5 * z * z + d * (1 - v3 + math.log(v3))


def pointwise_law_oracle(k, p, u, impl):
    """The pointwise laws proved in coq/C15/DensityLaws.v, evaluated on the implementation's own (stream, output) pair
    (no model involved): Poisson inter-arrival characterisation, Gaussian-regime rounding, Box-Muller polar identity,
    Marsaglia-Tsang exact test of the accepted triple.  Returns (kind, message, details) or None.  Tolerances only
    absorb rounding: a knife-edge decision (deciding quantity within 1e-9 of its threshold) is accepted either way."""
    if impl is None:
        return None
    vals, cons = impl
    if k == "poisson" and len(vals) == 1 and vals[0] == int(vals[0]) and vals[0] >= 0:
        lam, kk = p[0], int(vals[0])
        if lam <= 16:
            # C15_poisson_direct_interarrival: prod_{i<=j} u_i > e^-lambda for j <= k, prod_{i<=k+1} u_i <= e^-lambda
            if cons != kk + 1 or cons > len(u):
                return ("poisson-interarrival", "Poisson direct method (lambda=%r) returned k=%d after %d draws (must be k+1)" % (lam, kk, cons),
                        {"lambda": lam, "k": kk, "draws": cons})
            q = math.exp(lam)
            for j in range(1, kk + 2):
                q *= u[j - 1]
                if j <= kk and not (q > 1 - 1e-9):
                    return ("poisson-interarrival", "Poisson(lambda=%r) returned k=%d but e^lambda * u_1..u_%d = %.9g <= 1: "
                            "prod_{i<=%d} u_i > e^-lambda fails (the count should have been %d)" % (lam, kk, j, q, j, j - 1),
                            {"lambda": lam, "k": kk, "j": j, "exp_lambda_times_prod": q})
                if j == kk + 1 and not (q <= 1 + 1e-9):
                    return ("poisson-interarrival", "Poisson(lambda=%r) returned k=%d but e^lambda * u_1..u_%d = %.9g > 1: "
                            "prod_{i<=k+1} u_i <= e^-lambda fails (the arrivals before time lambda are not exhausted)" % (lam, kk, j, q),
                            {"lambda": lam, "k": kk, "j": j, "exp_lambda_times_prod": q, "e^-lambda": math.exp(-lam),
                             "prod_u": q / math.exp(lam)})
        elif len(u) >= 2 and 0 < u[1] <= 1 and lam < 1e9:
            # Gaussian regime: k = floor(max(lambda + sqrt(lambda) r sin(theta) + 1/2, 0)), two draws
            y = lam + math.sqrt(lam) * math.sqrt(-2 * math.log(u[1])) * math.sin(2 * math.pi * u[0]) + 0.5
            y = max(y, 0.0)
            if cons != 2 or abs(kk - math.floor(y)) > (1 if abs(y - round(y)) < 1e-6 * max(1.0, lam) else 0):
                return ("poisson-gaussian", "Poisson(lambda=%r) in the Gaussian regime returned %d after %d draws, rounded normal gives %d"
                        % (lam, kk, cons, math.floor(y)), {"lambda": lam, "k": kk, "draws": cons, "clamped_sample_plus_half": y})
    if k == "normal2" and len(vals) == 2 and len(u) >= 2 and 0 < u[1] <= 1 and p[1] > 0 and all(math.isfinite(v) for v in vals):
        # C15_normal_spare_companion: x1 = m + sd r sin(theta), x2 = m + sd r cos(theta), r^2 = -2 ln u2, theta = 2 pi u1
        m, sd = p
        rr = math.sqrt(-2 * math.log(u[1]))
        th = 2 * math.pi * u[0]
        z = [(vals[0] - m) / sd, (vals[1] - m) / sd]
        dz = 8 * EPS * (abs(m) + max(abs(vals[0]), abs(vals[1]))) / sd + 1e-9 * (rr + 1)
        if cons != 2 or abs(z[0] - rr * math.sin(th)) > dz or abs(z[1] - rr * math.cos(th)) > dz \
           or abs(z[0] ** 2 + z[1] ** 2 - rr * rr) > 4 * (rr + dz) * dz:
            return ("box-muller", "NormalDistribution(%r, %r): the two successive samples are not the Box-Muller pair of (u1, u2): "
                    "z = %r, r = %r, theta = %r, draws = %d" % (m, sd, z, rr, th, cons),
                    {"z1": z[0], "z2": z[1], "r": rr, "theta": th, "z1^2+z2^2": z[0] ** 2 + z[1] ** 2, "-2 ln u2": rr * rr, "draws": cons})
    if k == "gamma" and len(vals) == 1 and vals[0] > 1e-280 and math.isfinite(vals[0]) and 2 <= cons <= len(u):
        # C15_gamma_accept_exact (+ boost identity): the accepted (z, v, u) is recovered from the OUTPUT
        # x = d v^3 beta [* w^(1/alpha)], u = the draw before [the boost draw] w, and must pass the exact test
        al, be = p
        boost = al < 1
        ap = al + 1 if boost else al
        d = ap - 1.0 / 3
        c = 1 / math.sqrt(9 * d)
        x = vals[0]
        if boost:
            w = u[cons - 1]
            if not (w > 0) or al < 1e-3:
                return None
            x = x / w ** (1 / al)
            uu = u[cons - 2]
        else:
            uu = u[cons - 1]
        v3 = x / (d * be)
        if not (uu > 0 and v3 > 1e-200 and math.isfinite(v3)):
            return None
        v = v3 ** (1.0 / 3)
        z = (v - 1) / c
        exact = 0.5 * z * z + d * (1 - v3 + math.log(v3))
        tol = 1e-7 * (1 + abs(exact) + (1 / al if boost else 0))
        if math.log(uu) > exact + tol:
            return ("gamma-exact-test", "GammaDistribution(%r, %r) returned %r from the triple z=%.9g v=%.9g u=%.9g which FAILS the exact "
                    "Marsaglia-Tsang test: ln u = %.9g > %.9g" % (al, be, vals[0], z, v, uu, math.log(uu), exact),
                    {"alpha": al, "z": z, "v": v, "u": uu, "ln_u": math.log(uu), "exact_bound": exact, "draws": cons})
    return None


def squeeze_oracle(k, p, u, impl):
    """squeeze soundness on the implementation: a point accepted at the first iteration (3 draws, alpha >= 1) must
    satisfy the exact test  ln u <= z^2/2 + d (1 - v^3 + ln v^3)  -- the distribution law of the sampler rests on it"""
    if k != "gamma" or impl is None or p[0] < 1 or impl[1] != 3 or len(u) < 3 or not (0 < u[1] <= 1 and u[2] > 0):
        return None
    z = math.sqrt(-2 * math.log(u[1])) * math.sin(2 * math.pi * u[0])
    g = mt_first_iteration(p[0], z)
    if g is None:
        return None
    if math.log(u[2]) > g[1] + 1e-7:
        return {"alpha": p[0], "z": z, "u": u[2], "ln_u": math.log(u[2]), "exact_bound": g[1], "squeeze_bound_as_documented": g[0]}
    return None


def model_expr(k, p, u, clamp):
    s = fl(u)
    if k == "isotropic":
        return "run_isotropic %s" % s
    if k == "box":
        return "run_box (V3 %s %s %s) (V3 %s %s %s) %s" % (*[hexf(x) for x in p], s)
    if k == "poisson":
        return "run_poisson %s %s %s" % ("true" if clamp else "false", hexf(p[0]), s)
    if k == "selector":
        return "run_selector %s %s %s" % (fl(p[1:]), hexf(p[0]), s)
    return "run_%s %s %s" % (k, " ".join(hexf(x) for x in p), s)


def support_violation(k, p, vals):
    """The property's own oracle on the implementation's output: documented support."""
    if any(v != v for v in vals):
        return "NaN result"
    x = vals[0]
    if k == "uniform" and not (p[0] <= x <= p[1]):
        return "uniform outside [a,b]"
    if k == "exponential" and not (x >= 0):
        return "exponential negative"
    if k in ("reciprocal", "invsquare") and not (p[0] * (1 - 1e-12) <= x <= p[1] * (1 + 1e-12)):
        return k + " outside [a,b]"
    if k == "radial" and not (0 <= x <= p[0]):
        return "radial outside [0,R]"
    if k == "isotropic" and abs(math.sqrt(sum(v * v for v in vals)) - 1) > 1e-12:
        return "isotropic direction not unit"
    if k == "box" and not all(p[i] <= vals[i] <= p[3 + i] for i in range(3)):
        return "box sample outside box"
    if k == "poisson":
        lam = p[0]
        if not (0 <= x <= lam + 40 * math.sqrt(lam) + 60):
            return "poisson count outside plausible support: %r" % x
    if k == "selector" and not (0 <= x < len(p) - 1):
        return "selector index out of range"
    if k == "gamma" and not (x >= 0 and math.isfinite(x)):
        return "gamma sample not in (0, inf)"
    if k == "tsaiurban" and not (-1 <= x <= 1):
        return "Tsai-Urban cos(theta) outside [-1, 1]"
    if k == "normal2" and not all(math.isfinite(v) for v in vals):
        return "normal sample not finite for u2 > 0"
    return None



# ---------------------------------------------------------------------------
# part 2: energy-loss fluctuation distributions (second harness, links libceleritas)
ME = 0.5109989461
MMU = 105.6583745


MATS = {0: ("Ar", 188e-6, 1e-5 * 18 ** 2), 1: ("H", 19.2e-6, 1e-5), 2: ("C", 81e-6, 1e-5 * 36), 3: ("Pb", 823e-6, 1e-5 * 82 ** 2)}
URBAN_BRANCH = {0: "no-excitation(max_energy<=I)", 1: "no-excitation(w<=logI)", 2: "single-level", 3: "two-level"}



MAT_Z = {0: 18, 1: 1, 2: 6, 3: 82}


def py_urban_ctor(mat, mean_unscaled, max_e, tmb, bsq):
    """approximate replica of the Urban constructor, used only to aim the generator at the
    sampling-branch combinations (never compared with anything)"""
    _, I, E2 = MATS[mat]
    z = MAT_Z[mat]
    f1 = 2.0 / z if z > 2 else 0.0
    f0 = 1 - f1
    be1 = E2
    be0 = (I / be1 ** f1) ** (1 / f0)
    scaling = 0.5 * min(1e-3 / max_e, 1.0) + 1
    mean = mean_unscaled / scaling
    xs0 = xs1 = 0.0
    if max_e > I:
        w = math.log(tmb) - bsq
        w0 = math.log(I)
        if w > w0:
            if w > math.log(be1):
                c = mean * 0.44 / (w - w0)
                xs0 = c * f0 * (w - math.log(be0)) / be0
                xs1 = c * f1 * (w - math.log(be1)) / be1
            else:
                xs0 = mean * 0.44 / be0
            sc = 4.0 if xs0 >= 42 else 0.5 + 3.5 * math.sqrt(xs0 / 42)
            xs0 /= sc
    xsi = mean * (max_e - 1e-5) / (max_e * 1e-5 * math.log(max_e / 1e-5))
    if xs0 + xs1 > 0:
        xsi *= 0.56
    return xs0, xs1, xsi


def level_class(xs):
    return "fast" if xs > 8 else "poisson" if xs > 0 else "none"


def combo_of(xs0, xs1, xsi):
    return "lvl0=%s,lvl1=%s,ion=%s" % (level_class(xs0), level_class(xs1), "fast" if xsi > 8 else "poisson")


# reachable combinations of the Urban sampler's branches (lvl1 fast with lvl0 not fast does not occur for real
# materials: xs0/xs1 >= 4.7; lvl0 none implies lvl1 none)
URBAN_COMBOS = [(a, b, c) for (a, b) in (("none", "none"), ("poisson", "none"), ("fast", "none"), ("poisson", "poisson"),
                                         ("fast", "poisson"), ("fast", "fast")) for c in ("fast", "poisson")]


def aim_urban(r, target):
    """random direct-constructor inputs whose sampling branches are `target` = (lvl0, lvl1, ion)"""
    l0, l1, ion = target
    for _ in range(400):
        mat = r.choice([0, 0, 2, 3]) if l1 != "none" else r.choice([0, 1, 2, 3])
        _, I, E2 = MATS[mat]
        bsq = r.choice([logu(r, -6, -0.01), 0.5, 0.99])
        if l0 == "none":
            max_e = max(I * r.uniform(0.2, 0.99), 1.1e-5) if r.random() < 0.5 or mat == 1 else I * logu(r, 0.01, 2)
            tmb = I * math.exp(bsq) * r.uniform(0.05, 0.95) if max_e > I else I * logu(r, -1, 3)
        elif l1 == "none":
            if mat == 1:
                tmb = math.exp(bsq) * I * logu(r, 0.01, 4)
            else:
                tmb = math.exp(bsq) * r.uniform(I * 1.01, E2 * 0.99)
            max_e = max(I * logu(r, 0.01, 3 if ion == "fast" else 5.5), 1.1e-5)
        else:
            tmb = math.exp(bsq) * E2 * logu(r, 0.05, 4)
            max_e = max(I * logu(r, 0.01, 3 if ion == "fast" else 5.5), 1.1e-5)
        # all cross sections scale (almost) linearly with the mean: pick the scale for the wanted level
        x0, x1, xi = py_urban_ctor(mat, 1.0, max_e, tmb, bsq)
        want = {"fast": logu(r, 1.0, 2.5), "poisson": logu(r, -0.3, 0.85)}
        if l1 in want and x1 > 0:
            mean = want[l1] / x1
        elif l0 in want and x0 > 0:
            mean = want[l0] / x0 * r.choice([1.0, 2.0])
        else:
            mean = want[ion] / xi
        mean *= r.choice([1.0, 1.0, logu(r, -0.5, 0.5)])
        if not (1e-7 < mean < 1e3):
            continue
        if combo_of(*py_urban_ctor(mat, mean, max_e, tmb, bsq)) == "lvl0=%s,lvl1=%s,ion=%s" % target:
            return [mat, mean, max_e, tmb, bsq]
    return None


def energy_for_tmb(tmb, mass):
    """kinetic energy with 2 m_e beta^2 gamma^2 = tmb"""
    bg2 = tmb / (2 * ME)
    return mass * (math.sqrt(1 + bg2) - 1) if bg2 > 1e-6 else mass * bg2 / 2


def gen_eloss_cases(ctx, n):
    r = ctx.rng
    cases = []
    for i in range(n):
        c = i % 8
        if c == 0:
            mean = logu(r, -4, 1)
            sd = mean * r.choice([logu(r, -2, 0.5), 0.25, 0.5, 2.0])
            cases.append(("gauss", [mean, sd], nz(gen_u(r, 80, extremes=False))))
        elif c == 1:
            mean = logu(r, -4, 1)
            var = mean * mean * r.choice([logu(r, -2, 1.5), 1.0, 0.25])
            cases.append(("gammad", [mean, var], nz(gen_u(r, 80, extremes=False))))
        elif c == 7 or (c == 3 and i % 16 >= 8):
            # direct Urban constructor aimed at one combination of the SAMPLING branches
            tgt = URBAN_COMBOS[(i // 8) % len(URBAN_COMBOS)]
            pr = aim_urban(r, tgt)
            if pr is None:
                pr = [0, 0.02, 1e-3, 400.0, 0.99]
            cases.append(("urbanctor", pr, nz(gen_u(r, 700, extremes=False))))
        elif c in (2, 3):
            # direct Urban constructor, aimed at each excitation branch and both width-correction branches
            mat = r.choice([0, 0, 1, 2, 3])
            _, I, E2 = MATS[mat]
            br = r.choice([0, 1, 2, 3, 2, 3])
            bsq = r.choice([logu(r, -6, -0.01), 0.5, 0.99])
            lo, hi = (I * 1.0001, E2 * 0.9999) if E2 > I else (I, I)
            if br == 1:
                tmb = I * math.exp(bsq) * r.choice([1.0 - 1e-9, logu(r, -2, -0.001), 0.5])
            elif br == 2 and E2 > I * 1.001:
                tmb = math.exp(bsq) * r.choice([r.uniform(lo, hi), lo * (1 + 1e-9), hi * (1 - 1e-9)])
            else:
                tmb = math.exp(bsq) * max(E2, I) * r.choice([1 + 1e-9, logu(r, 0.001, 4), 2.0])
            max_e = I * r.choice([0.5, 1 - 1e-9]) if br == 0 else max(I * r.choice([1 + 1e-9, logu(r, 0.01, 3)]), 1.1e-5)
            max_e = max(max_e, 1.1e-5)
            # mean loss: few / many excitations (width correction threshold 42, fast sampling threshold 8)
            mean = max_e * r.choice([logu(r, -1, 1), logu(r, 1, 3.5)]) if br else logu(r, -5, -2)
            cases.append(("urbanctor", [mat, mean, max_e, tmb, bsq], nz(gen_u(r, 500, extremes=False))))
        else:
            mat = r.choice([0, 0, 0, 1, 2, 3])
            if c in (4, 5) and mat == 0:
                # aimed at the heavy-particle gamma / Gaussian models: mean loss >= 10 Tmax, Tmax below the cut,
                # step chosen so that mean^2 / (4 Bohr variance) straddles 1
                energy = logu(r, -2, 1.5)
                g = 1 + energy / MMU
                b2 = 1 - 1 / (g * g)
                mr = ME / MMU
                tmax = 2 * ME * b2 * g * g / (1 + mr * (2 * g + mr))
                cut = max(1e-3, tmax * r.choice([1.0, 1.5, 10.0]))
                mean_loss = tmax * r.choice([10.0, 10.0 * (1 + logu(r, -9, -1)), logu(r, 1, 3)])
                ratio = logu(r, -1.5, 1.5)
                step = mean_loss ** 2 / (4 * ratio * 2.764 * min(cut, tmax) * (1 / b2 - 0.5))
                if mean_loss > 1e-5 and 1e-9 < step < 1e4:
                    cases.append(("eloss", [1, 0, energy, mean_loss, step, cut], nz(gen_u(r, 400, extremes=False))))
                    continue
            pid = r.choice([0, 1, 1])
            mass = ME if pid == 0 else MMU
            _, I, E2 = MATS[mat]
            if c == 6 and E2 > I * 1.01:
                # slow projectile: 2 m_e beta^2 gamma^2 between I and E_2 (single-level excitation branch)
                energy = energy_for_tmb(r.uniform(I * (8.5 if pid == 0 else 1.2), E2 * 0.98) if E2 * 0.98 > I * (8.5 if pid == 0 else 1.2) else r.uniform(I, E2), mass)
            else:
                energy = logu(r, -3, 2) if pid == 0 else logu(r, -2, 4)
            mean_loss = r.choice([logu(r, -6, 0), energy * logu(r, -4, -0.5), 1e-5 * (1 + r.choice([-1, 1]) * logu(r, -12, -1)),
                                  logu(r, -5, -3.5)])
            step = logu(r, -6, 1)
            cut = r.choice([1e-3, logu(r, -5.5, 0)])
            cases.append(("eloss", [pid, mat, energy, mean_loss, step, cut], nz(gen_u(r, 400, extremes=False))))
    return cases


def eloss_line(c):
    k, p, u = c
    if k == "eloss":
        return "eloss %d %d %s %d %s" % (p[0], p[1], " ".join(float(x).hex() for x in p[2:]), len(u), " ".join(float(x).hex() for x in u))
    if k == "urbanctor":
        return "urbanctor %d %s %d %s" % (p[0], " ".join(float(x).hex() for x in p[1:]), len(u), " ".join(float(x).hex() for x in u))
    return "%s %s %d %s" % (k, " ".join(float(x).hex() for x in p), len(u), " ".join(float(x).hex() for x in u))


def run_eloss(ctx, proofs_ok):
    HERE_ = os.path.dirname(os.path.abspath(__file__))
    ctx.build_libs(["celeritas"])
    exe = ctx.compile_harness([os.path.join(HERE_, "harness", "eloss.cc")], "eloss",
                              libs=["celeritas", "orange", "geocel", "corecel"])
    n = 136 if ctx.tier == "quick" else 4000
    cases = gen_eloss_cases(ctx, n)
    rc, out = ctx.run_harness(exe, input="".join(eloss_line(c) + "\n" for c in cases), timeout=900)
    lines = [l for l in out.strip().splitlines() if l.startswith(("ok", "exhausted", "unknown"))]
    if rc != 0 or len(lines) != len(cases):
        raise vlib.BuildError("eloss harness failed rc=%d" % rc, out[-2000:])
    fx = lambda t: float.fromhex(t) if t not in ("nan", "inf", "-inf") else float(t)
    exprs, meta = [], []
    for (k, p, u), line in zip(cases, lines):
        tok = line.split()
        if k in ("gauss", "gammad"):
            impl = None if tok[0] == "exhausted" else ([fx(tok[2])] + ([fx(tok[3])] if k == "gauss" else []), int(tok[1]))
            exprs.append(("run_elgauss %s %s %s" if k == "gauss" else "run_elgamma %s %s %s") % (hexf(p[0]), hexf(p[1]), fl(u)))
            meta.append((k, p, u, impl, None, None, None))
            continue
        if k == "urbanctor":
            consumed, loss = int(tok[1]), fx(tok[2])
            f = [fx(t) for t in tok[3:]]
            matp, state = f[0:8], f[8:15]
            mat, mean, max_e, tmb, bsq = p
            ctor = "run_elurban_ctor %s %s %s %s %s" % (" ".join(hexf(x) for x in matp), hexf(mean), hexf(max_e), hexf(tmb), hexf(bsq))
            smp = "run_elurban %s %s" % (" ".join(hexf(x) for x in state), fl(u))
            exprs.append("(3%%nat, %s, %s)" % (ctor, smp))
            impl = None if consumed < 0 else ([loss], consumed)
            meta.append((k, p, u, impl, 3, {"state": state, "mean": mean, "matp": matp}, None))
            continue
        model, consumed, loss = int(tok[1]), int(tok[2]), fx(tok[3])
        f = [fx(t) for t in tok[4:]]
        mean, max_e, beta_sq, bohr, tmb, gam, mass = f[:7]
        matp = f[7:15]
        pid, mat, energy, mean_loss, step, cut = p
        if pid == 0:
            mt, mr = 0.5 * energy, 1.0
        else:
            mr = ME / mass
            tmb_py = tmb if model != 0 else 2 * ME * (1 - 1 / (gam * gam)) * gam * gam
            mt = tmb_py / (1 + mr * (2 * gam + mr))
        me_sel = max_e if model != 0 else min(cut, mt)
        sel = "run_elmodel %s %s %s %s %s" % (hexf(mean_loss), hexf(me_sel), hexf(mt), hexf(mr), hexf(bohr))
        extra = None
        ctor = "([], 9%nat)"
        if model == 1:
            smp = "run_elgamma %s %s %s" % (hexf(mean), hexf(bohr), fl(u))
        elif model == 2:
            smp = "run_elgauss1 %s %s %s" % (hexf(mean), hexf(bohr), fl(u))
        elif model == 3:
            state = f[15:22]
            smp = "run_elurban %s %s" % (" ".join(hexf(x) for x in state), fl(u))
            ctor = "run_elurban_ctor %s %s %s %s %s" % (" ".join(hexf(x) for x in matp), hexf(mean), hexf(max_e), hexf(tmb), hexf(beta_sq))
            extra = {"state": state, "mean": mean, "matp": matp}
        else:
            smp = "run_eldelta %s %s" % (hexf(mean_loss), fl(u))
        exprs.append("(%s, %s, %s)" % (sel, ctor, smp))
        impl = None if consumed < 0 else ([loss], consumed)
        meta.append((k, p, u, impl, model, extra, {"mean_loss": mean_loss, "max_energy": me_sel, "max_energy_transfer": mt,
                                                   "mass_ratio": mr, "bohr_var": bohr}))
    mvals = ctx.coq_eval("eloss", PRE, exprs, chunk=max(20, len(exprs) // 16 + 1), timeout=1200)
    ndis = 0
    urban_checked = []
    names = {0: "none", 1: "gamma", 2: "gaussian", 3: "urban"}
    for (k, p, u, impl, model, extra, extra_sel), mv in zip(meta, mvals):
        if k in ("eloss", "urbanctor"):
            msel, mctor, mv = mv
            if k == "eloss":
                ctx.count("eloss-model:" + names[model])
                if msel != model:
                    tight = abs(p[3] - 1e-5) < 1e-14
                    if tight:
                        ctx.count("knife-edge-accepted")
                    else:
                        ndis += 1
                        # concrete input straight from the differential: the helper's own (mean, Bohr variance) and both answers;
                        # plus the documented criterion evaluated independently (Gaussian iff mean >= 2 sigma_Bohr)
                        hv = extra_sel
                        doc = None
                        if model in (1, 2) or msel in (1, 2):
                            doc = "gaussian" if hv["mean_loss"] >= 2 * math.sqrt(hv["bohr_var"]) else "gamma"
                        ctx.violation("model-selection", "EnergyLossHelper picks model %s; the Coq definition of the documented rule gives %s%s "
                                      "(mean loss %r MeV, Bohr variance %r MeV^2, mean^2/(4 var) = %s)"
                                      % (names[model], names.get(msel), "" if doc is None else " and the documented criterion mean >= 2 sigma gives " + doc,
                                         hv["mean_loss"], hv["bohr_var"], "%.4g" % (hv["mean_loss"] ** 2 / (4 * hv["bohr_var"])) if hv["bohr_var"] > 0 else "n/a"),
                                      dict(hv, params=p, impl_model=names[model], coq_model=names.get(msel), documented=doc))
                        continue
            if extra is not None:
                # --- Urban constructor: (a) the property's own oracle on the implementation's parameters:
                # their first moments add up to the requested mean (theorem C15_urban_params_mean)
                st, mean = extra["state"], extra["mean"]
                emax, scal, be0, be1, xs0, xs1, xsi = st
                e0 = 1e-5
                ion_mean = e0 * emax * math.log(emax / e0) / (emax - e0)
                mom = scal * (xs0 * be0 + xs1 * be1 + xsi * ion_mean)
                mstate, mbr = list(mctor[0]), mctor[1]
                ctx.count("urban-ctor-branch:" + URBAN_BRANCH.get(mbr, "?"))
                ctx.count("urban-width-correction:" + ("none" if mbr < 2 else "xs0<42" if xs0 * (be0 / extra["matp"][2]) < 42 else "xs0>=42"))
                ctx.count("urban-sampling:" + combo_of(xs0, xs1, xsi))
                if not close(mom, mean, rtol=1e-9):
                    ctx.violation("urban-mean", "Urban model parameters do not reproduce the requested mean energy loss: "
                                  "scaling*(xs0*E0 + xs1*E1 + xs_ion*<E_ion>) = %r, requested %r (%+.2f%%), branch %s"
                                  % (mom, mean, 100 * (mom / mean - 1), URBAN_BRANCH.get(mbr)),
                                  {"kind": k, "params": p, "material_inputs": extra["matp"], "impl_state": st, "model_state": mstate,
                                   "first_moment": mom, "requested_mean": mean, "branch": URBAN_BRANCH.get(mbr)})
                    continue
                # (b) constructor differential
                # xs_i ~ (w - log E_i) cancels near the branch boundaries: absolute tolerance on the scale of the cross sections
                xs_scale = 1e-9 * (abs(xs0) + abs(xs1) + abs(xsi))
                if not (close(st[:4], mstate[:4], rtol=1e-9, atol=1e-300) and close(st[4:], mstate[4:], rtol=1e-9, atol=xs_scale)):
                    ndis += 1
                    if ndis <= 5:
                        ctx.violation("correspondence", "Urban constructor: model and implementation differ (branch %s)" % URBAN_BRANCH.get(mbr),
                                      {"kind": k, "params": p, "material_inputs": extra["matp"], "impl_state": st, "model_state": mstate}, no_input=True)
                    continue
        ctx.count("kind:" + k)
        mdl = None if mv is None else (list(mv[0]), mv[1])
        ctx.case((k, p, u[:4]), nontrivial=impl is not None)
        ctx.sample({"kind": k, "params": p, "impl": impl, "model": mdl}, limit=10)
        if impl is None and mdl is None:
            ctx.count("both-exhausted")
            continue
        if impl is not None:   # support oracle
            x = impl[0][0]
            bad = None
            if not (math.isfinite(x) and x >= 0):
                bad = "energy loss negative or not finite: %r" % x
            elif k == "gauss" and not all(0 < v <= 2 * p[0] for v in impl[0]):
                bad = "Gaussian energy loss outside (0, 2 mean]"
            # (gamma: > 0 in exact arithmetic; in binary64 u^(1/k) underflows to 0 for k = mean^2/var << 1,
            #  so 0 is accepted -- see NOTES.md)
            elif k == "eloss" and model == 0 and not (x == p[3] and impl[1] == 0):
                bad = "EnergyLossDeltaDistribution did not return the mean loss without drawing (C15_eloss_delta_spec)"
            elif model == 2 and not (0 < x <= 2 * p[3]):
                bad = "Gaussian energy loss outside (0, 2 mean]"
            if bad:
                ctx.violation("support", bad, {"kind": k, "params": p, "stream": u[:impl[1]], "impl": impl, "model": mdl})
                continue
        if not (impl is not None and mdl is not None and impl[1] == mdl[1] and close(impl[0], mdl[0], rtol=1e-9, atol=1e-300)):
            if k == "urbanctor" and len(urban_checked) < 4:
                # broken tie in the Urban sampler: look for a concrete failing input with the property's own (mean) oracle
                urban_checked.append(p)
                res = urban_mean_check(ctx, exe, p, 100 + len(urban_checked))
                if not res["ok"]:
                    ctx.violation("urban-sample-mean", "mean of %d Urban energy-loss samples is %+.2f%% off the requested mean (std err %.2f%%), branches %s"
                                  % (res["n"], res["rel_diff_percent"], res["std_err_percent"], res["branches"]), res)
                    continue
            ndis += 1
            if ndis <= 5:
                ctx.violation("correspondence", "model and implementation differ for %s%s" % (k, "" if model is None else ":" + names[model]),
                              {"kind": k, "params": p, "stream": u[:24], "impl": impl, "model": mdl}, no_input=True)
    return len(cases), exe


# ---------------------------------------------------------------------------
# SUPPORTING TEST (not a proof, thorough tier only): empirical law of the real
# samplers vs the analytic law, Kolmogorov-Smirnov / chi-square at ~1e-6 level
def gammainc_p(a, x):
    """regularised lower incomplete gamma P(a, x) (series / continued fraction)"""
    if x <= 0:
        return 0.0
    gln = math.lgamma(a)
    if x < a + 1:
        ap, s, d = a, 1 / a, 1 / a
        for _ in range(2000):
            ap += 1
            d *= x / ap
            s += d
            if abs(d) < abs(s) * 1e-16:
                break
        return s * math.exp(-x + a * math.log(x) - gln)
    b = x + 1 - a
    c = 1e300
    d = 1 / b
    h = d
    for i in range(1, 2000):
        an = -i * (i - a)
        b += 2
        d = an * d + b
        d = 1e-300 if abs(d) < 1e-300 else d
        c = b + an / c
        c = 1e-300 if abs(c) < 1e-300 else c
        d = 1 / d
        de = d * c
        h *= de
        if abs(de - 1) < 1e-16:
            break
    return 1 - math.exp(-x + a * math.log(x) - gln) * h


def ks_stat(xs, cdf):
    xs = sorted(xs)
    n = len(xs)
    d = 0.0
    for i, x in enumerate(xs):
        f = cdf(x)
        d = max(d, abs(f - i / n), abs((i + 1) / n - f))
    return d * math.sqrt(n)


def chi2_stat(counts, probs, n):
    """pooled chi-square; returns (statistic, dof)"""
    obs, exp = [], []
    o = e = 0.0
    for c, p in zip(counts, probs):
        o += c
        e += p * n
        if e >= 10:
            obs.append(o); exp.append(e); o = e = 0.0
    if e > 0 and exp:
        obs[-1] += o; exp[-1] += e
    st = sum((a - b) ** 2 / b for a, b in zip(obs, exp))
    return st, max(1, len(exp) - 1)



# ---------------------------------------------------------------------------
# Law oracle: the property's own statement ("the empirical distribution matches the
# analytic law within statistical resolution") applied to the implementation at ONE
# parameter point: N samples on a fixed pseudo-random stream, KS distance against the
# analytic CDF and a z-test of the mean, both at the ~1e-6 level (never a false alarm;
# deterministic for a given seed).  Used (a) at the branch boundaries of the samplers
# in every run, (b) to turn a model/implementation disagreement into a concrete input.
def analytic_law(kind, p):
    """(cdf, mean, stddev, draws per sample) or None"""
    if kind == "gamma":
        al, be = p
        return (lambda x: gammainc_p(al, x / be)), al * be, math.sqrt(al) * be, 10
    if kind == "exponential":
        return (lambda x: 1 - math.exp(-p[0] * x)), 1 / p[0], 1 / p[0], 1
    if kind == "radial":
        return (lambda x: (x / p[0]) ** 3), 0.75 * p[0], p[0] * math.sqrt(3 / 80), 1
    if kind == "uniform":
        a, b = p
        return (lambda x: (x - a) / (b - a)), 0.5 * (a + b), (b - a) / math.sqrt(12), 1
    if kind == "reciprocal":
        a, b = p
        L = math.log(b / a)
        m1 = (b - a) / L
        m2 = (b * b - a * a) / (2 * L)
        return (lambda x: math.log(x / a) / L), m1, math.sqrt(max(m2 - m1 * m1, 0)), 1
    if kind == "gammadN":      # EnergyLossGammaDistribution(mean, var)
        mean, var = p
        k = mean * mean / var
        return (lambda x: gammainc_p(k, x * k / mean)), mean, math.sqrt(var), 10
    return None


def law_oracle(ctx, exe, kind, p, n=4000, tag=0):
    law = analytic_law(kind, p)
    if law is None:
        return None
    cdf, mean, sd, per = law
    rr = __import__("random").Random(ctx.seed * 7919 + tag)
    u = [max(rr.random(), 2.0 ** -60) for _ in range(per * n + 64)]
    if kind == "gammadN":
        inp = "gammadN %s %d %d %s\n" % (" ".join(float(x).hex() for x in p), n, len(u), " ".join(float(x).hex() for x in u))
        rc, out = ctx.run_harness(exe, input=inp, timeout=300)
        xs = [float.fromhex(t) for t in out.split()[1:]]
    else:
        inp = "bulk:%s %d %s %d %s\n" % (kind, len(p) + 1, " ".join(float(x).hex() for x in list(p) + [n]), len(u), " ".join(float(x).hex() for x in u))
        rc, out = ctx.run_harness(exe, input=inp, timeout=300)
        xs = [float.fromhex(t) for t in out.split()[3:]]
    if len(xs) < n // 2:
        return {"ok": False, "why": "only %d of %d samples returned" % (len(xs), n), "n": len(xs)}
    ks = ks_stat(xs, cdf)
    z = (sum(xs) / len(xs) - mean) / (sd / math.sqrt(len(xs))) if sd > 0 else 0.0
    res = {"sampler": kind, "params": list(p), "n": len(xs), "sqrt_n_D": round(ks, 3), "mean_z": round(z, 2),
           "empirical_mean": sum(xs) / len(xs), "analytic_mean": mean, "stream_seed": ctx.seed * 7919 + tag}
    res["ok"] = ks <= 2.8 and abs(z) <= 6.0
    return res



def urban_mean_check(ctx, exe, pr, tag, n=1500, per=120):
    """sampling-side mean oracle for the Urban model at one parameter point (direct constructor):
    sample mean vs requested mean, |diff| <= 6 standard errors + 0.5 % (never a false alarm)"""
    rr = __import__("random").Random(ctx.seed * 7919 + 5000 + tag)
    u = [max(rr.random(), 2.0 ** -60) for _ in range(per * n)]
    inp = "urbanN %d %s %d %d %s\n" % (pr[0], " ".join(float(x).hex() for x in pr[1:]), n, len(u), " ".join(float(x).hex() for x in u))
    rc, out = ctx.run_harness(exe, input=inp, timeout=600)
    tok = out.split()
    xs3 = [float.fromhex(t) for t in tok[1:4]]
    xs = [float.fromhex(t) for t in tok[4:]]
    mean = pr[1]
    if len(xs) < 200:
        return {"ok": True, "skipped": "only %d samples" % len(xs), "params": pr}
    m = sum(xs) / len(xs)
    sd = math.sqrt(sum((x - m) ** 2 for x in xs) / (len(xs) - 1))
    # the ionisation law ~ 1/E^2 up to max_energy is heavy-tailed: the sample mean is only meaningful when the top decade
    # of the tail is populated (expected collisions there >~ 30); its variance xs_ion*e0*Emax is added analytically
    e0, emax = 1e-5, pr[2]
    tail_events = len(xs) * xs3[2] * e0 / emax
    if tail_events < 30:
        return {"ok": True, "skipped": "thin step: ionisation tail too sparsely sampled for a mean test (%.2g expected events in the top decade)" % tail_events,
                "params": pr, "branches": combo_of(*xs3)}
    se = math.sqrt(sd * sd / len(xs) + 2.25 * xs3[2] * e0 * emax / len(xs))
    res = {"sampler": "EnergyLossUrbanDistribution", "params(material,mean,max_energy,two_mebsgs,beta_sq)": pr, "branches": combo_of(*xs3),
           "n": len(xs), "sample_mean": m, "requested_mean": mean, "rel_diff_percent": round(100 * (m / mean - 1), 3),
           "std_err_percent": round(100 * se / mean, 3), "stream_seed": ctx.seed * 7919 + 5000 + tag}
    res["ok"] = abs(m - mean) <= 6 * se + 0.005 * mean
    return res


def urban_sampling_mean_oracle(ctx, exe):
    r = ctx.rng
    regimes = [("fast", "poisson", "fast"), ("fast", "poisson", "fast"), ("fast", "fast", "fast"), ("poisson", "poisson", "fast"),
               ("poisson", "none", "fast"), ("none", "none", "fast"), ("fast", "none", "fast")]
    pts = [aim_urban(r, t) for t in regimes]
    # thick steps of a relativistic electron in argon (100 MeV: 2 m beta^2 gamma^2 = 3.95e4 MeV, cut 1 keV)
    pts += [[0, 0.02, 1e-3, 3.95e4, 0.99997], [0, r.uniform(0.016, 0.06), 1e-3, 3.95e4, 0.99997], [0, 0.3, 1e-3, 3.95e4, 0.99997]]
    rep = []
    for i, pr in enumerate(pts):
        if pr is None:
            continue
        res = urban_mean_check(ctx, exe, pr, i)
        rep.append(res)
        if not res["ok"]:
            ctx.violation("urban-sample-mean", "mean of %d Urban energy-loss samples is %+.2f%% off the requested mean (std err %.2f%%), branches %s"
                          % (res["n"], res["rel_diff_percent"], res["std_err_percent"], res["branches"]), res)
    ctx.coverage["urban_sampling_mean_oracle (statistical: 1500 samples per regime, 6 sigma + 0.5%)"] = rep


def boundary_law_oracle(ctx, exe_s, exe_e):
    """law oracle at the samplers' branch boundaries (quick and thorough)"""
    r = ctx.rng
    pts = [("gamma", [1.0, r.uniform(0.5, 2)]), ("gamma", [1.0 - EPS, 1.0]), ("gamma", [1.0 + 2 * EPS, r.uniform(0.5, 2)]),
           ("gamma", [r.uniform(0.2, 0.9), 1.0]), ("gamma", [r.uniform(1.5, 6), 2.0]),
           ("exponential", [r.uniform(0.5, 5)]), ("radial", [r.uniform(0.5, 10)]), ("reciprocal", [0.5, r.uniform(2, 50)])]
    rep = []
    for i, (k, p) in enumerate(pts):
        res = law_oracle(ctx, exe_s, k, p, tag=i)
        rep.append(res)
        if not res["ok"]:
            ctx.violation("law", "empirical law of %s%r deviates from the analytic law (sqrt(n) D = %s, mean z = %s)"
                          % (k, p, res.get("sqrt_n_D"), res.get("mean_z")), res)
    for i, (mean, ratio) in enumerate([(r.uniform(0.01, 1), 1.0), (r.uniform(0.01, 1), r.uniform(0.3, 3))]):
        p = [mean, mean * mean / ratio]          # k = ratio; k = 1 exactly is the exponential case
        res = law_oracle(ctx, exe_e, "gammadN", p, tag=100 + i)
        rep.append(res)
        if not res["ok"]:
            ctx.violation("law", "empirical law of EnergyLossGammaDistribution%r deviates from Gamma(mean^2/var, var/mean) (sqrt(n) D = %s, mean z = %s)"
                          % (p, res.get("sqrt_n_D"), res.get("mean_z")), res)
    # Gaussian model: the truncation window (0, 2 mean] is symmetric, so the mean is kept
    for i, rel in enumerate([0.3, 1.0]):
        mean = r.uniform(0.01, 1)
        n = 4000
        rr = __import__("random").Random(ctx.seed * 7919 + 200 + i)
        u = [max(rr.random(), 2.0 ** -60) for _ in range(12 * n)]
        rc, out = ctx.run_harness(exe_e, input="gaussN %s %d %d %s\n" % (" ".join(float(x).hex() for x in [mean, rel * mean]), n, len(u),
                                                                       " ".join(float(x).hex() for x in u)), timeout=300)
        xs = [float.fromhex(t) for t in out.split()[1:]]
        m = sum(xs) / max(1, len(xs))
        sdev = math.sqrt(sum((x - m) ** 2 for x in xs) / max(1, len(xs) - 1)) if len(xs) > 1 else 0.0
        z = (m - mean) / (sdev / math.sqrt(len(xs))) if sdev > 0 else 0.0
        res = {"sampler": "gaussN", "params": [mean, rel * mean], "n": len(xs), "mean_z": round(z, 2), "ok": len(xs) >= n // 2 and abs(z) <= 6.0}
        rep.append(res)
        if not res["ok"]:
            ctx.violation("law", "mean of EnergyLossGaussianDistribution(%r, %r) deviates from the requested mean (z = %.1f)" % (mean, rel * mean, z), res)
    ctx.coverage["law_oracle_at_branch_boundaries (statistical: KS + mean z-test on 4000 samples each)"] = rep


def run_stats(ctx, exe):
    r = ctx.rng
    n = 20000
    KS_CRIT = 2.8        # P(sqrt(n) D > 2.8) ~ 3e-7
    tests = []
    lam = r.uniform(0.5, 5)
    tests.append(("exponential", [lam], 1, lambda x: 1 - math.exp(-lam * x)))
    mu, sg = r.uniform(-5, 5), r.uniform(0.5, 3)
    tests.append(("normal2", [mu, sg], 2, lambda x: 0.5 * (1 + math.erf((x - mu) / (sg * math.sqrt(2))))))
    R_ = r.uniform(0.5, 10)
    tests.append(("radial", [R_], 1, lambda x: (x / R_) ** 3))
    a, b = 0.5, r.uniform(2, 100)
    tests.append(("reciprocal", [a, b], 1, lambda x: math.log(x / a) / math.log(b / a)))
    tests.append(("invsquare", [a, b], 1, lambda x: (1 - a / x) * b / (b - a)))
    for al in (r.uniform(0.2, 0.9), r.uniform(1.5, 8)):
        be = r.uniform(0.5, 2)
        tests.append(("gamma", [al, be], 8, (lambda al, be: lambda x: gammainc_p(al, x / be))(al, be)))
    en, mass = r.uniform(1, 50), ME
    umax = 2 * (1 + en / mass)
    g2 = lambda t: 1 - (1 + t) * math.exp(-t)
    fu = lambda u_: 0.25 * g2(u_ / 1.6) + 0.75 * g2(3 * u_ / 1.6)
    # cos = 1 - 2 (u/umax)^2 is decreasing in u:  P(cos <= x) = 1 - F(u(x)) / F(umax)
    tests.append(("tsaiurban", [en, mass], 8,
                  lambda x: 1 - fu(umax * math.sqrt(max(0.0, (1 - x) / 2))) / fu(umax)))
    disc = []
    for lamp in (r.uniform(0.5, 12), r.uniform(30, 200)):
        disc.append(("poisson", [lamp], 20 if lamp <= 16 else 2))
    w = [r.random() for _ in range(6)]
    disc.append(("selector", [math.fsum(w)] + w, 1))
    inp = ""
    for k, p, per, _ in tests:
        u = [max(r.random(), 2.0 ** -60) for _ in range(per * n + 64)]
        inp += "bulk:%s %d %s %d %s\n" % (k, len(p) + 1, " ".join(float(x).hex() for x in p + [n]), len(u), " ".join(float(x).hex() for x in u))
    for k, p, per in disc:
        u = [max(r.random(), 2.0 ** -60) for _ in range(int(per * n * 1.3) + 64)]
        inp += "bulk:%s %d %s %d %s\n" % (k, len(p) + 1, " ".join(float(x).hex() for x in p + [n]), len(u), " ".join(float(x).hex() for x in u))
    rc, out = ctx.run_harness(exe, input=inp, timeout=900)
    lines = out.strip().splitlines()
    if rc != 0 or len(lines) != len(tests) + len(disc):
        raise vlib.BuildError("sampler harness failed in the statistical test rc=%d" % rc, out[-1000:])
    report = []
    for (k, p, per, cdf), line in zip(tests, lines):
        xs = [float.fromhex(t) for t in line.split()[3:]]
        st = ks_stat(xs, cdf)
        report.append({"test": "KS", "sampler": k, "params": p, "n": len(xs), "sqrt_n_D": round(st, 3), "critical": KS_CRIT})
        if len(xs) < n // 2 or st > KS_CRIT:
            ctx.violation("statistical-test", "SUPPORTING TEST: empirical law of %s deviates from the analytic law (sqrt(n) D = %.2f > %.1f)" % (k, st, KS_CRIT),
                          {"sampler": k, "params": p, "n": len(xs), "statistic": st, "seed": ctx.seed})
    for (k, p, per), line in zip(disc, lines[len(tests):]):
        xs = [int(float.fromhex(t)) for t in line.split()[3:]]
        nn = len(xs)
        if k == "poisson":
            lamp = p[0]
            kmax = int(lamp + 12 * math.sqrt(lamp) + 20)
            probs = [math.exp(-lamp + i * math.log(lamp) - math.lgamma(i + 1)) for i in range(kmax)]
            if lamp > 16:   # documented Gaussian approximation: compare with the rounded normal it implements
                cdfn = lambda t: 0.5 * (1 + math.erf((t - lamp) / math.sqrt(2 * lamp)))
                probs = [cdfn(i + 0.5) - (cdfn(i - 0.5) if i > 0 else 0.0) for i in range(kmax)]
        else:
            tot = p[0]
            probs = [x / tot for x in p[1:]]
            kmax = len(probs)
        counts = [0] * kmax
        for x in xs:
            counts[min(max(x, 0), kmax - 1)] += 1
        st, dof = chi2_stat(counts, probs, nn)
        crit = dof + 6.5 * math.sqrt(2 * dof) + 30
        report.append({"test": "chi2", "sampler": k, "params": p[:3], "n": nn, "chi2": round(st, 2), "dof": dof, "critical": round(crit, 1)})
        if nn < n // 2 or st > crit:
            ctx.violation("statistical-test", "SUPPORTING TEST: empirical law of %s deviates from the analytic law (chi2 = %.1f, dof %d)" % (k, st, dof),
                          {"sampler": k, "params": p, "n": nn, "statistic": st, "dof": dof, "seed": ctx.seed})
    ctx.coverage["supporting_statistical_test (a TEST, not a proof; thorough tier)"] = report


PRE_CANON = ("From Coq Require Import ZArith List.\nFrom Celer Require Import C15.Canonical.\n"
             "Import ListNotations.\nOpen Scope Z_scope.\n")


def gen_canonical_words(r):
    """a 64-bit total aimed at rnd53's case splits: below 2^53 (exact), ties / just below / just above half an
    ulp in every binade, odd and even significands, the top of the range (rounds up to 2^64 -> clamp)"""
    kind = r.choice(["full", "full", "small", "tie", "tie", "tie", "top", "zero"])
    if kind == "full":
        return r.getrandbits(64)
    if kind == "small":
        return r.getrandbits(r.randint(1, 53))
    if kind == "zero":
        return r.choice([0, 1, 2 ** 32 - 1, 2 ** 32, 2 ** 53 - 1, 2 ** 53, 2 ** 53 + 1])
    if kind == "top":
        return 2 ** 64 - r.choice([1, 2, 1023, 1024, 1025, 2047, 2048, 2049, 3072, 3071, 3073, 4096])
    L = r.randint(54, 64)
    e = L - 53
    q = (1 << 52) | r.getrandbits(52)
    half = 1 << (e - 1)
    rem = r.choice([0, half - 1, half, half + 1, (1 << e) - 1, r.getrandbits(e)]) % (1 << e)
    if rem < 0:
        rem = 0
    return (q << e) | rem


def run_canonical(ctx):
    """generic GenerateCanonical path (std::generate_canonical<double, 53> on 32-/64-bit engines) against the
    exact integer model coq/C15/Canonical.v; support oracle [0, 1) on the implementation"""
    from fractions import Fraction
    ok, log = ctx.coq_build(["C15/Canonical.vo"])
    if not ok:
        ctx.violation("model-broken", "coq/C15/Canonical.v no longer compiles", {"log": log[-2000:]}, no_input=True)
        return 0
    exe = ctx.compile_harness([os.path.join(HERE, "harness", "canonical.cc")], "canonical")
    r = ctx.rng
    n = 240 if ctx.tier == "quick" else 6000
    cases = [(64, [2 ** 64 - 1]), (32, [2 ** 32 - 1, 2 ** 32 - 1]), (64, [0]), (32, [0, 0]), (32, [7]), (64, []),
             (64, [2 ** 64 - 1024]), (64, [2 ** 64 - 1025]), (32, [2 ** 32 - 1024, 2 ** 32 - 1])]
    for _ in range(n):
        tot = gen_canonical_words(r)
        extra = [r.getrandbits(32) for _ in range(r.randint(0, 2))]
        if r.random() < 0.5:
            cases.append((64, [tot] + extra))
        else:
            cases.append((32, [tot & 0xffffffff, tot >> 32] + extra))
    inp = "".join("%d %d %s\n" % (w, len(xs), " ".join(str(x) for x in xs)) for w, xs in cases)
    rc, out = ctx.run_harness(exe, input=inp)
    lines = out.strip().splitlines()
    if rc != 0 or len(lines) != len(cases):
        raise vlib.BuildError("canonical harness failed rc=%d" % rc, out[-2000:])
    exprs = ["run_canonical %d [%s]" % (w, "; ".join(str(x) for x in xs)) for w, xs in cases]
    mvals = ctx.coq_eval("canon", PRE_CANON, exprs, chunk=max(50, len(exprs) // 4 + 1))
    ndis = 0
    for (w, xs), line, mv in zip(cases, lines, mvals):
        tok = line.split()
        ctx.count("kind:canonical%d" % w)
        ctx.case(("canonical", w, tuple(xs[:2])), nontrivial=tok[0] == "ok")
        if tok[0] == "exhausted":
            impl = None
        elif tok[0] != "ok":
            ctx.violation("correspondence", "generate_canonical entry points disagree with each other (%s)" % tok[0],
                          {"engine_bits": w, "words": xs}, no_input=True)
            continue
        else:
            impl = (int(tok[1]), float.fromhex(tok[2]), float.fromhex(tok[3]))
        if impl is not None:
            for v in impl[1:]:
                if not (0.0 <= v < 1.0):
                    ctx.violation("support", "generic generate_canonical returned %r outside [0, 1)" % v,
                                  {"engine_bits": w, "words": xs[:impl[0]], "impl_value": v.hex()})
                    break
            else:
                cnt = "canonical%d:%s" % (w, "clamped" if impl[1] == 1.0 - 2.0 ** -53 else
                                          ("exact" if sum(x << (w * i) for i, x in enumerate(xs[:impl[0]])) < 2 ** 53 else "rounded"))
                ctx.count(cnt)
        if impl is None and mv is None:
            continue
        agree = (impl is not None and mv is not None and impl[0] == mv[2]
                 and Fraction(impl[1]) == Fraction(mv[0], 2 ** mv[1]) and impl[1] == impl[2])
        if not agree:
            ndis += 1
            ctx.violation("correspondence", "model and implementation differ for the generic GenerateCanonical path",
                          {"engine_bits": w, "words": xs, "impl": impl and [impl[0], impl[1].hex(), impl[2].hex()],
                           "model_N_K_consumed": mv}, no_input=True)
            if ndis > 3:
                break
    return len(cases)


def run(ctx):
    n = 400 if ctx.tier == "quick" else 12000
    ctx.trusted += [
        "hand-written models coq/C15/Samplers.v, coq/C15/Eloss.v tied by replay-RNG differential (props/C15/run.py, harness/samplers.cc, harness/eloss.cc)",
        "EnergyLossUrbanDistribution's constructor (cross sections from material data) is not modelled: its state is read from the object; EnergyLossHelper's kinematic inputs (gamma, beta^2, Bohr variance) are taken from the implementation",
        "float instance of Num (Base/NumF.v, Base/FloatFun.v): own exp/log/sin/cos/cbrt; compared with libm under rtol 1e-9",
        "gap R vs binary64 rounding (DESIGN.md 3.1)",
    ]
    ctx.assumptions += ["uniform stream values are canonical: in [0,1) (C13 proves it for the double generator)",
                        "rejection samplers' distribution law is not a theorem (partial): only support/draw bounds"]
    proofs_ok = ctx.coq_prove("Properties_C15.v")
    if not proofs_ok:
        ok, _ = ctx.coq_build(["C15/Run.vo"])
        if not ok:
            ctx.violation("model-broken", "the executable model no longer compiles", ctx.broken_proof, no_input=True)
            return
    else:
        ctx.coq_build(["C15/Run.vo"])
    exe = ctx.compile_harness([os.path.join(HERE, "harness", "samplers.cc")], "samplers")
    cases = gen_cases(ctx, n)
    inp = "".join("%s %d %s %d %s\n" % (k, len(p), " ".join(float(x).hex() for x in p), len(u),
                                        " ".join(float(x).hex() for x in u)) for k, p, u in cases)
    rc, out = ctx.run_harness(exe, input=inp)
    lines = out.strip().splitlines()
    if rc != 0 or len(lines) != len(cases):
        raise vlib.BuildError("sampler harness failed rc=%d" % rc, out[-2000:])
    # which Poisson model is the current code? decided by the differential on
    # both variants: the model with clamp (repaired) is the one the theorem is about
    exprs = [model_expr(k, p, u, True) for k, p, u in cases]
    mvals = ctx.coq_eval("cases", PRE, exprs, chunk=max(50, len(exprs) // 16 + 1))
    ndis = 0
    law_done = set()
    for (k, p, u), line, mv in zip(cases, lines, mvals):
        tok = line.split()
        ctx.count("kind:" + k)
        if tok[0] == "exhausted":
            impl = None
        else:
            cons = int(tok[1]); nv = int(tok[2])
            impl = ([float.fromhex(t) if t not in ("nan", "inf", "-inf") else float(t) for t in tok[3:3 + nv]], cons)
        model = None if mv is None else (list(mv[0]), mv[1])
        key = (k, p, u[:4])
        ctx.case(key, nontrivial=impl is not None)
        ctx.sample({"kind": k, "params": p, "stream_head": u[:3], "impl": impl, "model": model})
        if impl is None and model is None:
            ctx.count("both-exhausted")
            continue
        # property oracle on the implementation
        sv = support_violation(k, p, impl[0]) if impl else None
        if sv:
            sig = "poisson-gauss-negative-sample-cast" if (k == "poisson" and p[0] > 16 and impl[0][0] > 2e9) else None
            ctx.violation("support", "%s (%s params=%r)" % (sv, k, p),
                          {"sampler": k, "params": p, "stream": u[:impl[1]], "impl_values": impl[0], "model_values": model and model[0]},
                          signature=sig)
            continue
        pl = pointwise_law_oracle(k, p, u, impl)
        if k in ("poisson", "normal2", "gamma") and impl is not None:
            ctx.count("pointwise-law-oracle:%s:%s" % (k if k != "poisson" else ("poisson-direct" if p[0] <= 16 else "poisson-gaussian"),
                                                       "ok" if pl is None else "FAIL"))
        if pl:
            ctx.violation(pl[0], pl[1], dict({"sampler": k, "params": p, "stream": u[:max(impl[1], 3)], "impl_values": impl[0],
                                              "draws_consumed": impl[1]}, **pl[2]))
            continue
        sq = squeeze_oracle(k, p, u, impl)
        if k == "gamma":
            ctx.count("gamma-first-iteration:" + ("accepted" if impl and impl[1] == (3 if p[0] >= 1 else 4) else "rejected"))
        if sq:
            ctx.violation("squeeze-unsound", "GammaDistribution accepted a point that the exact Marsaglia-Tsang test rejects "
                          "(alpha=%r z=%.6g u=%.9g: ln u = %.9g > %.9g)" % (sq["alpha"], sq["z"], sq["u"], sq["ln_u"], sq["exact_bound"]),
                          dict({"sampler": k, "params": p, "stream": u[:3], "impl_values": impl[0]}, **sq))
            continue
        agree = (impl is not None and model is not None and impl[1] == model[1]
                 and close(impl[0], model[0], rtol=1e-9, atol=1e-300))
        if not agree and impl and model and impl[1] == model[1] and k in ("poisson", "selector", "bernoulli", "bernoulli2", "rejection", "gamma", "tsaiurban"):
            # knife-edge: a discrete outcome decided by a comparison within rounding error
            agree = knife_edge(k, p, u, impl, model)
            if agree:
                ctx.count("knife-edge-accepted")
        if not agree and analytic_law(k, p) is not None and ("law", k, tuple(p)) not in law_done:
            # broken tie: run the property's own oracle at these parameters to get a concrete failing input
            law_done.add(("law", k, tuple(p)))
            res = law_oracle(ctx, exe, k, p, tag=1000 + len(law_done))
            if res is not None and not res["ok"]:
                ctx.violation("law", "empirical law of %s%r deviates from the analytic law (sqrt(n) D = %s, mean z = %s)"
                              % (k, p, res.get("sqrt_n_D"), res.get("mean_z")), res)
                continue
        if not agree:
            ndis += 1
            ctx.violation("correspondence", "model and implementation differ for %s" % k,
                          {"sampler": k, "params": p, "stream": u[:max(impl[1] if impl else 0, 8)],
                           "impl": impl, "model": model,
                           "theorem": "Properties_C15.v is about a model that no longer matches the code"},
                          no_input=True)
            if ndis > 5:
                break
    n_eloss, exe_e = run_eloss(ctx, proofs_ok)
    n_canon = run_canonical(ctx)
    boundary_law_oracle(ctx, exe, exe_e)
    urban_sampling_mean_oracle(ctx, exe_e)
    if ctx.tier == "thorough":
        run_stats(ctx, exe)
    else:
        ctx.coverage["supporting_statistical_test (a TEST, not a proof; thorough tier)"] = "not run in the quick tier"
    if not proofs_ok:
        ctx.violation("proof-broken", "Properties_C15.v no longer checks", ctx.broken_proof, no_input=True)
    ctx.coverage["rule"] = ("cases = (sampler kind, parameters, uniform stream) drawn from one PRNG seeded by VERIF_SEED; "
                            "non-trivial = the implementation returned a sample (stream not exhausted); distinct by (kind, params, stream head)")
    ctx.coverage["traces_validated_against_impl"] = len(cases) + n_eloss + n_canon


def knife_edge(k, p, u, impl, model):
    # accept a differing discrete answer only when a tiny perturbation of the
    # deciding uniform flips the model too: not attempted (conservative) except poisson direct count +-1 at p*u ~ 1
    if k == "poisson" and p[0] <= 16 and abs(impl[0][0] - model[0][0]) <= 1:
        prod = math.exp(p[0])
        for x in u[:impl[1]]:
            prod *= x
            if abs(prod - 1) < 1e-9:
                return True
    return False
