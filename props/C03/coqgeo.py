"""C03 — rendering of abstract geometries / programs as Gallina terms and the
per-op comparison of the Gallina model (coq/C03/NavModel.v, float instance,
vm_compute) with the records of the real navigator."""
import geom
from vlib import hexf, close

PRE = ("From Coq Require Import ZArith List Floats.\n"
       "From Celer Require Import Base.Num Base.NumF Base.Vec3 C12.Solver C12.Surfaces C12.Transforms "
       "C03.LogicWalk C03.NavModel C03.Run.\n"
       "Import ListNotations.\nOpen Scope float_scope.\n")

AXC = {'x': 'AX', 'y': 'AY', 'z': 'AZ'}


def v3(v):
    return "(V3 %s %s %s)" % tuple(hexf(float(x)) for x in v)


def surf_term(s):
    t, d = s
    h = [hexf(x) for x in d]
    if t in ('px', 'py', 'pz'):
        return "SPlaneAligned %s %s" % (AXC[t[1]], h[0])
    if t == 'p':
        return "SPlane %s %s" % (v3(d[:3]), h[3])
    if t == 'sc':
        return "SSphereCentered %s" % h[0]
    if t == 's':
        return "SSphere %s %s" % (v3(d[:3]), h[3])
    if t in ('cxc', 'cyc', 'czc'):
        return "SCylCentered %s %s" % (AXC[t[1]], h[0])
    if t in ('cx', 'cy', 'cz'):
        return "SCylAligned %s %s %s %s" % (AXC[t[1]], h[0], h[1], h[2])
    if t in ('kx', 'ky', 'kz'):
        return "SConeAligned %s %s %s" % (AXC[t[1]], v3(d[:3]), h[3])
    if t == 'sq':
        return "SSimpleQuadric %s %s %s" % (v3(d[:3]), v3(d[3:6]), h[6])
    if t == 'gq':
        return "SGeneralQuadric %s %s %s %s" % (v3(d[:3]), v3(d[3:6]), v3(d[6:9]), h[9])
    raise ValueError(t)


def xform_term(tr):
    if not tr:
        return "XNone"
    if len(tr) == 3:
        return "(XTrans %s)" % v3(tr)
    return "(XForm (TF (M3 %s %s %s) %s))" % (v3(tr[0:3]), v3(tr[3:6]), v3(tr[6:9]), v3(tr[9:12]))


def logic_term(tokens):
    out = []
    for t in tokens:
        out.append({'*': 'LTrue', '~': 'LNot', '&': 'LAnd', '|': 'LOr'}.get(t) or "LFace %s" % t)
    return "[" + "; ".join(out) + "]"


def unit_term(U):
    vols = []
    for i, v in enumerate(U.volumes):
        faces = v.faces(U)
        if v.zorder == 'B':
            toks = ['*', '~']
        else:
            face_of = {s: k for k, s in enumerate(faces)}
            toks = geom.region_rpn(v.region, face_of)
        fl = getattr(v, "json_flags", None)
        if fl is None:
            fl = v.flags(U)
        d = U.daughters.get(i)
        dt = "None" if d is None else "(Some (%d%%nat, %s))" % (d[0], xform_term(d[1]))
        vols.append("Vol [%s] %s %s %s %s" % ("; ".join("%d%%nat" % f for f in faces), logic_term(toks),
                                              "true" if fl & 1 else "false", "true" if fl & 2 else "false", dt))
    bg = U.background()
    return "(Unit [%s] [%s] %s)" % ("; ".join(surf_term(s) for s in U.surfaces), "; ".join(vols),
                                    "None" if bg is None else "(Some %d%%nat)" % bg)


def supported(g):
    return g is not None and all(u.kind == 'unit' for u in g.universes)


def geometry_term(g):
    return "[" + "; ".join(unit_term(u) for u in g.universes) + "]"


def op_term(o):
    t = o.split()
    if t[0] == 'F':
        return "FindNext"
    if t[0] == 'L':
        return "FindNextMax %s" % hexf(float.fromhex(t[1]))
    if t[0] == 'M':
        return "MoveInternal %s" % hexf(float.fromhex(t[1]))
    if t[0] == 'P':
        return "MoveInternalPos %s" % hexf(float.fromhex(t[1]))
    if t[0] == 'B':
        return "MoveToBoundary"
    if t[0] == 'X':
        return "Cross"
    if t[0] == 'Y':
        return "CrossIfReentrant"
    if t[0] == 'D':
        return "SetDir %s" % v3([float.fromhex(x) for x in t[1:4]])
    if t[0] == 'T':
        return "Trace %d" % int(float(t[1]))
    raise ValueError(o)


def hf(x):
    if isinstance(x, str):
        return float(x) if x in ("inf", "-inf", "nan") else float.fromhex(x)
    return float(x)


def compare_record(m, r):
    """m: parsed model obs tuple; r: harness record. Returns None or a text."""
    ok, stack, onb, reent, surf, nstep, pos, dr, res, failed = m
    if bool(ok) != bool(r["ok"]) and r["op"] != "T":
        return "op executed by one side only (guard): model ok=%s impl ok=%s" % (ok, r["ok"])
    if r["op"] == "T":
        if bool(ok) != bool(r.get("exited")):
            return "trace: exited model=%s impl=%s" % (ok, r.get("exited"))
    if [tuple(x) for x in stack] != [tuple(x) for x in r["stack"]]:
        return "volume stack: model %r impl %r" % (stack, r["stack"])
    if bool(onb) != bool(r["onb"]):
        return "on-boundary flag: model %s impl %s" % (onb, r["onb"])
    if bool(reent) != bool(r["bflag"]):
        return "re-entrant flag: model %s impl %s" % (reent, r["bflag"])
    if onb and list(surf) != [r["slev"], r["surf"], r["sense"]]:
        return "surface (level, id, sense): model %r impl %r" % (surf, [r["slev"], r["surf"], r["sense"]])
    if not close(float(nstep), hf(r["nstep"]), rtol=1e-9, atol=1e-11):
        return "next step: model %r impl %r" % (nstep, hf(r["nstep"]))
    if not close(list(pos), [hf(x) for x in r["pos"]], rtol=1e-9, atol=1e-9):
        return "position: model %r impl %r" % (pos, [hf(x) for x in r["pos"]])
    if not close(list(dr), [hf(x) for x in r["dir"]], rtol=1e-9, atol=1e-12):
        return "direction: model %r impl %r" % (dr, [hf(x) for x in r["dir"]])
    if "res" in r and r["ok"]:
        if not res:
            return "search result missing in model"
        d, b = res[0]
        if bool(b) != bool(r["res"][1]) or not close(float(d), hf(r["res"][0]), rtol=1e-9, atol=1e-11):
            return "find_next_step result: model %r impl %r" % ((d, b), (hf(r["res"][0]), r["res"][1]))
    if bool(failed) != bool(r["fail"]):
        return "failed flag: model %s impl %s" % (failed, r["fail"])
    return None


def run_model_comparison(ctx, jobs, issues, delta):
    """jobs: (name, geometry, ray index, start, dir, ops, harness records)"""
    by_geo = {}
    for name, g, ri, p, d, ops, rr in jobs:
        if not supported(g):
            ctx.count("model:unsupported-geometry")
            continue
        by_geo.setdefault(name, (g, []))[1].append((ri, p, d, ops, rr))
    exprs = []
    keys = []
    for name, (g, rays) in by_geo.items():
        tol = "(Tol %s %s)" % (hexf(g.tol), hexf(g.tol))
        rl = "; ".join("run tol g %s %s [%s]" % (v3(p), v3(d), "; ".join(op_term(o) for o in ops))
                       for ri, p, d, ops, rr in rays)
        exprs.append("let tol := %s in let g := %s in [%s]" % (tol, geometry_term(g), rl))
        keys.append(name)
    if not exprs:
        return 0
    # NB: keep the number of files strictly below vlib.NCPU: coq_eval starts the
    # coqc processes with piped stdout and waits for a free slot before it reads
    # any pipe, so >= NCPU files with > 64 KB of output each dead-lock until the timeout
    import vlib as _vlib
    nfiles = 3 if ctx.tier == "quick" else max(2, min(12, _vlib.NCPU - 2))
    vals = ctx.coq_eval("model", PRE, exprs, chunk=max(1, (len(exprs) + nfiles - 1) // nfiles), timeout=1500)
    nrec = 0
    for name, val in zip(keys, vals):
        g, rays = by_geo[name]
        for (ri, p, d, ops, rr), mobs in zip(rays, val):
            bad = None
            if len(mobs) != len(rr):
                bad = (min(len(mobs), len(rr)), "number of records: model %d impl %d" % (len(mobs), len(rr)))
            for k, (m, r) in enumerate(zip(mobs, rr)):
                why = compare_record(m, r)
                if why:
                    bad = (k, why)
                    break
                nrec += 1
                ctx.count("model:agree:" + r["op"])
            if bad:
                k, why = bad
                issues.append({"kind": "correspondence", "op_index": k, "signature": None,
                               "what": "Gallina model and navigator differ: " + why,
                               "detail": {"why": why, "impl_record": rr[k] if k < len(rr) else None,
                                          "model_record": repr(mobs[k]) if k < len(mobs) else None},
                               "geometry": name, "geometry_file": "", "ray": ri, "start": p, "dir": d, "ops": ops,
                               "model": True})
    return nrec


def run_unit_trace_comparison(ctx, jobs, issues):
    """Tie for coq/C03/UnitWalk.v + UnitAbs.v: the abstract unit-level loop `nav_trace`
    (crossing list of ALL surfaces of the unit, sense oracle, neighbour search) on the float
    instance vs the real navigator's trace (F/B/X records of a `T n` op) in single-unit
    geometries without background volume: sequence of (volume entered, distance from start).
    jobs: (name, geometry, ray index, start, dir, harness records)"""
    by_geo = {}
    for name, g, ri, p, d, rr in jobs:
        by_geo.setdefault(name, (g, []))[1].append((ri, p, d, rr))
    exprs, keys = [], []
    for name, (g, rays) in by_geo.items():
        tol = "(Tol %s %s)" % (hexf(g.tol), hexf(g.tol))
        rl = "; ".join("run_unit_trace tol g %s %s" % (v3(p), v3(d)) for ri, p, d, rr in rays)
        exprs.append("let tol := %s in let g := %s in [%s]" % (tol, geometry_term(g), rl))
        keys.append(name)
    if not exprs:
        return 0
    vals = ctx.coq_eval("unittrace", PRE, exprs, chunk=max(1, (len(exprs) + 1) // 2), timeout=900)
    n = 0
    for name, val in zip(keys, vals):
        g, rays = by_geo[name]
        for (ri, p, d, rr), (mtrace, mxs) in zip(rays, val):
            # the navigator's sequence
            real, t, bad = [], 0.0, False
            for r in rr:
                if not r.get("ok") or r.get("fail"):
                    bad = bad or bool(r.get("fail"))
                    continue
                if r["op"] == "B":
                    t += hf(r["moved"])
                elif r["op"] == "X":
                    real.append((r["stack"][0][1], t))
            if bad:
                ctx.count("unit-trace:navigator-failed")   # judged by the oracle differential
                continue
            ds = sorted(float(x) for x in mxs)
            if any(b - a <= 1e-6 * (1.0 + abs(a)) for a, b in zip(ds, ds[1:])):
                ctx.count("unit-trace:skipped-coincident-crossings")   # corner/edge hit: knife-edge
                continue
            why = None
            if len(mtrace) < len(real):
                why = "model trace shorter: model %d crossings, navigator %d" % (len(mtrace), len(real))
            else:
                for k, ((mv, md), (rv, rt)) in enumerate(zip(mtrace, real)):
                    if mv != rv or not close(float(md), rt, rtol=1e-9, atol=1e-9):
                        why = "crossing %d: model (vol %r, d %r) navigator (vol %r, d %r)" % (k, mv, md, rv, rt)
                        break
                    n += 1
                    ctx.count("unit-trace:agree-crossing")
            if why:
                issues.append({"kind": "correspondence", "op_index": 0, "signature": None,
                               "what": "abstract unit-level loop (UnitWalk.nav_trace) and navigator differ: " + why,
                               "detail": {"why": why, "model_trace": repr(mtrace), "navigator_trace": repr(real)},
                               "geometry": name, "geometry_file": "", "ray": ri, "start": p, "dir": d,
                               "ops": ["T 60"], "model": True})
            else:
                ctx.count("unit-trace:agree-ray")
    return n
