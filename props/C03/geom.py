"""C03 — abstract ORANGE geometries: construction, ORANGE JSON rendering,
an independent point-location oracle (pure logic evaluation, written from the
geometry *definition*, sharing no code with celeritas), and a random generator.

A geometry is a list of universes; universe 0 is the world.
  Unit:      surfaces [(type, [reals])], volumes [Vol], daughters {vol: (univ, transform)}
  RectArray: grid (x, y, z), daughters [(univ, [tx,ty,tz])] in C order
Region trees (over unit-local surface ids):
  ('s', sid, outside) | ('and', [r..]) | ('or', [r..]) | ('not', r) | ('true',) | ('false',)
"""
import bisect
import json
import math

AX = {'x': 0, 'y': 1, 'z': 2}


def uv_axes(t):
    """celeritas U/V convention for axis-aligned cylinders/cones"""
    u = 1 if t == 0 else 0
    v = 1 if t == 2 else 2
    return u, v


# ---------------------------------------------------------------------------
# surfaces: value of the quadric expression and its gradient

def surf_eval(s, p):
    t, d = s
    x, y, z = p
    if t in ('px', 'py', 'pz'):
        a = AX[t[1]]
        g = [0.0, 0.0, 0.0]
        g[a] = 1.0
        return p[a] - d[0], g
    if t == 'p':
        return d[0] * x + d[1] * y + d[2] * z - d[3], [d[0], d[1], d[2]]
    if t == 'sc':
        return x * x + y * y + z * z - d[0], [2 * x, 2 * y, 2 * z]
    if t == 's':
        a, b, c = x - d[0], y - d[1], z - d[2]
        return a * a + b * b + c * c - d[3], [2 * a, 2 * b, 2 * c]
    if t in ('cxc', 'cyc', 'czc'):
        ax = AX[t[1]]
        u, v = uv_axes(ax)
        g = [0.0, 0.0, 0.0]
        g[u] = 2 * p[u]
        g[v] = 2 * p[v]
        return p[u] ** 2 + p[v] ** 2 - d[0], g
    if t in ('cx', 'cy', 'cz'):
        ax = AX[t[1]]
        u, v = uv_axes(ax)
        a, b = p[u] - d[0], p[v] - d[1]
        g = [0.0, 0.0, 0.0]
        g[u] = 2 * a
        g[v] = 2 * b
        return a * a + b * b - d[2], g
    if t in ('kx', 'ky', 'kz'):
        ax = AX[t[1]]
        u, v = uv_axes(ax)
        a, b, c = p[ax] - d[ax], p[u] - d[u], p[v] - d[v]
        g = [0.0, 0.0, 0.0]
        g[ax] = -2 * d[3] * a
        g[u] = 2 * b
        g[v] = 2 * c
        return -d[3] * a * a + b * b + c * c, g
    if t == 'sq':
        a, b, c, dd, e, f, gg = d
        return (a * x * x + b * y * y + c * z * z + dd * x + e * y + f * z + gg,
                [2 * a * x + dd, 2 * b * y + e, 2 * c * z + f])
    if t == 'gq':
        a, b, c, dd, e, f, g, h, i, j = d
        val = (a * x * x + b * y * y + c * z * z + dd * x * y + e * y * z + f * z * x
               + g * x + h * y + i * z + j)
        return val, [2 * a * x + dd * y + f * z + g, 2 * b * y + dd * x + e * z + h,
                     2 * c * z + e * y + f * x + i]
    raise ValueError("surface type " + t)


def surf_margin(s, p):
    """first-order distance from p to the surface"""
    f, g = surf_eval(s, p)
    n = math.sqrt(g[0] ** 2 + g[1] ** 2 + g[2] ** 2)
    if n == 0:
        return abs(f) ** 0.5 if f else 0.0
    lin = abs(f) / n
    # for quadrics far from the surface the first-order estimate is poor but
    # then it is large anyway; near the surface it is accurate
    return lin


# ---------------------------------------------------------------------------
# transforms

def t_down(tr, p):
    if not tr:
        return list(p)
    if len(tr) == 3:
        return [p[i] - tr[i] for i in range(3)]
    r, t = tr[:9], tr[9:]
    q = [p[i] - t[i] for i in range(3)]
    return [r[0 + j] * q[0] + r[3 + j] * q[1] + r[6 + j] * q[2] for j in range(3)]


def r_down(tr, d):
    if not tr or len(tr) == 3:
        return list(d)
    r = tr[:9]
    return [r[0 + j] * d[0] + r[3 + j] * d[1] + r[6 + j] * d[2] for j in range(3)]


def r_up(tr, d):
    if not tr or len(tr) == 3:
        return list(d)
    r = tr[:9]
    return [r[3 * i] * d[0] + r[3 * i + 1] * d[1] + r[3 * i + 2] * d[2] for i in range(3)]


# ---------------------------------------------------------------------------
# regions

def region_surfs(r, acc=None):
    if acc is None:
        acc = set()
    if r[0] == 's':
        acc.add(r[1])
    elif r[0] in ('and', 'or'):
        for c in r[1]:
            region_surfs(c, acc)
    elif r[0] == 'not':
        region_surfs(r[1], acc)
    return acc


def region_eval(r, outside):
    """outside: sid -> bool (True = positive side)"""
    k = r[0]
    if k == 's':
        return outside(r[1]) == r[2]
    if k == 'and':
        return all(region_eval(c, outside) for c in r[1])
    if k == 'or':
        return any(region_eval(c, outside) for c in r[1])
    if k == 'not':
        return not region_eval(r[1], outside)
    if k == 'true':
        return True
    if k == 'false':
        return False
    raise ValueError(k)


def region_rpn(r, face_of):
    """postfix tokens over face indices ('~' not, '&', '|', '*' true)"""
    k = r[0]
    if k == 's':
        return [str(face_of[r[1]])] + ([] if r[2] else ['~'])
    if k in ('and', 'or'):
        op = '&' if k == 'and' else '|'
        out = region_rpn(r[1][0], face_of)
        for c in r[1][1:]:
            out += region_rpn(c, face_of) + [op]
        return out
    if k == 'not':
        return region_rpn(r[1], face_of) + ['~']
    if k == 'true':
        return ['*']
    if k == 'false':
        return ['*', '~']
    raise ValueError(k)


def is_conj(r):
    """conjunction of literals over distinct surfaces (a 'simple' volume)"""
    if r[0] == 's' or r[0] == 'true':
        return True
    if r[0] == 'and' and all(c[0] == 's' for c in r[1]):
        ids = [c[1] for c in r[1]]
        return len(set(ids)) == len(ids)
    return False


# ---------------------------------------------------------------------------

class Vol:
    def __init__(self, region, zorder=None, name=""):
        self.region = region
        self.zorder = zorder    # None (media) | 'X' exterior (world) | 'x' implicit exterior | 'B' background
        self.name = name

    def faces(self, unit):
        if self.zorder == 'B':
            return list(range(len(unit.surfaces)))
        return sorted(region_surfs(self.region))

    def flags(self, unit):
        if self.zorder == 'B':
            return 2
        if self.zorder == 'x':
            return 2
        f = 0
        if self.faces(unit) and not is_conj(self.region):
            f |= 1
        return f


class Unit:
    kind = 'unit'

    def __init__(self, name):
        self.name = name
        self.surfaces = []
        self.volumes = []
        self.daughters = {}

    def add_surface(self, t, data):
        self.surfaces.append((t, [float(x) for x in data]))
        return len(self.surfaces) - 1

    def background(self):
        if self.volumes and self.volumes[-1].zorder == 'B':
            return len(self.volumes) - 1
        return None

    def to_json(self):
        types = [s[0] for s in self.surfaces]
        data = [x for s in self.surfaces for x in s[1]]
        sizes = [len(s[1]) for s in self.surfaces]
        vols = []
        for v in self.volumes:
            faces = v.faces(self)
            j = {"faces": faces}
            if v.zorder == 'B':
                j["logic"] = "* ~"
                j["bbox"] = None
            else:
                face_of = {s: i for i, s in enumerate(faces)}
                j["logic"] = " ".join(region_rpn(v.region, face_of))
            fl = v.flags(self)
            if fl:
                j["flags"] = fl
            if v.zorder:
                j["zorder"] = v.zorder
            vols.append(j)
        j = {"_type": "unit", "md": {"name": self.name},
             "surfaces": {"types": types, "data": data, "sizes": sizes},
             "volumes": vols,
             "volume_labels": [v.name or ("%s.v%d" % (self.name, i)) for i, v in enumerate(self.volumes)],
             "surface_labels": ["%s.s%d" % (self.name, i) for i in range(len(self.surfaces))]}
        if self.daughters:
            ks = sorted(self.daughters)
            j["parent_cells"] = ks
            j["daughters"] = [self.daughters[k][0] for k in ks]
            j["transforms"] = [list(self.daughters[k][1]) for k in ks]
        return j


class RectArray:
    kind = 'rectarray'

    def __init__(self, name, grid, daughters):
        self.name = name
        self.grid = [list(map(float, g)) for g in grid]
        self.daughters = daughters   # [(univ, [tx,ty,tz])] C order (x slowest)

    def dims(self):
        return [len(g) - 1 for g in self.grid]

    def to_json(self):
        return {"_type": "rectarray", "md": {"name": self.name},
                "x": self.grid[0], "y": self.grid[1], "z": self.grid[2],
                "daughters": [d[0] for d in self.daughters],
                "translations": [x for d in self.daughters for x in d[1]]}


class Geometry:
    def __init__(self, universes, tol=1e-8):
        self.universes = universes
        self.tol = tol

    def to_json(self):
        return {"_format": "ORANGE", "_version": 0,
                "tol": {"abs": self.tol, "rel": self.tol},
                "universes": [u.to_json() for u in self.universes]}

    def dump(self, path):
        with open(path, "w") as f:
            json.dump(self.to_json(), f)

    # -- independent point location ----------------------------------------
    def locate(self, pos):
        """-> (stack [(univ, vol)], margin, note). stack None when the point is
        not in exactly one volume of some universe (overlap / gap)."""
        u = 0
        p = list(pos)
        stack = []
        margin = math.inf
        while True:
            U = self.universes[u]
            if U.kind == 'unit':
                vals = [surf_eval(s, p)[0] for s in U.surfaces]
                for s in U.surfaces:
                    margin = min(margin, surf_margin(s, p))
                outside = lambda sid: vals[sid] > 0
                found = [i for i, v in enumerate(U.volumes)
                         if v.zorder != 'B' and region_eval(v.region, outside)]
                if len(found) > 1:
                    return None, margin, "overlap %r in universe %d" % (found, u)
                if found:
                    vol = found[0]
                else:
                    vol = U.background()
                    if vol is None:
                        return None, margin, "gap in universe %d" % u
                stack.append((u, vol))
                if vol in U.daughters:
                    du, tr = U.daughters[vol]
                    p = t_down(tr, p)
                    u = du
                    continue
                return stack, margin, ""
            else:
                idx = []
                for a in range(3):
                    g = U.grid[a]
                    if p[a] <= g[0] or p[a] >= g[-1]:
                        return None, 0.0, "outside rect array"
                    i = bisect.bisect_right(g, p[a]) - 1
                    idx.append(i)
                    margin = min(margin, p[a] - g[i], g[i + 1] - p[a])
                nx, ny, nz = U.dims()
                vol = (idx[0] * ny + idx[1]) * nz + idx[2]
                stack.append((u, vol))
                du, tr = U.daughters[vol]
                p = t_down(tr, p)
                u = du


def from_json(j):
    """Read an ORANGE JSON dict (as produced by celeritas' orangeinp or by us)
    into the abstract representation (regions are recovered from the postfix
    logic)."""
    unis = []
    for uj in j["universes"]:
        if uj["_type"] in ("unit", "simple unit"):
            U = Unit(uj["md"]["name"])
            sj = uj["surfaces"]
            k = 0
            for t, n in zip(sj["types"], sj["sizes"]):
                U.surfaces.append((t, [float(x) for x in sj["data"][k:k + n]]))
                k += n
            for vj in uj.get("volumes", uj.get("cells", [])):
                faces = vj["faces"]
                z = vj.get("zorder")
                if isinstance(z, int):
                    z = None
                if z in ('M', 'A'):
                    z = None
                if z == 'B':
                    U.volumes.append(Vol(('false',), 'B'))
                    continue
                st = []
                for tok in vj["logic"].split():
                    if tok == '*':
                        st.append(('true',))
                    elif tok == '~':
                        a = st.pop()
                        if a[0] == 's':
                            st.append(('s', a[1], not a[2]))
                        elif a[0] == 'true':
                            st.append(('false',))
                        else:
                            st.append(('not', a))
                    elif tok in ('&', '|'):
                        b = st.pop()
                        a = st.pop()
                        st.append(('and' if tok == '&' else 'or', [a, b]))
                    else:
                        st.append(('s', faces[int(tok)], True))
                assert len(st) == 1
                v = Vol(st[0], z)
                v.json_flags = vj.get("flags", 0)
                U.volumes.append(v)
            for key in ("parent_volumes", "parent_cells"):
                if key in uj:
                    for i, pv in enumerate(uj[key]):
                        if "transforms" in uj:
                            tr = list(uj["transforms"][i])
                        else:
                            tr = list(uj["translations"][3 * i:3 * i + 3])
                            if tr == [0, 0, 0]:
                                tr = []
                        U.daughters[pv] = (uj["daughters"][i], tr)
                    break
            unis.append(U)
        else:
            grid = [uj["x"], uj["y"], uj["z"]]
            ds = uj["daughters"]
            tr = uj["translations"]
            parents = uj.get("parent_cells")
            dd = [None] * len(ds)
            for i, d in enumerate(ds):
                dd[parents[i] if parents else i] = (d, list(tr[3 * i:3 * i + 3]))
            unis.append(RectArray(uj["md"]["name"], grid, dd))
    tol = j.get("tol", {}).get("abs", 1e-8)
    return Geometry(unis, tol)
