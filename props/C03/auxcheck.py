"""C03 -- differentials of the auxiliary models against the real classes (harness/aux.cc):

  coq/C03/Indexer.v    UniverseIndexer (both directions, every id), exact
  coq/C03/RectArray.v  RectArrayTracker initialize / intersect[(max)] / cross_boundary / normal
  coq/C03/BIH.v        BIHTraverser on trees built by the real BIHBuilder (dumped flat arrays)

plus property oracles written in Python (interval containment, adjacent cell, brute-force
linear search)."""
import math
import json
import os

import vlib
from vlib import hexf, close

PRE = ("From Coq Require Import ZArith List Floats.\n"
       "From Celer Require Import Base.Num Base.NumF Base.Vec3 C03.Indexer C03.RectArray C03.BIH.\n"
       "Import ListNotations.\nOpen Scope float_scope.\n")


def hx(x):
    return float(x).hex() if math.isfinite(x) else ("inf" if x > 0 else "-inf")


def hf(x):
    if isinstance(x, str):
        return float(x) if x in ("inf", "-inf", "nan") else float.fromhex(x)
    return float(x)


def v3(p):
    return "(V3 %s %s %s)" % tuple(hexf(float(x)) for x in p)


def nl(xs):
    return "[" + "; ".join("%d%%nat" % x for x in xs) + "]"


# ---------------------------------------------------------------- UniverseIndexer
def gen_offsets(r):
    n = r.choice([1, 1, 2, 3, 4, 6, 9])
    offs = [0]
    for _ in range(n):
        offs.append(offs[-1] + r.choice([0, 0, 1, 1, 2, 3, 5, 8]))
    if offs[-1] == 0:
        offs[-1] = r.choice([1, 2])
    return offs


def indexer_cases(ctx, script, exprs, cases):
    r = ctx.rng
    n = 25 if ctx.tier == "quick" else 200
    fixed = [[0, 3, 3, 7], [0, 1], [0, 0, 0, 2], [0, 4, 4, 4], [0, 0, 5]]
    for k in range(n):
        offs = fixed[k] if k < len(fixed) else gen_offsets(r)
        script.append("I %d %s" % (len(offs), " ".join(str(o) for o in offs)))
        o = nl(offs)
        exprs.append("(map (local_id %s) (seq 0 %d), flat_map (fun u => map (fun l => (u, l, global_id %s u l)) "
                     "(seq 0 (local_size %s u))) (seq 0 (num_universes %s)))" % (o, offs[-1], o, o, o))
        cases.append(("I", offs))


def indexer_check(ctx, offs, rec, mval):
    mloc, mglob = mval
    bad = None
    # property oracle on the implementation: mutually inverse, in range
    glob = {(u, l): g for u, l, g, gv in rec["global"]}
    for u, l, g, gv in rec["global"]:
        if g != gv or not (offs[u] <= g < offs[u + 1]) or g != offs[u] + l:
            bad = "global_%s(%d,%d) = %d/%d out of its universe's range %r" % ("id", u, l, g, gv, offs)
    for i, (su, sl, vu, vl) in enumerate(rec["local"]):
        if (su, sl) != (vu, vl) or not (0 <= su < len(offs) - 1) or glob.get((su, sl)) != i:
            bad = "local(%d) = (%d,%d) is not the inverse of global (offsets %r)" % (i, su, sl, offs)
    if bad:
        ctx.violation("indexer", "UniverseIndexer: " + bad, {"offsets": offs, "impl": rec})
        return
    if [tuple(x) for x in mloc] != [(a, b) for a, b, _, _ in rec["local"]] \
            or [tuple(x) for x in mglob] != [(u, l, g) for u, l, g, _ in rec["global"]]:
        ctx.violation("correspondence", "UniverseIndexer model (coq/C03/Indexer.v) and implementation differ",
                      {"offsets": offs, "impl": rec, "model": repr(mval)}, no_input=False)
        return
    ctx.count("aux:indexer:agree")


# ---------------------------------------------------------------- RectArrayTracker
def gen_grid(r):
    n = r.choice([2, 2, 3, 4, 5])
    x = r.choice([-3.0, 0.0, -1.5, 2.0])
    g = [x]
    for _ in range(n - 1):
        x += r.choice([0.5, 1.0, 1.25, 2.0, 0.1])
        g.append(x)
    return g


def ulp_nb(x, up):
    return math.nextafter(x, math.inf if up else -math.inf)


def rect_cases(ctx, script, exprs, cases):
    r = ctx.rng
    narr = 6 if ctx.tier == "quick" else 40
    for a in range(narr):
        grids = [gen_grid(r) for _ in range(3)] if a else [[0.0, 1.0, 2.0], [0.0, 1.0, 3.0, 7.0], [-1.0, 0.0, 1.0]]
        dims = [len(g) - 1 for g in grids]
        script.append("A " + " ".join("%d %s" % (len(g), " ".join(hx(x) for x in g)) for g in grids))
        cases.append(("A", grids))
        exprs.append(None)
        rt = "(Rect %s)" % " ".join("[" + "; ".join(hexf(x) for x in g) + "]" for g in grids)
        inits, isects, crosses = [], [], []

        def coord_point(ax, kind):
            g = grids[ax]
            k = r.randrange(len(g))
            if kind == "plane":
                return g[k]
            if kind == "ulp":
                return ulp_nb(g[k], r.random() < 0.5)
            if kind == "out":
                return r.choice([g[0] - r.uniform(0.01, 3), g[-1] + r.uniform(0.01, 3)])
            c = r.randrange(len(g) - 1)
            return r.uniform(g[c], g[c + 1])
        # initialize
        for _ in range(40 if ctx.tier == "quick" else 150):
            kinds = ["in", "in", "in"]
            if r.random() < 0.55:
                kinds[r.randrange(3)] = r.choice(["plane", "ulp", "ulp", "out"])
                if r.random() < 0.2:
                    kinds[r.randrange(3)] = r.choice(["plane", "ulp", "out"])
            p = [coord_point(ax, kinds[ax]) for ax in range(3)]
            script.append("AI " + " ".join(hx(x) for x in p))
            inits.append(p)
            cases.append(("AI", grids, p))
        # intersect from inside cells
        for _ in range(50 if ctx.tier == "quick" else 200):
            c = [r.randrange(d) for d in dims]
            vol = (c[0] * dims[1] + c[1]) * dims[2] + c[2]
            p = [r.uniform(grids[ax][c[ax]], grids[ax][c[ax] + 1]) for ax in range(3)]
            p = [min(max(p[ax], ulp_nb(grids[ax][c[ax]], True)), ulp_nb(grids[ax][c[ax] + 1], False)) for ax in range(3)]
            k = r.random()
            if k < 0.3:
                d = [0.0, 0.0, 0.0]
                d[r.randrange(3)] = r.choice([-1.0, 1.0])
            elif k < 0.5:
                d = [r.choice([-1.0, 1.0]) * x for x in (0.6, 0.8, 0.0)]
                r.shuffle(d)
            else:
                d = [r.gauss(0, 1) for _ in range(3)]
                nrm = math.sqrt(sum(x * x for x in d)) or 1.0
                d = [x / nrm for x in d]
            # unlimited distance (python oracle) to place max around it
            best = math.inf
            for ax in range(3):
                if d[ax] != 0:
                    t = (grids[ax][c[ax] + (1 if d[ax] > 0 else 0)] - p[ax]) / d[ax]
                    if 0 < t < best:
                        best = t
            km = r.random()
            if km < 0.4 or not math.isfinite(best):
                mx = None
            elif km < 0.6:
                mx = best * r.uniform(0.2, 0.95)
            elif km < 0.8:
                mx = best * r.uniform(1.05, 3.0)
            else:
                mx = r.choice([best, ulp_nb(best, True), ulp_nb(best, False)])
            script.append("AX %d %s %s %s" % (vol, " ".join(hx(x) for x in p), " ".join(hx(x) for x in d),
                                              "-" if mx is None else hx(mx)))
            isects.append((vol, p, d, mx))
            cases.append(("AX", grids, c, vol, p, d, mx, best))
        # cross_boundary
        nsurf = sum(len(g) for g in grids)
        offs = [0, len(grids[0]), len(grids[0]) + len(grids[1])]
        for _ in range(30 if ctx.tier == "quick" else 100):
            c = [r.randrange(d) for d in dims]
            vol = (c[0] * dims[1] + c[1]) * dims[2] + c[2]
            ax = r.randrange(3)
            up = r.random() < 0.5
            if r.random() < 0.7 and dims[ax] > 1:      # mostly stay inside the array
                up = (c[ax] == 0) or (up and c[ax] < dims[ax] - 1)
            s = offs[ax] + c[ax] + (1 if up else 0)
            sense = 1 if up else 0      # travelling +ax: post-crossing sense of the upper wall = outside
            script.append("AC %d %d %d" % (vol, s, sense))
            crosses.append((vol, s, sense))
            cases.append(("AC", grids, c, vol, ax, up, s, sense))
        for s in range(nsurf):
            script.append("AN %d" % s)
            cases.append(("AN", grids, s))
        exprs.append("let r := %s in (map (ra_initialize r) [%s], map (fun q => match q with (v, p, d, m) => ra_intersect r v p d m end) [%s], "
                     "map (fun q => match q with (v, s, b) => ra_cross r v (s, b) end) [%s], "
                     "map (fun s => match ra_normal r s with V3 a b c => [a; b; c] end) (seq 0 %d))"
                     % (rt, "; ".join(v3(p) for p in inits),
                        "; ".join("(%d%%nat, %s, %s, %s)" % (v, v3(p), v3(d), "None" if m is None else "Some %s" % hexf(m))
                                  for v, p, d, m in isects),
                        "; ".join("(%d%%nat, %d%%nat, %s)" % (v, s, "true" if b else "false") for v, s, b in crosses),
                        nsurf))
        # the A record itself consumed exprs slot None; the block expression is attached to the LAST case
        cases.append(("Ablock", grids, len(inits), len(isects), len(crosses), nsurf))


def cell_of(grids, p):
    """definition-based location: the cell whose open interval contains p on each axis"""
    c = []
    for ax in range(3):
        g = grids[ax]
        k = [i for i in range(len(g) - 1) if g[i] < p[ax] < g[i + 1]]
        if not k:
            return None
        c.append(k[0])
    return c


# ---------------------------------------------------------------- BIH
def gen_bboxes(r):
    kind = r.choice(["grid", "random", "random", "overlap", "overlap", "nested", "shared", "single", "allinf"])
    bb = []
    if kind == "grid":
        nx, ny = r.choice([1, 2, 3]), r.choice([1, 2, 3])
        for i in range(nx):
            for j in range(ny):
                bb.append([i * 1.0, j * 1.0, 0.0, i + 1.0, j + 1.0, 1.0])
    elif kind == "random":
        for _ in range(r.choice([2, 3, 5, 8])):
            lo = [r.uniform(-4, 4) for _ in range(3)]
            bb.append(lo + [lo[k] + r.uniform(0.2, 3) for k in range(3)])
    elif kind == "overlap":
        ax = r.randrange(3)
        x = 0.0
        for _ in range(r.choice([2, 3, 4, 6])):
            b = [0.0, 0.0, 0.0, 1.0, 1.0, 1.0]
            b[ax], b[ax + 3] = x, x + r.choice([1.25, 1.5, 2.5])
            if r.random() < 0.3:
                b[(ax + 1) % 3] += 0.5
                b[(ax + 1) % 3 + 3] += 0.5
            bb.append(b)
            x += 1.0
    elif kind == "nested":
        h = 4.0
        for _ in range(r.choice([2, 3, 4])):
            bb.append([-h, -h, -h, h, h, h])
            h *= 0.5
        bb.append([5.0, 5.0, 5.0, 6.0, 6.0, 6.0])
    elif kind == "shared":
        x = 0.0
        for _ in range(r.choice([2, 3, 4, 6])):
            w = r.choice([0.5, 1.0, 1.5])
            bb.append([x, 0.0, 0.0, x + w, 1.0, 1.0])
            x += w
        bb.append([0.0, -1.0, 0.0, x, 0.0, 1.0])
    elif kind == "single":
        bb.append([0.0, 0.0, 0.0, 1.0, 2.0, 3.0])
    if kind == "allinf" or r.random() < 0.5:
        for _ in range(r.choice([1, 1, 2])):
            bb.insert(r.randrange(len(bb) + 1), [-math.inf] * 3 + [math.inf] * 3)
    if r.random() < 0.2:
        bb.append([1.0, 1.0, 1.0, 0.0, 0.0, 0.0])      # null bbox (background volume)
    # round to float32 so that the dump equals the input
    import struct
    f32 = lambda x: struct.unpack('f', struct.pack('f', x))[0] if math.isfinite(x) else x
    return [[f32(x) for x in b] for b in bb]


def bih_cases(ctx, script, exprs, cases):
    r = ctx.rng
    ntree = 14 if ctx.tier == "quick" else 120
    for t in range(ntree):
        bb = gen_bboxes(r)
        script.append("B %d %s" % (len(bb), " ".join(hx(x) for b in bb for x in b)))
        qs = []
        fin = [b for b in bb if math.isfinite(b[0]) and b[0] <= b[3]]
        for _ in range(30 if ctx.tier == "quick" else 80):
            k = r.random()
            if fin and k < 0.35:
                b = r.choice(fin)
                p = [r.uniform(b[i], b[i + 3]) for i in range(3)]
            elif fin and k < 0.7:
                # on faces / partition planes and one ulp around them
                b = r.choice(fin)
                p = [r.uniform(b[i], b[i + 3]) for i in range(3)]
                ax = r.randrange(3)
                p[ax] = b[ax + 3 * r.randrange(2)]
                j = r.random()
                if j < 0.3:
                    p[ax] = ulp_nb(p[ax], True)
                elif j < 0.6:
                    p[ax] = ulp_nb(p[ax], False)
            else:
                p = [r.uniform(-8, 8) for _ in range(3)]
            inside = [1 if (b[0] <= b[3] and all(b[i] <= p[i] <= b[i + 3] for i in range(3))) else 0 for b in bb]
            m = r.random()
            if fin and k < 0.7 and m < 0.5:
                mask = [0] * len(bb)         # only the box whose face the point is on
                mask[bb.index(b)] = 1
            elif m < 0.25:
                mask = [1] * len(bb)
            elif m < 0.35:
                mask = [0] * len(bb)
            elif m < 0.55:
                mask = [0] * len(bb)
                mask[r.randrange(len(bb))] = 1
            elif m < 0.75:
                mask = inside
            else:
                mask = [r.randrange(2) for _ in bb]
            script.append("BQ %s %s" % (" ".join(hx(x) for x in p), "".join(str(x) for x in mask)))
            qs.append((p, mask))
        cases.append(("B", bb, qs))
        exprs.append(None)    # filled once the dump is known


def bih_expr(dump, qs):
    inner = "; ".join("Inner %s %d%%nat %s %d%%nat %s %d%%nat" % (
        "None" if n[0] < 0 else "(Some %d%%nat)" % n[0], n[1], hexf(hf(n[2])), n[3], hexf(hf(n[4])), n[5])
        for n in dump["inner"])
    leaves = "; ".join("Leaf %s %s" % ("None" if l[0] < 0 else "(Some %d%%nat)" % l[0], nl(l[1])) for l in dump["leaves"])
    bbs = "; ".join("(%s, %s)" % (v3([hf(x) for x in b[:3]]), v3([hf(x) for x in b[3:]])) for b in dump["bboxes"])
    t = "(Tree [%s] [%s] %s [%s])" % (inner, leaves, nl(dump["inf"]), bbs)
    q = "; ".join("(%s, [%s])" % (v3(p), "; ".join("true" if m else "false" for m in mask)) for p, mask in qs)
    return ("let t := %s in map (fun q => match bih_traverse t (fst q) (fun v => nth v (snd q) false) with "
            "None => (-2)%%Z | Some None => (-1)%%Z | Some (Some v) => Z.of_nat v end) [%s]" % (t, q))


# ---------------------------------------------------------------- driver
class _Capped:
    """forward to ctx, but report at most 3 violations per kind (the rest are counted)"""

    def __init__(self, ctx, rng=None):
        self._ctx = ctx
        self._n = {}
        self.rng = rng if rng is not None else ctx.rng

    def __getattr__(self, name):
        return getattr(self._ctx, name)

    def violation(self, kind, what, replay, **kw):
        self._n[kind] = self._n.get(kind, 0) + 1
        if self._n[kind] <= 3:
            self._ctx.violation(kind, what, replay, **kw)
        else:
            self._ctx.count("aux:further-violations:" + kind)


def run_aux(ctx, here, rng=None):
    return _run_aux(_Capped(ctx, rng), here)


def _run_aux(ctx, here):
    """the caller has built C03/{Indexer,RectArray,BIH}.vo"""
    exe = ctx.compile_harness([os.path.join(here, "harness", "aux.cc")], "aux", libs=["orange", "geocel", "corecel"])
    script, exprs, cases = [], [], []
    indexer_cases(ctx, script, exprs, cases)
    n_idx = len(cases)
    rscript, rexprs, rcases = [], [], []
    rect_cases(ctx, rscript, rexprs, rcases)
    bscript, bexprs, bcases = [], [], []
    bih_cases(ctx, bscript, bexprs, bcases)
    rc, out = ctx.run_harness(exe, input="\n".join(script + rscript + bscript) + "\n", timeout=300)
    recs = [json.loads(l[1:]) for l in out.splitlines() if l.startswith("@")]
    if rc != 0 or len(recs) != len(script) + len(rscript) + len(bscript):
        raise vlib.BuildError("aux harness failed rc=%d (%d records for %d commands)"
                              % (rc, len(recs), len(script) + len(rscript) + len(bscript)), out[-3000:])
    irecs = recs[:len(script)]
    rrecs = recs[len(script):len(script) + len(rscript)]
    brecs = recs[len(script) + len(rscript):]
    # ---- BIH expressions need the dumped trees
    bex, k = [], 0
    btrees = []
    for tag, bb, qs in bcases:
        dump = brecs[k]
        ans = brecs[k + 1:k + 1 + len(qs)]
        k += 1 + len(qs)
        btrees.append((bb, qs, dump, ans))
        bex.append(bih_expr(dump, qs))
    rex = [e for e in rexprs if e is not None]
    all_ex = exprs + rex + bex
    vals = ctx.coq_eval("aux", PRE, all_ex, chunk=max(1, (len(all_ex) + 2) // 3), timeout=600)
    ncmp = 0
    # ---- indexer
    for (tag, offs), rec, mv in zip(cases, irecs, vals[:len(exprs)]):
        ctx.case(("aux-indexer", tuple(offs)), nontrivial=len(offs) > 2)
        indexer_check(ctx, offs, rec, mv)
        ncmp += 1
    # ---- rect arrays
    rvals = vals[len(exprs):len(exprs) + len(rex)]
    k, bi, ri = 0, 0, 0
    while k < len(rcases):
        assert rcases[k][0] == "A"
        grids = rcases[k][1]
        dims = [len(g) - 1 for g in grids]
        j = k + 1
        while rcases[j][0] != "Ablock":
            j += 1
        minit, misect, mcross, mnorm = rvals[bi]
        bi += 1
        ii = xi = ci = ni = 0
        ri += 1            # the record of the A command itself
        for q in range(k + 1, j):
            cs = rcases[q]
            rec = rrecs[ri]
            ri += 1
            ncmp += 1
            if cs[0] == "AI":
                p = cs[2]
                got = rec["vol"] if rec["vol"] >= 0 else None
                c = cell_of(grids, p)
                exp = None if c is None else (c[0] * dims[1] + c[1]) * dims[2] + c[2]
                ctx.case(("aux-rect-init", tuple(p)), nontrivial=exp is not None)
                if got != exp:
                    ctx.violation("rectarray", "RectArrayTracker::initialize does not return the cell whose interval "
                                  "contains the point on every axis", {"grids": grids, "pos": p, "got": got, "expected": exp})
                elif minit[ii] != got:
                    ctx.violation("correspondence", "RectArray model and implementation differ on initialize",
                                  {"grids": grids, "pos": p, "impl": got, "model": minit[ii]})
                else:
                    ctx.count("aux:rect:init:" + ("cell" if got is not None else "none"))
                ii += 1
            elif cs[0] == "AX":
                _, _, c, vol, p, d, mx, best = cs
                md, ms = misect[xi]
                xi += 1
                gd = hf(rec["dist"])
                gs = None if rec["surf"] < 0 else (rec["surf"], bool(rec["sense"]))
                ctx.case(("aux-rect-isect", vol, tuple(p), tuple(d), mx), nontrivial=True)
                # property oracle: nearest wall in the direction of travel, truncated at max
                tie = mx is not None and math.isfinite(best) and abs(best - mx) <= 4e-16 * max(1.0, abs(mx))
                if not tie:
                    if mx is None or best <= mx:
                        okp = (gs is not None or not math.isfinite(best)) and close(gd, best, rtol=1e-12)
                    else:
                        okp = gs is None and gd == mx
                    if not okp:
                        ctx.violation("rectarray", "RectArrayTracker::intersect is not the distance to the nearest cell wall "
                                      "in the direction of travel (truncated at max)",
                                      {"grids": grids, "vol": vol, "pos": p, "dir": d, "max": mx, "got": [gd, gs], "expected": best})
                        continue
                mdv = math.inf if md is None else float(md)
                msv = None if ms is None else (ms[0], bool(ms[1]))
                if (msv != gs or not (mdv == gd or close(mdv, gd, rtol=1e-13))) and not tie:
                    ctx.violation("correspondence", "RectArray model and implementation differ on intersect",
                                  {"grids": grids, "vol": vol, "pos": p, "dir": d, "max": mx, "impl": [gd, gs], "model": [mdv, msv]})
                else:
                    ctx.count("aux:rect:isect:" + ("tie" if tie else "hit" if gs else "cut" if mx is not None else "none"))
            elif cs[0] == "AC":
                _, _, c, vol, ax, up, s, sense = cs
                mc = mcross[ci]
                ci += 1
                leaving = (c[ax] == dims[ax] - 1) if up else (c[ax] == 0)
                ctx.case(("aux-rect-cross", vol, s, sense), nontrivial=not leaving)
                if leaving:
                    if mc is not None:
                        ctx.violation("correspondence", "RectArray model does not flag crossing out of the array",
                                      {"grids": grids, "vol": vol, "surf": s, "sense": sense, "model": repr(mc)})
                    else:
                        ctx.count("aux:rect:cross:leaving-not-compared")
                    continue
                c2 = list(c)
                c2[ax] += 1 if up else -1
                exp = (c2[0] * dims[1] + c2[1]) * dims[2] + c2[2]
                if rec["vol"] != exp or rec["surf"] != s:
                    ctx.violation("rectarray", "RectArrayTracker::cross_boundary does not move to the adjacent cell",
                                  {"grids": grids, "vol": vol, "surf": s, "sense": sense, "got": rec, "expected": exp})
                elif mc is None or mc[0] != rec["vol"] or mc[1][0] != s:
                    ctx.violation("correspondence", "RectArray model and implementation differ on cross_boundary",
                                  {"grids": grids, "vol": vol, "surf": s, "sense": sense, "impl": rec, "model": repr(mc)})
                else:
                    ctx.count("aux:rect:cross:agree")
            elif cs[0] == "AN":
                mn = [float(x) for x in mnorm[ni]]
                ni += 1
                if mn != [float(x) for x in rec["n"]]:
                    ctx.violation("correspondence", "RectArray model and implementation differ on normal",
                                  {"grids": grids, "surf": cs[2], "impl": rec, "model": mn})
                else:
                    ctx.count("aux:rect:normal:agree")
        k = j + 1
    # ---- BIH
    bvals = vals[len(exprs) + len(rex):]
    for (bb, qs, dump, ans), mv in zip(btrees, bvals):
        for (p, mask), rec, m in zip(qs, ans, mv):
            ncmp += 1
            got = rec["vol"]
            ctx.case(("aux-bih", len(bb), tuple(p), tuple(mask)), nontrivial=got >= 0)
            cand = [v for v, b in enumerate(bb) if mask[v] and b[0] <= b[3]
                    and all(b[i] <= p[i] <= b[i + 3] for i in range(3))]
            strict = [v for v in cand if all(bb[v][i] < p[i] < bb[v][i + 3] for i in range(3))]
            # property oracle = linear search; a candidate whose bbox contains the point only on
            # its closed boundary may legitimately be missed (strict plane test, see NOTES.md)
            bad = None
            if got >= 0 and got not in cand:
                bad = "returned volume fails the predicate or its bbox does not contain the point"
            elif got < 0 and strict:
                bad = "no volume returned although volume %d satisfies the predicate with the point strictly inside its bbox" % strict[0]
            if bad:
                ctx.violation("bih", "BIHTraverser: " + bad, {"bboxes": [[hx(x) for x in b] for b in bb],
                                                              "point": p, "mask": mask, "got": got, "tree": dump})
                continue
            if got < 0 and cand:
                ctx.count("aux:bih:boundary-candidate-missed")
            if int(m) != got:
                ctx.violation("correspondence", "BIH model (coq/C03/BIH.v) and BIHTraverser differ",
                              {"bboxes": [[hx(x) for x in b] for b in bb], "point": p, "mask": mask,
                               "impl": got, "model": int(m), "tree": dump})
            else:
                ctx.count("aux:bih:agree:" + ("found" if got >= 0 else "none"))
    return ncmp
