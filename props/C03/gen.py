"""C03 — random generator of valid ORANGE geometries, rays and op programs.

Validity by construction: the volumes of every unit are obtained from one
root region by (i) splitting a conjunctive cell by a new surface, (ii) carving
a closed shape out of a cell, (iii) merging two cells, (iv) turning cells into
the implicit background volume; so they partition the root region.
"""
import math
from geom import Unit, Vol, RectArray, Geometry, uv_axes


def unit_vec(r):
    while True:
        v = [r.gauss(0, 1) for _ in range(3)]
        n = math.sqrt(sum(x * x for x in v))
        if n > 1e-3:
            return [x / n for x in v]


def normalize(v):
    n = math.sqrt(sum(x * x for x in v))
    return [x / n for x in v]


def matmul(a, b):
    return [[sum(a[i][k] * b[k][j] for k in range(3)) for j in range(3)] for i in range(3)]


def rot_axis(axis, ang):
    x, y, z = axis
    c, s = math.cos(ang), math.sin(ang)
    C = 1 - c
    return [[c + x * x * C, x * y * C - z * s, x * z * C + y * s],
            [y * x * C + z * s, c + y * y * C, y * z * C - x * s],
            [z * x * C - y * s, z * y * C + x * s, c + z * z * C]]


def rand_rotation(r):
    """rotation matrix (daughter-to-parent), possibly improper (reflection)"""
    k = r.random()
    if k < 0.25:
        m = rot_axis([0, 0, 1], 2 * math.pi * r.choice([0.125, 0.25, 0.0625, 1 / 3, 0.375]))
    elif k < 0.4:
        m = rot_axis(r.choice([[1, 0, 0], [0, 1, 0]]), 2 * math.pi * r.choice([0.125, 0.25, 0.3]))
    else:
        m = rot_axis(unit_vec(r), r.uniform(0.1, 3.0))
    if r.random() < 0.25:     # reflection
        f = [[1, 0, 0], [0, 1, 0], [0, 0, 1]]
        a = r.randrange(3)
        f[a][a] = -1
        m = matmul(m, f)
    return m


def rand_transform(r, t):
    k = r.random()
    if k < 0.3:
        return [float(x) for x in t]
    m = rand_rotation(r)
    return [m[i][j] for i in range(3) for j in range(3)] + [float(x) for x in t]


# ---------------------------------------------------------------------------
# shapes: return (surfaces [(type,data)], inside-literals [(k, outside)]) with k
# indexing the returned surfaces

def shape_sphere(c, rad):
    if c == [0, 0, 0]:
        return [('sc', [rad * rad])], [(0, False)]
    return [('s', list(c) + [rad * rad])], [(0, False)]


def shape_box(c, h):
    s, l = [], []
    for a, ax in enumerate('xyz'):
        s.append(('p' + ax, [c[a] - h[a]]))
        l.append((len(s) - 1, True))
        s.append(('p' + ax, [c[a] + h[a]]))
        l.append((len(s) - 1, False))
    return s, l


def shape_rotbox(c, h, m):
    s, l = [], []
    for a in range(3):
        n = [m[0][a], m[1][a], m[2][a]]
        d0 = sum(n[i] * c[i] for i in range(3))
        s.append(('p', n + [d0 - h[a]]))
        l.append((len(s) - 1, True))
        s.append(('p', n + [d0 + h[a]]))
        l.append((len(s) - 1, False))
    return s, l


def shape_cyl(c, rad, hh, ax):
    u, v = uv_axes(ax)
    A = 'xyz'[ax]
    if c[u] == 0 and c[v] == 0:
        s = [('c' + A + 'c', [rad * rad])]
    else:
        s = [('c' + A, [c[u], c[v], rad * rad])]
    s += [('p' + A, [c[ax] - hh]), ('p' + A, [c[ax] + hh])]
    return s, [(0, False), (1, True), (2, False)]


def shape_cone(c, r0, r1, hh, ax):
    """frustum between c[ax]-hh (radius r0) and c[ax]+hh (radius r1), r0 < r1"""
    A = 'xyz'[ax]
    t = (r1 - r0) / (2 * hh)
    apex = c[ax] - hh - r0 / t
    o = list(c)
    o[ax] = apex
    s = [('k' + A, o + [t * t]), ('p' + A, [c[ax] - hh]), ('p' + A, [c[ax] + hh])]
    return s, [(0, False), (1, True), (2, False)]


def shape_ellipsoid(c, h):
    a = [1 / (x * x) for x in h]
    d = [-2 * c[i] * a[i] for i in range(3)]
    g = sum(c[i] * c[i] * a[i] for i in range(3)) - 1
    return [('sq', a + d + [g])], [(0, False)]


def shape_gq_ellipsoid(c, h, m):
    """rotated ellipsoid as a general quadric: (x-c)^T M D M^T (x-c) = 1"""
    D = [1 / (x * x) for x in h]
    Q = [[sum(m[i][k] * D[k] * m[j][k] for k in range(3)) for j in range(3)] for i in range(3)]
    lin = [-2 * sum(Q[i][j] * c[j] for j in range(3)) for i in range(3)]
    j0 = sum(c[i] * Q[i][j] * c[j] for i in range(3) for j in range(3)) - 1
    return [('gq', [Q[0][0], Q[1][1], Q[2][2], 2 * Q[0][1], 2 * Q[1][2], 2 * Q[0][2],
                    lin[0], lin[1], lin[2], j0])], [(0, False)]


def rand_shape(r, c, size, kinds):
    """closed shape of extent about `size` centred at c"""
    k = r.choice(kinds)
    if k == 'sphere':
        return shape_sphere(c, size * r.uniform(0.6, 1.0))
    if k == 'box':
        return shape_box(c, [size * r.uniform(0.5, 1.0) for _ in range(3)])
    if k == 'rotbox':
        return shape_rotbox(c, [size * r.uniform(0.5, 0.9) for _ in range(3)], rand_rotation(r))
    if k == 'cyl':
        return shape_cyl(c, size * r.uniform(0.5, 0.9), size * r.uniform(0.5, 0.9), r.randrange(3))
    if k == 'cone':
        r1 = size * r.uniform(0.5, 0.9)
        return shape_cone(c, r1 * r.uniform(0.2, 0.7), r1, size * r.uniform(0.5, 0.9), r.randrange(3))
    if k == 'ellipsoid':
        return shape_ellipsoid(c, [size * r.uniform(0.5, 1.0) for _ in range(3)])
    if k == 'gq':
        return shape_gq_ellipsoid(c, [size * r.uniform(0.5, 1.0) for _ in range(3)], rand_rotation(r))
    raise ValueError(k)


def rand_split_surface(r, c, size, kinds):
    """one surface passing near c; returns (type, data)"""
    p = [c[i] + r.uniform(-0.6, 0.6) * size for i in range(3)]
    k = r.choice(kinds)
    if k == 'aplane':
        a = r.randrange(3)
        return ('p' + 'xyz'[a], [p[a]])
    if k == 'plane':
        n = unit_vec(r)
        return ('p', n + [sum(n[i] * p[i] for i in range(3))])
    if k == 'sphere':
        rad = size * r.uniform(0.4, 1.5)
        return ('s', p + [rad * rad])
    if k == 'cyl':
        a = r.randrange(3)
        u, v = uv_axes(a)
        rad = size * r.uniform(0.3, 1.0)
        return ('c' + 'xyz'[a], [p[u], p[v], rad * rad])
    if k == 'cone':
        a = r.randrange(3)
        t = r.uniform(0.3, 1.5)
        return ('k' + 'xyz'[a], p + [t * t])
    if k == 'sq':   # hyperboloid of one sheet / paraboloid about a random axis
        a = r.randrange(3)
        co = [1.0, 1.0, 1.0]
        s = size * r.uniform(0.3, 0.8)
        if r.random() < 0.5:
            co[a] = -r.uniform(0.3, 2.0)   # x^2 + y^2 - k z^2 = s^2
            d = [-2 * co[i] * p[i] for i in range(3)]
            g = sum(co[i] * p[i] * p[i] for i in range(3)) - s * s
            return ('sq', co + d + [g])
        co[a] = 0.0                        # paraboloid x^2 + y^2 - s (z - pz) = 0
        d = [-2 * co[i] * p[i] for i in range(3)]
        d[a] = -s
        g = sum(co[i] * p[i] * p[i] for i in range(3)) + s * p[a]
        return ('sq', co + d + [g])
    raise ValueError(k)


ALL_SHAPES = ['sphere', 'box', 'rotbox', 'cyl', 'cone', 'ellipsoid', 'gq']
ALL_SPLITS = ['aplane', 'plane', 'sphere', 'cyl', 'cone', 'sq']
BASIC_SHAPES = ['sphere', 'box', 'rotbox', 'cyl']          # plane / sphere / cylinder only
BASIC_SPLITS = ['aplane', 'plane', 'sphere', 'cyl']


class Cell:
    def __init__(self, lits=None, region=None, anchor=None, size=None):
        self.lits = lits          # conjunction of ('s', sid, outside), or None when complex
        self.region = region      # complex region
        self.anchor = anchor      # (centre, size) of a closed shape filling the cell, if known
        self.size = size

    def reg(self):
        if self.lits is not None:
            if not self.lits:
                return ('true',)
            if len(self.lits) == 1:
                return self.lits[0]
            return ('and', list(self.lits))
        return self.region


def add_shape(U, shape):
    surfs, lits = shape
    ids = [U.add_surface(t, d) for t, d in surfs]
    return [('s', ids[k], o) for k, o in lits]


def gen_unit(r, name, centre, size, world, basic, max_vols=6):
    """-> (Unit, cells) ; cells[i] corresponds to volume i+1"""
    shapes = BASIC_SHAPES if basic else ALL_SHAPES
    splits = BASIC_SPLITS if basic else ALL_SPLITS
    U = Unit(name)
    if world:
        k = r.random()
        if k < 0.6:
            bl = add_shape(U, shape_box(centre, [size] * 3))
        elif k < 0.8:
            bl = add_shape(U, shape_sphere(centre, size * 1.2))
        else:
            bl = add_shape(U, shape_cyl(centre, size, size, r.randrange(3)))
        ext = Vol(bl[0] if len(bl) == 1 and False else ('not', ('and', bl)) if len(bl) > 1
                  else ('s', bl[0][1], True), 'X', name + ".ext")
        cells = [Cell(lits=list(bl))]
    else:
        ext = Vol(('false',), 'x', name + ".ext")
        cells = [Cell(lits=[])]
    nops = r.choice([0, 1, 1, 2, 2, 3, 4])
    for _ in range(nops):
        if len(cells) + 1 >= max_vols:
            break
        conj = [c for c in cells if c.lits is not None and c.anchor is None]
        op = r.choice(['split', 'carve', 'carve', 'merge'])
        if op == 'merge' and len(cells) >= 3:
            a, b = r.sample(range(len(cells)), 2)
            ca, cb = cells[a], cells[b]
            m = Cell(region=('or', [ca.reg(), cb.reg()]))
            cells = [c for i, c in enumerate(cells) if i not in (a, b)] + [m]
        elif op == 'split' and conj:
            c = r.choice(conj)
            t, d = rand_split_surface(r, centre, size, splits)
            sid = U.add_surface(t, d)
            cells.remove(c)
            cells.append(Cell(lits=c.lits + [('s', sid, False)]))
            cells.append(Cell(lits=c.lits + [('s', sid, True)]))
        elif conj:
            c = r.choice(conj)
            sz = size * r.uniform(0.15, 0.45)
            cc = [centre[i] + r.uniform(-0.5, 0.5) * size for i in range(3)]
            if r.random() < 0.2:
                cc = [round(4 * x) / 4 for x in cc]
            kl = add_shape(U, rand_shape(r, cc, sz, shapes))
            cells.remove(c)
            cells.append(Cell(lits=c.lits + kl, anchor=(cc, sz)))
            if len(kl) == 1:
                cells.append(Cell(lits=c.lits + [('s', kl[0][1], not kl[0][2])]))
            else:
                inner = ('and', kl)
                cells.append(Cell(region=('and', list(c.lits) + [('not', inner)])))
    r.shuffle(cells)
    bg = []
    if len(cells) >= 2 and r.random() < 0.3:
        nb = r.choice([1, 1, 2]) if len(cells) >= 3 else 1
        cand = [c for c in cells if c.anchor is None]
        bg = cand[:nb]
        cells = [c for c in cells if c not in bg]
    U.volumes = [ext] + [Vol(c.reg(), None, "%s.v%d" % (name, i + 1)) for i, c in enumerate(cells)]
    if bg:
        U.volumes.append(Vol(('false',), 'B', name + ".bg"))
    return U, cells


def gen_geometry(r, basic=False, depth=None, allow_array=True):
    """random nested geometry; returns Geometry"""
    if depth is None:
        depth = r.choice([1, 2, 2, 3, 3])
    unis = []
    size = 10.0
    W, cells = gen_unit(r, "u0", [0.0, 0.0, 0.0], size, True, basic)
    unis.append(W)
    todo = [(0, cells, 1)]
    while todo:
        ui, cells, lev = todo.pop(0)
        if lev >= depth:
            continue
        U = unis[ui]
        anchored = [i for i, c in enumerate(cells) if c.anchor is not None]
        picks = []
        if anchored:
            picks = r.sample(anchored, min(len(anchored), r.choice([1, 1, 2])))
        elif cells and r.random() < 0.5:
            picks = [r.randrange(len(cells))]
        for ci in picks:
            c = cells[ci]
            if c.anchor:
                t, sz = c.anchor
            else:
                t, sz = [r.uniform(-2, 2) for _ in range(3)], size / (2 ** lev)
            di = len(unis)
            D, dcells = gen_unit(r, "u%d" % di, [0.0, 0.0, 0.0], sz, False, basic)
            unis.append(D)
            U.daughters[ci + 1] = (di, rand_transform(r, t))
            todo.append((di, dcells, lev + 1))
    tol = r.choice([1e-8, 1e-8, 1e-6])
    return Geometry(unis, tol)


def t_up_point(tr, p):
    """daughter -> parent coordinates"""
    if not tr:
        return list(p)
    if len(tr) == 3:
        return [p[i] + tr[i] for i in range(3)]
    rm, t = tr[:9], tr[9:]
    return [rm[3 * i] * p[0] + rm[3 * i + 1] * p[1] + rm[3 * i + 2] * p[2] + t[i] for i in range(3)]


def deep_rotation(r, lev):
    """rotations that do NOT commute between consecutive levels: a different
    principal axis at each level (quarter/eighth/third turns) or a general
    rotation; sometimes with a reflection"""
    axes = [[0.0, 0.0, 1.0], [1.0, 0.0, 0.0], [0.0, 1.0, 0.0]]
    k = r.random()
    if k < 0.55:
        m = rot_axis(axes[lev % 3], 2 * math.pi * r.choice([0.25, 0.25, 0.125, 1 / 3, 0.375, -0.25]))
    else:
        m = rot_axis(unit_vec(r), r.uniform(0.6, 2.6))
    if r.random() < 0.25:
        f = [[1, 0, 0], [0, 1, 0], [0, 0, 1]]
        a = r.randrange(3)
        f[a][a] = -1
        m = matmul(m, f)
    return m


def gen_deep_geometry(r, basic=False, depth=None):
    """chain of 3-4 nested units, every placement rotated (different axes at
    consecutive levels, reflections); the innermost unit has surfaces through
    its centre so that boundaries with surface_level >= 2 are hit.  The global
    positions of the nested centres are recorded in geo.targets."""
    if depth is None:
        depth = r.choice([3, 3, 4])
    unis = []
    chain = []          # transforms from the world down to the deepest unit
    size = 10.0
    centre = [0.0, 0.0, 0.0]
    parent = None
    for lev in range(depth):
        last = lev == depth - 1
        name = "d%d" % lev
        for _ in range(20):
            U, cells = gen_unit(r, name, centre, size, lev == 0, basic, max_vols=5)
            anchored = [i for i, c in enumerate(cells) if c.anchor is not None]
            if last or anchored:
                break
        if last:
            # make sure something passes through the centre of the innermost unit
            k = r.random()
            if k < 0.6 or not U.surfaces:
                conj = [i for i, c in enumerate(cells) if c.lits is not None]
                if conj:
                    ci = r.choice(conj)
                    c = cells[ci]
                    off = [r.uniform(-0.15, 0.15) * size for _ in range(3)]
                    t, d = rand_split_surface(r, off, size * 0.2, ['aplane', 'plane', 'sphere'] if basic else
                                              ['aplane', 'plane', 'sphere', 'cyl', 'cone'])
                    sid = U.add_surface(t, d)
                    newc = [Cell(lits=c.lits + [('s', sid, False)]), Cell(lits=c.lits + [('s', sid, True)])]
                    bgv = U.volumes[-1] if U.volumes[-1].zorder == 'B' else None
                    cells = cells[:ci] + cells[ci + 1:] + newc
                    U.volumes = [U.volumes[0]] + [Vol(x.reg(), None, "%s.v%d" % (name, i + 1)) for i, x in enumerate(cells)]
                    if bgv is not None:
                        U.volumes.append(bgv)
        unis.append(U)
        if parent is not None:
            pu, pvol, tr = parent
            unis[pu].daughters[pvol] = (len(unis) - 1, tr)
            chain.append(tr)
        if last:
            break
        ci = r.choice(anchored)
        t, sz = cells[ci].anchor
        m = deep_rotation(r, lev)
        tr = [m[i][j] for i in range(3) for j in range(3)] + [float(x) for x in t]
        parent = (len(unis) - 1, ci + 1, tr)
        size = sz
        centre = [0.0, 0.0, 0.0]
    geo = Geometry(unis, r.choice([1e-8, 1e-8, 1e-6]))
    # global positions of the nested centres (deepest first)
    targets = []
    for k in range(len(chain), 0, -1):
        p = [0.0, 0.0, 0.0]
        for tr in reversed(chain[:k]):
            p = t_up_point(tr, p)
        targets.append(p)
    geo.targets = targets
    geo.inner_size = size
    return geo


def gen_array_geometry(r, basic=True):
    """world box with a carved box holding a rectangular array of small units
    (dyadic coordinates so that the grid planes and the placeholder's planes
    coincide exactly, as celeritas' own inputs do)"""
    W = Unit("u0")
    bl = add_shape(W, shape_box([0.0, 0.0, 0.0], [10.0] * 3))
    nx, ny, nz = r.choice([1, 2, 3]), r.choice([1, 2, 3]), r.choice([1, 2])
    pitch = [r.choice([1.0, 1.5, 2.0]), r.choice([1.0, 1.5, 2.0]), r.choice([2.0, 3.0])]
    lo = [r.choice([-4.0, -2.5, -1.0, 0.5]) for _ in range(3)]
    hi = [lo[0] + nx * pitch[0], lo[1] + ny * pitch[1], lo[2] + nz * pitch[2]]
    c = [(lo[i] + hi[i]) / 2 for i in range(3)]
    h = [(hi[i] - lo[i]) / 2 for i in range(3)]
    kl = add_shape(W, shape_box(c, h))
    W.volumes = [Vol(('not', ('and', bl)), 'X'), Vol(('and', kl)),
                 Vol(('and', list(bl) + [('not', ('and', kl))]))]
    A = Unit("arrwrap")
    A.volumes = [Vol(('false',), 'x'), Vol(('true',))]
    unis = [W, A, None]
    W.daughters[1] = (1, [])
    A.daughters[1] = (2, [float(x) for x in lo])
    grid = [[i * pitch[0] for i in range(nx + 1)], [i * pitch[1] for i in range(ny + 1)],
            [i * pitch[2] for i in range(nz + 1)]]
    nkinds = r.choice([1, 2])
    kinds = []
    for k in range(nkinds):
        D, _ = gen_unit(r, "pin%d" % k, [0.0, 0.0, 0.0], min(pitch) / 2, False, basic, max_vols=4)
        kinds.append(len(unis))
        unis.append(D)
    ds = []
    for i in range(nx):
        for j in range(ny):
            for k in range(nz):
                ds.append((r.choice(kinds), [(i + 0.5) * pitch[0], (j + 0.5) * pitch[1], (k + 0.5) * pitch[2]]))
    unis[2] = RectArray("arr", grid, ds)
    return Geometry(unis, 1e-8)


# ---------------------------------------------------------------------------
# rays and programs

def gen_ray(r, geo, tries=60):
    """start point well inside the world, away from all surfaces"""
    for _ in range(tries):
        p = [r.uniform(-9.5, 9.5) for _ in range(3)]
        if r.random() < 0.15:
            p = [round(2 * x) / 2 + r.choice([0.0, 0.25, 0.125]) for x in p]
        st, margin, note = geo.locate(p)
        if st is None or margin < 1e-3:
            continue
        if st[0][1] == 0:
            continue
        k = r.random()
        targets = getattr(geo, "targets", None)
        if targets:
            # nested chain: start inside or near the innermost universe half of the time
            tg = targets[0] if r.random() < 0.7 else r.choice(targets)
            sz = getattr(geo, "inner_size", 1.0)
            if r.random() < 0.5:
                q = [tg[i] + r.uniform(-0.6, 0.6) * sz for i in range(3)]
                st2, m2, _ = geo.locate(q)
                if st2 is not None and m2 >= 1e-3 and st2[0][1] != 0:
                    p = q
            aim = [tg[i] + r.uniform(-0.3, 0.3) * sz for i in range(3)]
            d = [aim[i] - p[i] for i in range(3)]
            if sum(x * x for x in d) < 1e-4 or r.random() < 0.15:
                d = unit_vec(r)
            return p, normalize(d)
        if k < 0.2:
            d = [0.0, 0.0, 0.0]
            d[r.randrange(3)] = r.choice([-1.0, 1.0])
        elif k < 0.5:
            # aim at the origin region / a daughter anchor so that nested levels are hit
            tgt = [r.uniform(-3, 3) for _ in range(3)]
            U = geo.universes[0]
            if U.kind == 'unit' and U.daughters and r.random() < 0.7:
                tr = r.choice(list(U.daughters.values()))[1]
                if len(tr) == 3:
                    tgt = [tr[i] + r.uniform(-0.5, 0.5) for i in range(3)]
                elif len(tr) == 12:
                    tgt = [tr[9 + i] + r.uniform(-0.5, 0.5) for i in range(3)]
            d = [tgt[i] - p[i] for i in range(3)]
            if sum(x * x for x in d) < 1e-2:
                d = unit_vec(r)
            d = normalize(d)
        else:
            d = unit_vec(r)
        return p, d
    return None


def fmt_dir(u):
    return " ".join(float(x).hex() for x in u)


def gen_program(r, nseg, dir0=None, boundary_heavy=False):
    """list of op lines respecting the documented call order (ops whose
    preconditions fail at run time are skipped by the driver)"""
    ops = []
    cur = [list(dir0) if dir0 else [1.0, 0.0, 0.0]]

    def newdir():
        cur[0] = unit_vec(r)
        return "D " + fmt_dir(cur[0])

    def perturbed():
        e = r.uniform(0.05, 0.5)
        w = unit_vec(r)
        cur[0] = normalize([cur[0][i] + e * w[i] for i in range(3)])
        return "D " + fmt_dir(cur[0])

    def reversed_dir():
        e = r.uniform(0.05, 0.8)
        w = unit_vec(r)
        cur[0] = normalize([-cur[0][i] + e * w[i] for i in range(3)])
        return "D " + fmt_dir(cur[0])

    for _ in range(nseg):
        k = r.random()
        if boundary_heavy and r.random() < 0.5:
            k = r.uniform(0.36, 0.70)       # one of the set_dir-on-boundary patterns
        if k < 0.10:
            ops += ["F", "B", "X"]
        elif k < 0.16:       # move_internal keeps the cached step: move on to the boundary without a new search
            ops += ["F", "M %s" % float(r.uniform(0.1, 0.9)).hex(), "B", "X"]
        elif k < 0.22:
            ops += ["F", "M %s" % float(r.uniform(0.1, 0.6)).hex(),
                    "M %s" % float(r.uniform(0.1, 0.9)).hex(), "B", "X"]
        elif k < 0.29:
            ops += ["F", "M %s" % float(r.uniform(0.05, 0.95)).hex()]
        elif k < 0.36:       # move_internal(pos) to a point of the reported step (clears the cached step)
            ops += ["F", "P %s" % float(r.uniform(0.05, 0.95)).hex()]
            if r.random() < 0.5:
                ops += ["F", "P %s" % float(r.uniform(0.05, 0.95)).hex(), "F", "B", "X"]
        elif k < 0.52:       # set_dir on the boundary before crossing
            ops += ["F", "B", r.choice([newdir, newdir, perturbed, reversed_dir])()]
            if r.random() < 0.3:
                ops += [r.choice([newdir, perturbed, reversed_dir])()]
            ops += ["F", "X"]   # F is executed only if the flag is re-entrant
        elif k < 0.64:       # set_dir right after crossing, mild change of direction
            ops += ["F", "B", "X", perturbed(), "F", "Y", "F",
                    "M %s" % float(r.uniform(0.05, 0.6)).hex()]
        elif k < 0.70:       # set_dir right after crossing, arbitrary new direction
            ops += ["F", "B", "X", newdir(), "F", "Y", "F",
                    "M %s" % float(r.uniform(0.05, 0.6)).hex()]
        elif k < 0.80:       # set_dir inside a volume, then move
            if ops and ops[-1] in ("X", "Y") and r.random() < 0.8:
                # leave the boundary first (a reversal right after crossing is the known finding)
                ops += ["F", "M %s" % float(r.uniform(0.05, 0.5)).hex()]
            ops += [newdir(), "F", "M %s" % float(r.uniform(0.05, 0.95)).hex()]
        elif k < 0.92:       # limited search
            g = r.choice([0.3, 0.7, 0.999999, 1.0, 1.000001, 1.5, 4.0])
            ops += ["L %s" % float(g).hex()]
            if g >= 1.0:
                ops += ["B", "X"]
            else:
                ops += ["M 0x1p+0"]
        else:
            ops += ["F", "%s %s" % (r.choice("MP"), float(r.uniform(0.05, 0.95)).hex()), "F",
                    "M %s" % float(r.uniform(0.05, 0.95)).hex(), newdir(), "F"]
    ops += ["T 400"]
    return ops
