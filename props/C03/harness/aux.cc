// C03 auxiliary correspondence harness: UniverseIndexer, RectArrayTracker, BIHTraverser.
// Reads commands from stdin (numbers as C hex floats), prints one "@"+JSON line per command.
//   I n o0 .. o(n-1)                     UniverseIndexer over offsets (surfaces = volumes = o)
//   A nx x.. ny y.. nz z..               define a rect array (grids)
//   AI px py pz                          RectArrayTracker::initialize
//   AX vol px py pz dx dy dz max|-       intersect / intersect(max)
//   AC vol surf sense                    cross_boundary (sense: post-crossing, 1 = outside)
//   AN surf                              normal
//   B n  (then n x 6 numbers lo hi)      build a BIH with the real BIHBuilder and dump it
//   BQ px py pz mask                     BIHTraverser with predicate mask (string of 0/1)
#include <cmath>
#include <iostream>
#include <memory>
#include <sstream>
#include <string>
#include <vector>

#include "corecel/data/Collection.hh"
#include "corecel/data/CollectionBuilder.hh"
#include "corecel/data/CollectionMirror.hh"
#include "orange/OrangeData.hh"
#include "orange/OrangeTypes.hh"
#include "orange/detail/BIHBuilder.hh"
#include "orange/detail/BIHData.hh"
#include "orange/detail/BIHTraverser.hh"
#include "orange/detail/UniverseIndexer.hh"
#include "orange/univ/RectArrayTracker.hh"
#include "orange/univ/detail/Types.hh"

#include "../../../harness/common.hh"

using namespace celeritas;
using verif::hex;
using verif::rd;

namespace
{
template<class Id>
long idv(Id i)
{
    return i ? static_cast<long>(i.unchecked_get()) : -1L;
}

struct RectCtx
{
    HostVal<OrangeParamsData> val;
    HostCRef<OrangeParamsData> ref;
};

struct BihCtx
{
    BIHTreeData<Ownership::value, MemSpace::host> storage;
    BIHTreeData<Ownership::const_reference, MemSpace::host> ref;
    detail::BIHTree tree;
    size_type nvol{0};
};
}  // namespace

int main()
{
    std::ios::sync_with_stdio(false);
    std::unique_ptr<RectCtx> rect;
    std::unique_ptr<BihCtx> bih;
    std::string op;
    while (std::cin >> op)
    {
        std::ostringstream os;
        os << "@{\"k\":\"" << op << "\"";
        if (op == "I")
        {
            int n = int(rd(std::cin));
            std::vector<size_type> offs(n);
            for (auto& o : offs)
                o = size_type(rd(std::cin));
            UniverseIndexerData<Ownership::value, MemSpace::host> data;
            make_builder(&data.surfaces).insert_back(offs.begin(), offs.end());
            make_builder(&data.volumes).insert_back(offs.begin(), offs.end());
            CollectionMirror<UniverseIndexerData> mirror{std::move(data)};
            detail::UniverseIndexer indexer(mirror.host_ref());
            os << ",\"nuniv\":" << indexer.num_universes() << ",\"local\":[";
            for (size_type id = 0; id < offs.back(); ++id)
            {
                auto ls = indexer.local_surface(SurfaceId{id});
                auto lv = indexer.local_volume(VolumeId{id});
                os << (id ? "," : "") << "[" << idv(ls.universe) << ","
                   << idv(ls.surface) << "," << idv(lv.universe) << ","
                   << idv(lv.volume) << "]";
            }
            os << "],\"global\":[";
            bool first = true;
            for (size_type u = 0; u + 1 < offs.size(); ++u)
            {
                for (size_type l = 0; l < offs[u + 1] - offs[u]; ++l)
                {
                    os << (first ? "" : ",") << "[" << u << "," << l << ","
                       << idv(indexer.global_surface(UniverseId{u},
                                                     LocalSurfaceId{l}))
                       << ","
                       << idv(indexer.global_volume(UniverseId{u},
                                                    LocalVolumeId{l}))
                       << "]";
                    first = false;
                }
            }
            os << "]";
        }
        else if (op == "A")
        {
            rect = std::make_unique<RectCtx>();
            RectArrayRecord rec;
            RectArrayRecord::SurfaceIndexerData::Sizes sizes;
            auto reals = make_builder(&rect->val.reals);
            for (int ax = 0; ax < 3; ++ax)
            {
                int n = int(rd(std::cin));
                std::vector<real_type> g(n);
                for (auto& x : g)
                    x = rd(std::cin);
                rec.grid[ax] = reals.insert_back(g.begin(), g.end());
                rec.dims[ax] = n - 1;
                sizes[ax] = n;
            }
            rec.surface_indexer_data
                = RectArrayRecord::SurfaceIndexerData::from_sizes(sizes);
            make_builder(&rect->val.rect_arrays).push_back(rec);
            rect->ref = rect->val;
            os << ",\"dims\":[" << rec.dims[0] << "," << rec.dims[1] << ","
               << rec.dims[2] << "]";
        }
        else if (op == "AI" || op == "AX" || op == "AC" || op == "AN")
        {
            RectArrayTracker tracker(rect->ref, RectArrayId{0});
            detail::LocalState st;
            st.pos = {0, 0, 0};
            st.dir = {0, 0, 1};
            if (op == "AI")
            {
                st.pos = {rd(std::cin), rd(std::cin), rd(std::cin)};
                auto init = tracker.initialize(st);
                os << ",\"vol\":" << idv(init.volume);
            }
            else if (op == "AX")
            {
                st.volume = LocalVolumeId{size_type(rd(std::cin))};
                st.pos = {rd(std::cin), rd(std::cin), rd(std::cin)};
                st.dir = {rd(std::cin), rd(std::cin), rd(std::cin)};
                std::string mx;
                std::cin >> mx;
                detail::Intersection r
                    = (mx == "-") ? tracker.intersect(st)
                                  : tracker.intersect(
                                      st, std::strtod(mx.c_str(), nullptr));
                os << ",\"dist\":\"" << hex(r.distance) << "\",\"surf\":"
                   << idv(r.surface.id()) << ",\"sense\":"
                   << (r.surface ? int(r.surface.unchecked_sense()
                                       == Sense::outside)
                                 : -1);
            }
            else if (op == "AC")
            {
                st.volume = LocalVolumeId{size_type(rd(std::cin))};
                size_type s = size_type(rd(std::cin));
                int sense = int(rd(std::cin));
                st.surface = detail::OnLocalSurface{
                    LocalSurfaceId{s}, sense ? Sense::outside : Sense::inside};
                auto init = tracker.cross_boundary(st);
                os << ",\"vol\":" << idv(init.volume)
                   << ",\"surf\":" << idv(init.surface.id());
            }
            else
            {
                size_type s = size_type(rd(std::cin));
                Real3 n = tracker.normal(st.pos, LocalSurfaceId{s});
                os << ",\"n\":[" << n[0] << "," << n[1] << "," << n[2] << "]";
            }
        }
        else if (op == "B")
        {
            bih = std::make_unique<BihCtx>();
            int n = int(rd(std::cin));
            std::vector<FastBBox> bboxes;
            for (int i = 0; i < n; ++i)
            {
                double v[6];
                for (auto& x : v)
                    x = rd(std::cin);
                if (v[0] > v[3])
                    bboxes.push_back(FastBBox{});  // null
                else
                    bboxes.push_back(FastBBox::from_unchecked(
                        {fast_real_type(v[0]),
                         fast_real_type(v[1]),
                         fast_real_type(v[2])},
                        {fast_real_type(v[3]),
                         fast_real_type(v[4]),
                         fast_real_type(v[5])}));
            }
            bih->nvol = n;
            detail::BIHBuilder build(&bih->storage);
            bih->tree = build(std::move(bboxes));
            bih->ref = bih->storage;
            auto const& S = bih->ref;
            auto const& T = bih->tree;
            os << ",\"inner\":[";
            for (size_type i = 0; i < T.inner_nodes.size(); ++i)
            {
                auto const& nd = S.inner_nodes[T.inner_nodes[i]];
                using Edge = detail::BIHInnerNode::Edge;
                os << (i ? "," : "") << "[" << idv(nd.parent) << ","
                   << to_int(nd.axis) << ",\""
                   << hex(nd.bounding_planes[Edge::left].position) << "\","
                   << idv(nd.bounding_planes[Edge::left].child) << ",\""
                   << hex(nd.bounding_planes[Edge::right].position) << "\","
                   << idv(nd.bounding_planes[Edge::right].child) << "]";
            }
            os << "],\"leaves\":[";
            for (size_type i = 0; i < T.leaf_nodes.size(); ++i)
            {
                auto const& lf = S.leaf_nodes[T.leaf_nodes[i]];
                os << (i ? "," : "") << "[" << idv(lf.parent) << ",[";
                for (size_type k = 0; k < lf.vol_ids.size(); ++k)
                    os << (k ? "," : "")
                       << idv(S.local_volume_ids[lf.vol_ids[k]]);
                os << "]]";
            }
            os << "],\"inf\":[";
            for (size_type k = 0; k < T.inf_volids.size(); ++k)
                os << (k ? "," : "") << idv(S.local_volume_ids[T.inf_volids[k]]);
            os << "],\"bboxes\":[";
            for (size_type v = 0; v < bih->nvol; ++v)
            {
                auto const& bb = S.bboxes[T.bboxes[LocalVolumeId{v}]];
                os << (v ? "," : "") << "[";
                for (int k = 0; k < 3; ++k)
                    os << "\"" << hex(bb.lower()[k]) << "\",";
                for (int k = 0; k < 3; ++k)
                    os << "\"" << hex(bb.upper()[k]) << "\"" << (k < 2 ? "," : "");
                os << "]";
            }
            os << "]";
        }
        else if (op == "BQ")
        {
            Real3 p{rd(std::cin), rd(std::cin), rd(std::cin)};
            std::string mask;
            std::cin >> mask;
            detail::BIHTraverser traverse(bih->tree, bih->ref);
            int ncalls = 0;
            auto pred = [&](LocalVolumeId id) {
                ++ncalls;
                return id.unchecked_get() < mask.size()
                       && mask[id.unchecked_get()] == '1';
            };
            LocalVolumeId v = traverse(p, pred);
            os << ",\"vol\":" << idv(v) << ",\"ncalls\":" << ncalls;
        }
        else
        {
            os << ",\"unknown\":1";
        }
        os << "}";
        std::cout << os.str() << "\n";
    }
    return 0;
}
