// C03 correspondence / oracle-differential driver for the real ORANGE navigator.
//
// Reads a script on stdin, drives celeritas::OrangeTrackView (track slot 0) on
// real OrangeParams built from ORANGE JSON, and after every operation prints
// the complete navigation state plus *fresh initialisations* (track slot 1) at
// points just ahead of / behind the track (the oracle the property names).
//
// Script lines:
//   G <path.org.json>                 load geometry
//   R px py pz dx dy dz delta         initialise ray (delta = probe offset)
//   F                                 find_next_step()
//   L g                               find_next_step(g * d_unlimited); the unlimited
//                                     answer is computed on a copy in slot 2
//   M f                               move_internal(f * next_step)
//   B                                 move_to_boundary()
//   X                                 cross_boundary()
//   D ux uy uz                        set_dir
//   T n                               trace: (F B X) until outside, at most n crossings
//   Q px py pz                        pure point location query (no track state)
// Operations whose documented preconditions do not hold are skipped ("ok":0):
// the build has assertions compiled out, so the driver is the guard.
// Every output line starts with '@' followed by one JSON object.
#include <cmath>
#include <cstdio>
#include <fstream>
#include <iostream>
#include <memory>
#include <sstream>
#include <string>
#include <vector>

#include "corecel/data/CollectionStateStore.hh"
#include "corecel/math/ArrayUtils.hh"
#include "orange/OrangeData.hh"
#include "orange/OrangeInput.hh"
#include "orange/OrangeInputIO.json.hh"
#include "orange/OrangeParams.hh"
#include "orange/OrangeTrackView.hh"
#include "orange/detail/LevelStateAccessor.hh"

using namespace celeritas;
using StateStore = CollectionStateStore<OrangeStateData, MemSpace::host>;
using HostStateRef = HostRef<OrangeStateData>;

namespace
{
std::string hx(double x)
{
    char buf[64];
    if (std::isnan(x))
        return "\"nan\"";
    if (std::isinf(x))
        return x > 0 ? "\"inf\"" : "\"-inf\"";
    std::snprintf(buf, sizeof(buf), "\"%a\"", x);
    return buf;
}
std::string hx3(Real3 const& v)
{
    return "[" + hx(v[0]) + "," + hx(v[1]) + "," + hx(v[2]) + "]";
}
double rd(std::istream& is)
{
    std::string s;
    is >> s;
    return std::strtod(s.c_str(), nullptr);
}

struct Driver
{
    std::shared_ptr<OrangeParams> params;
    std::unique_ptr<StateStore> store;
    double delta{1e-4};
    bool have_ray{false};
    // did we cross (or no-op cross) since arriving on the current surface?
    bool crossed{false};
    // OrangeTrackView::failed() is a member of the (temporary) view object:
    // accumulate it over the operations of a ray
    bool failed{false};

    OrangeTrackView view(unsigned slot)
    {
        return OrangeTrackView(
            params->host_ref(), store->ref(), TrackSlotId{slot});
    }

    // stack of (universe, local volume) for a slot, as JSON; "f" if failed
    std::string stack_json(unsigned slot)
    {
        auto const& st = store->ref();
        TrackSlotId tid{slot};
        auto level = st.level[tid];
        std::ostringstream os;
        os << "[";
        for (unsigned l = 0; l <= level.unchecked_get(); ++l)
        {
            detail::LevelStateAccessor lsa(&st, tid, LevelId{l});
            if (l)
                os << ",";
            os << "[" << lsa.universe().unchecked_get() << ","
               << static_cast<long>(lsa.vol() ? long(lsa.vol().unchecked_get())
                                              : -1L)
               << "]";
        }
        os << "]";
        return os.str();
    }

    // fresh initialisation at p; returns "" on failure
    std::string fresh(Real3 const& p, Real3 const& d)
    {
        auto g = this->view(1);
        g = GeoTrackInitializer{p, d};
        if (g.failed())
            return "";
        return this->stack_json(1);
    }

    // stable fresh location: same answer at p and at 6 neighbours eps away
    std::string probe(Real3 const& p, Real3 const& d, double eps)
    {
        std::string s0 = this->fresh(p, d);
        if (s0.empty())
            return "null";
        for (int ax = 0; ax < 3; ++ax)
        {
            for (int sg = -1; sg <= 1; sg += 2)
            {
                Real3 q = p;
                q[ax] += sg * eps;
                if (this->fresh(q, d) != s0)
                    return "null";
            }
        }
        return s0;
    }

    Real3 along(Real3 const& p, Real3 const& d, double t)
    {
        return {p[0] + t * d[0], p[1] + t * d[1], p[2] + t * d[2]};
    }

    void emit(std::string const& op, bool ok, std::string const& extra)
    {
        auto g = this->view(0);
        auto const& st = store->ref();
        TrackSlotId tid{0};
        std::ostringstream os;
        os << "@{\"op\":\"" << op << "\",\"ok\":" << (ok ? 1 : 0);
        if (have_ray)
        {
            auto vid = g.volume_id();
            os << ",\"vol\":" << (vid ? long(vid.unchecked_get()) : -1L);
            os << ",\"lev\":" << st.level[tid].unchecked_get();
            os << ",\"onb\":" << (g.is_on_boundary() ? 1 : 0);
            os << ",\"out\":" << (g.is_outside() ? 1 : 0);
            os << ",\"fail\":" << (failed ? 1 : 0);
            os << ",\"bflag\":"
               << (st.boundary[tid] == BoundaryResult::reentrant ? 1 : 0);
            auto sl = st.surface_level[tid];
            os << ",\"slev\":" << (sl ? long(sl.unchecked_get()) : -1L);
            os << ",\"surf\":"
               << (sl && st.surf[tid] ? long(st.surf[tid].unchecked_get())
                                      : -1L);
            os << ",\"sense\":" << (sl ? int(st.sense[tid]) : -1);
            os << ",\"nstep\":" << hx(st.next_step[tid]);
            auto ns = st.next_surf[tid];
            os << ",\"nsurf\":" << (ns ? long(ns.unchecked_get()) : -1L);
            os << ",\"nsense\":" << (ns ? int(st.next_sense[tid]) : -1);
            os << ",\"nlev\":"
               << (ns && st.next_level[tid]
                       ? long(st.next_level[tid].unchecked_get())
                       : -1L);
            os << ",\"crossed\":" << (crossed ? 1 : 0);
            os << ",\"pos\":" << hx3(g.pos()) << ",\"dir\":" << hx3(g.dir());
            os << ",\"stack\":" << this->stack_json(0);
            // oracle probes
            Real3 p = g.pos();
            Real3 d = g.dir();
            double eps = delta / 4;
            os << ",\"pp\":" << this->probe(along(p, d, delta), d, eps);
            os << ",\"ph\":" << this->probe(along(p, d, delta / 2), d, eps);
            os << ",\"pm\":" << this->probe(along(p, d, -delta), d, eps);
            if (!g.is_on_boundary())
            {
                os << ",\"p0\":" << this->probe(p, d, eps);
            }
        }
        os << extra << "}";
        std::cout << os.str() << "\n";
    }

    bool has_next_step() { return store->ref().next_step[TrackSlotId{0}] != 0; }
    bool has_next_surf()
    {
        return static_cast<bool>(store->ref().next_surf[TrackSlotId{0}]);
    }
    bool reentrant()
    {
        return store->ref().boundary[TrackSlotId{0}]
               == BoundaryResult::reentrant;
    }

    std::string do_find(bool& ok)
    {
        auto g = this->view(0);
        ok = true;
        Propagation r = g.find_next_step();
        std::ostringstream ex;
        ex << ",\"res\":[" << hx(r.distance) << "," << (r.boundary ? 1 : 0)
           << "]";
        // interior probes of the segment [0, d): the track claims to stay in
        // the same volume all the way
        if (r.boundary && r.distance > 8 * delta && std::isfinite(r.distance)
            && !g.is_outside())
        {
            Real3 p = g.pos();
            Real3 d = g.dir();
            ex << ",\"seg\":[";
            double const fr[] = {0.211, 0.5, 0.823};
            for (int i = 0; i < 3; ++i)
            {
                if (i)
                    ex << ",";
                ex << "[" << hx(fr[i] * r.distance) << ","
                   << this->probe(along(p, d, fr[i] * r.distance), d, delta / 4)
                   << "]";
            }
            ex << "]";
        }
        return ex.str();
    }

    void run(std::istream& in)
    {
        std::string line;
        while (std::getline(in, line))
        {
            if (line.empty() || line[0] == '#')
                continue;
            std::istringstream is(line);
            std::string op;
            is >> op;
            if (op == "G")
            {
                std::string path;
                is >> path;
                have_ray = false;
                try
                {
                    OrangeInput inp;
                    std::ifstream f(path);
                    if (!f)
                        throw std::runtime_error("cannot open " + path);
                    f >> inp;
                    params = std::make_shared<OrangeParams>(std::move(inp));
                    store = std::make_unique<StateStore>(params->host_ref(), 3);
                    std::cout << "@{\"op\":\"G\",\"ok\":1,\"depth\":"
                              << params->max_depth() << ",\"nvol\":"
                              << params->volumes().size() << "}\n";
                }
                catch (std::exception const& e)
                {
                    params.reset();
                    std::string m = e.what();
                    for (auto& c : m)
                        if (c == '"' || c == '\n' || c == '\\')
                            c = ' ';
                    std::cout << "@{\"op\":\"G\",\"ok\":0,\"err\":\""
                              << m.substr(0, 300) << "\"}\n";
                }
                continue;
            }
            if (!params)
            {
                std::cout << "@{\"op\":\"" << op << "\",\"ok\":0,\"nogeo\":1}\n";
                continue;
            }
            if (op == "Q")
            {
                Real3 p{rd(is), rd(is), rd(is)};
                std::string s = this->fresh(p, Real3{0, 0, 1});
                std::cout << "@{\"op\":\"Q\",\"ok\":1,\"loc\":"
                          << (s.empty() ? "null" : s) << "}\n";
                continue;
            }
            if (op == "R")
            {
                Real3 p{rd(is), rd(is), rd(is)};
                Real3 d{rd(is), rd(is), rd(is)};
                delta = rd(is);
                auto g = this->view(0);
                g = GeoTrackInitializer{p, d};
                have_ray = true;
                crossed = false;
                failed = g.failed();
                this->emit("R", true, "");
                continue;
            }
            if (!have_ray)
            {
                std::cout << "@{\"op\":\"" << op << "\",\"ok\":0,\"noray\":1}\n";
                continue;
            }
            auto g = this->view(0);
            // on a boundary reached by move_to_boundary and not yet crossed:
            // the only documented continuation is cross_boundary (possibly
            // after set_dir); a search from there is only meaningful when the
            // flag is re-entrant (it then returns {0, true} without side effect)
            bool const precross = g.is_on_boundary() && !crossed;
            if (op == "F")
            {
                if (precross && !this->reentrant())
                {
                    this->emit("F", false, "");
                    continue;
                }
                bool ok;
                std::string ex = this->do_find(ok);
                this->emit("F", ok, ex);
            }
            else if (op == "L")
            {
                double gfac = rd(is);
                if (precross || this->reentrant())
                {
                    this->emit("L", false, "");
                    continue;
                }
                // unlimited answer on a copy
                auto g2 = this->view(2);
                g2 = OrangeTrackView::DetailedInitializer{g, g.dir()};
                Propagation u = g2.find_next_step();
                double mx = gfac * u.distance;
                if (!(mx > 0) || !std::isfinite(mx))
                {
                    this->emit("L", false, "");
                    continue;
                }
                Propagation r = g.find_next_step(mx);
                std::ostringstream ex;
                ex << ",\"res\":[" << hx(r.distance) << ","
                   << (r.boundary ? 1 : 0) << "],\"unl\":[" << hx(u.distance)
                   << "," << (u.boundary ? 1 : 0) << "],\"max\":" << hx(mx);
                this->emit("L", true, ex.str());
            }
            else if (op == "M")
            {
                double f = rd(is);
                double ns = store->ref().next_step[TrackSlotId{0}];
                double dist = f * ns;
                bool ok = this->has_next_step() && dist > 0 && dist <= ns
                          && (dist != ns || !this->has_next_surf())
                          && std::isfinite(dist);
                if (ok)
                {
                    g.move_internal(dist);
                    crossed = false;
                }
                std::ostringstream ex;
                ex << ",\"moved\":" << hx(ok ? dist : 0.0);
                this->emit("M", ok, ex.str());
            }
            else if (op == "P")
            {
                // move_internal(pos) to the point pos + f * next_step * dir
                double f = rd(is);
                double ns = store->ref().next_step[TrackSlotId{0}];
                double dist = f * ns;
                bool ok = this->has_next_step() && dist > 0 && dist < ns
                          && std::isfinite(dist);
                if (ok)
                {
                    Real3 p = g.pos();
                    Real3 u = g.dir();
                    Real3 q{p[0] + dist * u[0], p[1] + dist * u[1], p[2] + dist * u[2]};
                    g.move_internal(q);
                    crossed = false;
                }
                std::ostringstream ex;
                ex << ",\"moved\":" << hx(ok ? dist : 0.0);
                this->emit("P", ok, ex.str());
            }
            else if (op == "B")
            {
                bool ok = !this->reentrant() && this->has_next_step()
                          && this->has_next_surf();
                double ns = store->ref().next_step[TrackSlotId{0}];
                if (ok)
                {
                    g.move_to_boundary();
                    crossed = false;
                }
                std::ostringstream ex;
                ex << ",\"moved\":" << hx(ok ? ns : 0.0);
                this->emit("B", ok, ex.str());
            }
            else if (op == "X" || op == "Y")
            {
                // Y: only resolve a re-entrant flag (no-op crossing)
                bool ok = g.is_on_boundary() && !this->has_next_step()
                          && !(crossed && !this->reentrant())
                          && (op == "X" || this->reentrant());
                if (ok)
                {
                    g.cross_boundary();
                    failed = failed || g.failed();
                    crossed = true;
                }
                this->emit(op, ok, "");
            }
            else if (op == "D")
            {
                Real3 u{rd(is), rd(is), rd(is)};
                g.set_dir(u);
                this->emit("D", true, "");
            }
            else if (op == "T")
            {
                int n = int(rd(is));
                int k = 0;
                for (; k < n && !g.is_outside() && !failed; ++k)
                {
                    bool ok;
                    std::string ex = this->do_find(ok);
                    this->emit("F", ok, ex + ",\"t\":1");
                    if (!(this->has_next_step() && this->has_next_surf())
                        && !this->reentrant())
                        break;
                    if (!this->reentrant())
                    {
                        double ns = store->ref().next_step[TrackSlotId{0}];
                        g.move_to_boundary();
                        crossed = false;
                        this->emit("B", true, ",\"t\":1,\"moved\":" + hx(ns));
                    }
                    g.cross_boundary();
                    failed = failed || g.failed();
                    crossed = true;
                    this->emit("X", true, ",\"t\":1");
                }
                std::ostringstream ex;
                ex << ",\"ncross\":" << k << ",\"exited\":"
                   << (g.is_outside() ? 1 : 0);
                this->emit("T", true, ex.str());
            }
            else
            {
                std::cout << "@{\"op\":\"" << op << "\",\"ok\":0,\"unknown\":1}\n";
            }
        }
    }
};
}  // namespace

int main()
{
    std::ios::sync_with_stdio(false);
    Driver d;
    d.run(std::cin);
    return 0;
}
