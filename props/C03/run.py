"""C03 — ORANGE navigation vs. true point location.

1. Coq proofs (Properties_C03.v): logic walk, minimum over levels, track-view
   state machine, limited search, set_dir re-entrant law (+ refutation of the
   pre-fix variant on the F1 witness).
2. Oracle differential on the *real* navigator (harness/nav.cc): generated and
   bundled geometries, op programs respecting the call order; after every op a
   fresh initialisation at pos +- delta*dir in a second track slot must agree
   with the navigator's volume stack (outside the tolerance band); limited
   search = truncated unlimited search; the ray leaves the world.
3. Correspondence: the Gallina float model (coq/C03/NavModel.v, run by
   vm_compute) replays the same programs; compared per op.
"""
import json
import math
import os
import random
import threading
import sys

import vlib
from vlib import hexf, close

HERE = os.path.dirname(os.path.abspath(__file__))
sys.path.insert(0, HERE)
import geom   # noqa: E402
import gen    # noqa: E402
import coqgeo  # noqa: E402
import auxcheck  # noqa: E402

DELTA = 1e-4
KNOWN_SIG = "set_dir-reversal-after-cross_boundary"


def hf(x):
    if isinstance(x, str):
        if x in ("inf", "-inf", "nan"):
            return float(x)
        return float.fromhex(x)
    return float(x)


def stk(s):
    return None if s is None else tuple((a, b) for a, b in s)


# ---------------------------------------------------------------------------
# scenario = geometry file + list of rays (start, dir, ops)

def f1_geometry(turn=0.125):
    """the design-phase witness geometry (finding F1)"""
    from geom import Unit, Vol, Geometry
    W = Unit("world")
    bl = gen.add_shape(W, gen.shape_box([0.0, 0.0, 0.0], [10.0] * 3))
    c, s = math.cos(2 * math.pi * turn), math.sin(2 * math.pi * turn)
    m = [[c, -s, 0.0], [s, c, 0.0], [0.0, 0.0, 1.0]]
    dl = gen.add_shape(W, gen.shape_rotbox([0.0, 0.0, 0.0], [2.0] * 3, m))
    W.volumes = [Vol(('not', ('and', bl)), 'X', 'exterior'), Vol(('and', dl), None, 'placeholder'),
                 Vol(('and', list(bl) + [('not', ('and', dl))]), None, 'world')]
    W.daughters[1] = (1, [c, -s, 0.0, s, c, 0.0, 0.0, 0.0, 1.0, 0.0, 0.0, 0.0])
    D = Unit("daughter")
    sp = D.add_surface('sc', [0.25])
    D.volumes = [Vol(('false',), 'x', 'dext'), Vol(('s', sp, False), None, 'inner'),
                 Vol(('s', sp, True), None, 'dfill')]
    return Geometry([W, D])


def nest3_geometry():
    """world sphere r 50 > middle (Rz 90, t=(1,2,3)) > inner (Rx 90, t=(-2,0,1)) with plane x = 0.5
    and a sphere r 3 around it; returns (geometry, {side: global start point})"""
    from geom import Unit, Vol, Geometry
    W = Unit("world")
    sw = W.add_surface('sc', [2500.0])
    W.volumes = [Vol(('s', sw, True), 'X', 'ext'), Vol(('s', sw, False), None, 'all')]
    t0 = [0.0, -1.0, 0.0, 1.0, 0.0, 0.0, 0.0, 0.0, 1.0, 1.0, 2.0, 3.0]
    W.daughters[1] = (1, t0)
    M = Unit("middle")
    sm = M.add_surface('s', [-2.0, 0.0, 1.0, 36.0])
    M.volumes = [Vol(('false',), 'x', 'mext'), Vol(('s', sm, False), None, 'hole'), Vol(('s', sm, True), None, 'mfill')]
    t1 = [1.0, 0.0, 0.0, 0.0, 0.0, -1.0, 0.0, 1.0, 0.0, -2.0, 0.0, 1.0]
    M.daughters[1] = (2, t1)
    I = Unit("inner")
    pl = I.add_surface('px', [0.5])
    I.volumes = [Vol(('false',), 'x', 'iext'), Vol(('s', pl, False), None, 'lo'), Vol(('s', pl, True), None, 'hi')]
    g = Geometry([W, M, I])
    up = lambda p: gen.t_up_point(t0, gen.t_up_point(t1, p))
    return g, {"lo": up([-0.7, 0.3, 0.2]), "hi": up([1.7, 0.3, 0.2])}


def corpus_scenarios():
    """minimised past disagreements, run first"""
    out = []
    u = gen.normalize([0.6, 0.8, 0.0])
    # F1: set_dir right after crossing into a rotated daughter; with the
    # pre-fix code the flag is not flipped and move_internal desynchronises
    prog = ["F", "B", "X", "D " + gen.fmt_dir(u), "F", "Y", "F", "M " + float(0.03).hex(), "F", "T 50"]
    out.append(("corpus-F1", f1_geometry(0.125), [([-5.0, 0.5, 0.0], [1.0, 0.0, 0.0], prog)]))
    # set_dir *before* crossing out of the daughter through a level-0 surface
    # while level = 1: the true normal (0.707,0.707,0) says the new direction
    # re-enters, the pre-fix normal (rotated once more: (0,1,0)) says exiting
    prog2 = ["F", "B", "D " + gen.fmt_dir(gen.normalize([-0.8, 0.3, 0.0])), "F", "X", "F",
             "M " + float(0.5).hex(), "F", "T 50"]
    out.append(("corpus-F1-pre", f1_geometry(0.125), [([1.0, 0.3, 0.0], [1.0, 0.0, 0.0], prog2)]))
    # three nested units, placements Rz(90)+t and Rx(90)+t (non-commuting): set_dir on a
    # plane of the innermost unit (surface level 2), before and after crossing.  The true
    # global normal of the plane is +y; composing the rotations in the wrong order gives +z
    g3, starts = nest3_geometry()
    for gd_old, gd_new in (([0.0, 0.8, -0.6], [0.0, -0.8, -0.6]), ([0.0, 0.8, -0.6], [0.0, 0.8, 0.6]),
                           ([0.0, -0.8, 0.6], [0.0, 0.8, 0.6]), ([0.0, 0.6, 0.8], [0.0, -0.6, 0.8])):
        side = "lo" if gd_old[1] > 0 else "hi"
        pre = ["F", "B", "D " + gen.fmt_dir(gd_new), "F", "X", "F", "M 0x1p-2", "F", "T 50"]
        post = ["F", "B", "X", "D " + gen.fmt_dir(gd_new), "F", "Y", "F", "M 0x1p-2", "F", "T 50"]
        out.append(("corpus-nest3-%s-%d" % (side, len(out)), g3,
                    [(starts[side], gd_old, pre), (starts[side], gd_old, post)]))
    # limited search with max exactly equal to the distance of a daughter-level boundary
    out.append(("corpus-limited-tie", f1_geometry(0.125),
                [([0.1, 0.05, 0.02], [1.0, 0.0, 0.0], ["L 0x1p+0", "M 0x1p-1", "F", "T 50"]),
                 ([-5.0, 0.3, 0.0], [1.0, 0.0, 0.0], ["L 0x1p+0", "B", "X", "F", "T 50"])]))
    for turn in (0.0, 0.25, 0.0625):
        out.append(("corpus-F1-turn%g" % turn, f1_geometry(turn),
                    [([-5.0, 0.5, 0.0], [1.0, 0.0, 0.0], prog), ([1.0, 0.3, 0.0], [1.0, 0.0, 0.0], prog2)]))
    return out


BUNDLED = ["five-volumes.org.json", "universes.org.json", "rect-array.org.json",
           "nested-rect-arrays.org.json", "inputbuilder-hierarchy.org.json",
           "inputbuilder-universes.org.json", "inputbuilder-bgspheres.org.json",
           "inputbuilder-globalspheres.org.json", "testem3.org.json", "hex-array.org.json",
           "inputbuilder-incomplete-bb.org.json"]


def bundled_ray(r, lo, hi):
    p = [r.uniform(lo[i], hi[i]) for i in range(3)]
    k = r.random()
    if k < 0.25:
        d = [0.0, 0.0, 0.0]
        d[r.randrange(3)] = r.choice([-1.0, 1.0])
    elif k < 0.6:
        c = [(lo[i] + hi[i]) / 2 + r.uniform(-0.2, 0.2) * (hi[i] - lo[i]) for i in range(3)]
        d = [c[i] - p[i] for i in range(3)]
        d = gen.normalize(d) if sum(x * x for x in d) > 1e-6 else gen.unit_vec(r)
    else:
        d = gen.unit_vec(r)
    return p, d


# ---------------------------------------------------------------------------

class Checker:
    """oracle comparisons on the records of one ray"""

    def __init__(self, ctx, name, ray_id, start, direction, ops, geo):
        self.ctx = ctx
        self.name = name
        self.rid = ray_id
        self.start = start
        self.dir0 = direction
        self.ops = ops
        self.geo = geo
        self.issues = []
        self.recs = []
        self._invalid = False
        self._scanned = 0
        self.poisoned = False

    def invalid_partition_on_path(self, upto):
        """Does the ray (records 0..upto: positions, probe and segment points) touch a point
        where the geometry DEFINITION is not a partition (two volumes of one unit contain it,
        or none)?  Then the input violates the property's "valid geometry" hypothesis there
        (e.g. the shipped universes.org.json: volume 'c' of universe 'inner' contains the
        masked volume 'inner_c') and the navigator's answer is not judged on this ray."""
        if self.geo is None:
            return False
        if self._invalid:
            return True
        while self._scanned <= upto and self._scanned < len(self.recs):
            r = self.recs[self._scanned]
            self._scanned += 1
            if "pos" not in r:
                continue
            p = [hf(x) for x in r["pos"]]
            d = [hf(x) for x in r["dir"]]
            ts = [0.0, DELTA, -DELTA] + [hf(t) for t, _ in r.get("seg", [])]
            for t in ts:
                st, _, note = self.geo.locate([p[k] + t * d[k] for k in range(3)])
                if st is None and (note.startswith("overlap") or note.startswith("gap")):
                    self._invalid = True
                    return True
        return False

    def issue(self, kind, i, what, sig=None, **kw):
        if kind not in ("position", "limited-search", "state") and self.invalid_partition_on_path(i):
            self.ctx.count("not-judged:invalid-partition-region")
            self.poisoned = True
            return
        self.issues.append({"kind": kind, "op_index": i, "what": what, "signature": sig, "detail": kw})

    def run(self, recs):
        ctx = self.ctx
        self.recs = recs
        pending = None       # (index, expected-ahead stack, nav stack, label)
        prev = None
        for i, r in enumerate(recs):
            op = r["op"]
            if op == "T":
                if not self.poisoned:
                    if not r.get("exited"):
                        self.issue("no-exit", i, "ray did not leave the world within %d crossings" % r.get("ncross", -1))
                continue
            if not r.get("ok"):
                ctx.count("op-skipped:" + op)
                prev = r if "stack" in r else prev
                continue
            ctx.count("op:" + op + (":lvl%d" % r["lev"]))
            S = stk(r["stack"])
            pp, ph, pm = stk(r.get("pp")), stk(r.get("ph")), stk(r.get("pm"))
            p0 = stk(r.get("p0"))
            if self.poisoned:
                prev = r
                continue
            if r.get("fail"):
                if pp is not None or p0 is not None:
                    self.issue("lost", i, "navigator reported failure (lost track) at a point with a stable location")
                self.poisoned = True
                prev = r
                continue
            # position bookkeeping
            if op in ("M", "B", "P") and prev is not None:
                mv = hf(r["moved"])
                exp = [hf(prev["pos"][k]) + mv * hf(prev["dir"][k]) for k in range(3)]
                got = [hf(x) for x in r["pos"]]
                if not close(exp, got, rtol=1e-9, atol=1e-11):
                    self.issue("position", i, "position after %s is not pos + d*dir" % op, expected=exp, got=got)
            if op in ("F", "L"):
                d = hf(r["res"][0])
                if pending is not None:
                    j, label = pending
                    pr = recs[j]
                    a, h = stk(pr.get("pp")), stk(pr.get("ph"))
                    if d >= 3 * DELTA and a is not None and a == h:
                        if a != stk(pr["stack"]):
                            self.issue("desync", j, "after %s the navigator's volume stack differs from a fresh "
                                       "initialisation just ahead" % label, nav=pr["stack"], fresh=pr["pp"])
                        else:
                            ctx.count("agree:ahead:" + label)
                    else:
                        ctx.count("unchecked:ahead")
                    pending = None
                if op == "F" and "seg" in r:
                    for t, loc in r["seg"]:
                        loc = stk(loc)
                        if loc is None:
                            ctx.count("unchecked:segment")
                        elif loc != S:
                            self.issue("skipped-boundary", i, "a point strictly inside the reported step lies in "
                                       "another volume", at=hf(t), nav=r["stack"], fresh=list(loc))
                            break
                        else:
                            ctx.count("agree:segment")
                if op == "L":
                    ud, ub = hf(r["unl"][0]), r["unl"][1]
                    mx = hf(r["max"])
                    exp = (ud, 1) if (ub and ud <= mx) else (mx, 0)
                    got = (d, r["res"][1])
                    if ub and ud == mx and got == (mx, 0) and r["lev"] > 0:
                        # knife-edge max == distance: a boundary of a daughter level at exactly
                        # max is not reported (level 0 would be): documented in NOTES.md,
                        # proved as C03_limited_search_tie_refuted; accepted either way
                        ctx.count("limited:tie-at-daughter-level-not-reported")
                    elif exp != got:
                        self.issue("limited-search", i, "find_next_step(max) is not the truncated unlimited answer",
                                   max=mx, unlimited=[ud, ub], got=list(got))
                    else:
                        ctx.count("agree:limited:" + ("found" if got[1] else "cut"))
            elif op in ("R", "M", "P") or (op == "D" and not r["onb"]):
                if p0 is None:
                    ctx.count("unchecked:here")
                elif p0 != S:
                    self.issue("desync", i, "after %s the navigator's volume stack differs from a fresh "
                               "initialisation at the same point" % op, nav=r["stack"], fresh=r["p0"])
                else:
                    ctx.count("agree:here:" + op)
                if op == "R":
                    # third opinion: definition-based locate written in Python
                    loc, margin, _ = self.geo.locate([hf(x) for x in r["pos"]]) if self.geo else (None, 0, "")
                    if loc is not None and margin > 10 * DELTA and p0 is not None:
                        if tuple(loc) != p0:
                            self.issue("locate", i, "fresh initialisation differs from point location by pure "
                                       "logic evaluation of the geometry definition", fresh=r["p0"], definition=loc)
                        else:
                            ctx.count("agree:definition")
                if op == "P" and (r["onb"] or hf(r["nstep"]) != 0.0 or r["nsurf"] >= 0):
                    self.issue("state", i, "move_internal(pos) did not clear the surface / cached step")
                if op in ("M", "P") and self.geo is not None:
                    loc, margin, _ = self.geo.locate([hf(x) for x in r["pos"]])
                    if loc is not None and margin > 10 * DELTA:
                        if tuple(loc) != S:
                            self.issue("desync", i, "after M the navigator's volume stack differs from point location "
                                       "by pure logic evaluation of the geometry definition",
                                       nav=r["stack"], definition=loc)
                        else:
                            ctx.count("agree:definition")
            elif op == "B":
                if hf(r["moved"]) >= 3 * DELTA and pm is not None:
                    if pm != S:
                        self.issue("desync", i, "after move_to_boundary the navigator's (pre-crossing) volume differs "
                                   "from a fresh initialisation just behind", nav=r["stack"], fresh=r["pm"])
                    else:
                        ctx.count("agree:behind:B")
                else:
                    ctx.count("unchecked:behind")
                if not r["onb"]:
                    self.issue("state", i, "not on boundary after move_to_boundary")
            elif op in ("X", "Y"):
                pending = (i, "cross_boundary")
            elif op == "D":     # on a boundary
                ctx.count("setdir-on-boundary:%s:slev%d:lev%d:%s" % (
                    "post" if r["crossed"] else "pre", r["slev"], r["lev"], "reentrant" if r["bflag"] else "exiting"))
                if not r["crossed"]:
                    if r["bflag"]:
                        if pp is not None and pp == ph:
                            if pp != S:
                                self.issue("set_dir-flag", i, "re-entrant flag set before crossing but the new "
                                           "direction leaves the current volume", nav=r["stack"], ahead=r["pp"])
                            else:
                                ctx.count("agree:setdir-pre-reentrant")
                    else:
                        if pp is not None and pp == ph and pm is not None:
                            if pp == S and pm != S:
                                self.issue("set_dir-flag", i, "flag says exiting before crossing but the new direction "
                                           "re-enters the current volume", nav=r["stack"], ahead=r["pp"], behind=r["pm"])
                            else:
                                ctx.count("agree:setdir-pre-exiting")
                else:
                    if r["bflag"]:
                        if pp is not None and pp == ph:
                            if pp != S:
                                # genuine reversal after the logical crossing: the following
                                # cross_boundary is a no-op (finding, see NOTES.md)
                                self.issue("desync", i, "set_dir reversed the track after cross_boundary: the "
                                           "re-entrant flag makes the next cross_boundary a no-op, the navigator "
                                           "stays in the entered volume", KNOWN_SIG, nav=r["stack"], ahead=r["pp"])
                                self.poisoned = True
                            else:
                                self.issue("set_dir-flag", i, "re-entrant flag set after crossing although the new "
                                           "direction stays in the entered volume", nav=r["stack"], ahead=r["pp"])
                        else:
                            self.poisoned = True   # undecidable near-tangent reversal: stop judging this ray
                    else:
                        pending = (i, "set_dir-after-cross")
            prev = r
        return self.issues


# ---------------------------------------------------------------------------

def build_scenarios(ctx):
    r = ctx.rng
    quick = ctx.tier == "quick"
    n_geo = 60 if quick else 700
    n_arr = 12 if quick else 100
    rays_per = 6 if quick else 10
    scen = corpus_scenarios()
    for gi in range(n_geo):
        basic = (gi % 3 == 0)
        g = gen.gen_geometry(r, basic=basic)
        rays = []
        for _ in range(rays_per):
            pd = gen.gen_ray(r, g)
            if pd is None:
                continue
            rays.append((pd[0], pd[1], gen.gen_program(r, r.choice([3, 5, 8]), pd[1])))
        if rays:
            scen.append(("gen%d%s" % (gi, "b" if basic else ""), g, rays))
    n_deep = 30 if quick else 300
    for gi in range(n_deep):
        g = gen.gen_deep_geometry(r, basic=(gi % 2 == 0))
        rays = []
        for _ in range(rays_per + 2):
            pd = gen.gen_ray(r, g)
            if pd is None:
                continue
            rays.append((pd[0], pd[1], gen.gen_program(r, r.choice([4, 6, 8]), pd[1], boundary_heavy=True)))
        if rays:
            scen.append(("deep%d%s" % (gi, "b" if gi % 2 == 0 else ""), g, rays))
    # single-unit geometries traced to the exit: tie of the unit-level theorems
    # (coq/C03/UnitWalk.v nav_trace, see coqgeo.run_unit_trace_comparison)
    n_unit = 14 if quick else 120
    for gi in range(n_unit):
        g = gen.gen_geometry(r, basic=(gi % 3 == 0), depth=1)
        rays = []
        for _ in range(rays_per):
            pd = gen.gen_ray(r, g)
            if pd is None:
                continue
            rays.append((pd[0], pd[1], ["T 60"]))
        if rays:
            scen.append(("unit%d" % gi, g, rays))
    for gi in range(n_arr):
        g = gen.gen_array_geometry(r)
        rays = []
        for _ in range(rays_per):
            pd = gen.gen_ray(r, g)
            if pd is None:
                continue
            rays.append((pd[0], pd[1], gen.gen_program(r, r.choice([3, 5, 8]), pd[1])))
        if rays:
            scen.append(("arr%d" % gi, g, rays))
    return scen


def bundled_scenarios(ctx):
    r = ctx.rng
    out = []
    d = os.path.join(vlib.REPO, "test", "orange", "data")
    nr = 8 if ctx.tier == "quick" else 60
    for fn in BUNDLED:
        p = os.path.join(d, fn)
        if not os.path.exists(p):
            continue
        j = json.load(open(p))
        bb = None
        u0 = j["universes"][0]
        if u0.get("bbox"):
            bb = u0["bbox"]
        if not bb:
            bb = [[-10, -10, -10], [10, 10, 10]]
        lo = [max(-200.0, float(x)) for x in bb[0]]
        hi = [min(200.0, float(x)) for x in bb[1]]
        try:
            g = geom.from_json(j)
        except Exception:
            g = None
        rays = []
        if fn == "universes.org.json":
            # corpus: the ray reported by C11 -- it passes through the region where volume 'c' of
            # universe 'inner' overlaps the masked volume 'inner_c' (the shipped logic of 'c' is
            # (inner_c | ~a) & ~b): not a partition there, so the ray must NOT be judged
            dd = gen.normalize([-0.778, 0.380, -0.5])
            st0 = [0.6017 - 0.2508 * dd[0], -3.7217 - 0.2508 * dd[1], 1.1379 - 0.2508 * dd[2]]
            rays.append((st0, dd, ["F", "M 0x1p-1", "F", "T 30"]))
        for _ in range(nr):
            pnt, dr = bundled_ray(r, lo, hi)
            rays.append((pnt, dr, gen.gen_program(r, r.choice([3, 6]), dr)))
        out.append((fn, p, g, rays))
    return out


def run(ctx):
    ctx.trusted += [
        "hand-written model coq/C03/{LogicWalk,Surfaces,NavModel}.v tied by per-op differential against the real OrangeTrackView (props/C03/run.py, harness/nav.cc)",
        "fresh initialisation in a second track slot as location oracle, itself cross-checked against a definition-based point location written in Python (props/C03/geom.py) and in Gallina (locate)",
        "float instance of Num (Base/NumF.v): + - * / sqrt are IEEE binary64 like the C++; fma modelled as a*b+c (difference O(ulp))",
        "gap R vs binary64 rounding (DESIGN.md 3.1); BIH search modelled as linear search",
    ]
    ctx.assumptions += [
        "geometries are valid: the volumes of each unit partition space (generator: by construction; bundled: as shipped)",
        "start points are >= 1e-3 from every surface; comparisons only where the fresh location is stable in a ball of radius delta/4 (delta = 1e-4 >= 100 tol)",
        "call order: find_next_step before move_*; cross_boundary only on a boundary without a pending step; on a not-yet-crossed boundary only set_dir/cross_boundary",
    ]
    proofs_ok = ctx.coq_prove("Properties_C03.v")
    model_ok, _ = ctx.coq_build(["C03/Run.vo", "C03/Indexer.vo", "C03/RectArray.vo", "C03/BIH.vo"])
    ctx.build_libs(["orange"])
    exe = ctx.compile_harness([os.path.join(HERE, "harness", "nav.cc")], "nav",
                              libs=["orange", "geocel", "corecel"])
    # ---- auxiliary models (UniverseIndexer, RectArrayTracker, BIHTraverser) vs the real classes;
    # runs in a thread next to the navigator harness (own harness, own Coq files, own PRNG
    # derived from the seed so that the main stream does not depend on thread timing)
    aux_state = {}

    def aux_job():
        try:
            aux_state["n"] = auxcheck.run_aux(ctx, HERE, random.Random("C03-aux-%s" % ctx.seed))
        except BaseException as e:      # re-raised in the main thread
            aux_state["err"] = e
    aux_thread = None
    if model_ok:
        aux_thread = threading.Thread(target=aux_job)
        aux_thread.start()
    gdir = os.path.join(ctx.work, "geo")
    os.makedirs(gdir, exist_ok=True)
    scen = build_scenarios(ctx)
    bund = bundled_scenarios(ctx)
    # ---- script
    lines = []
    index = []    # (scenario name, geometry object, path, rays)
    for name, g, rays in scen:
        path = os.path.join(gdir, name + ".org.json")
        g.dump(path)
        index.append((name, g, path, rays))
    for name, path, g, rays in bund:
        index.append((name, g, path, rays))
    for name, g, path, rays in index:
        lines.append("G " + path)
        for p, d, ops in rays:
            lines.append("R %s %s %s" % (gen.fmt_dir(p), gen.fmt_dir(d), float(DELTA).hex()))
            lines += ops
    ctx.log("scenarios: %d geometries, %d script lines" % (len(index), len(lines)))
    rc, out = ctx.run_harness(exe, input="\n".join(lines) + "\n", timeout=1500,
                              env={"CELER_LOG_LOCAL": "critical", "CELER_LOG": "critical"})
    recs = [json.loads(l[1:]) for l in out.splitlines() if l.startswith("@")]
    ctx.log("harness done: %d records" % len(recs))
    if rc != 0:
        raise vlib.BuildError("navigation harness crashed rc=%d after %d records" % (rc, len(recs)), out[-3000:])
    # ---- split records per geometry / ray
    k = 0
    all_issues = []
    model_jobs = []
    unit_jobs = []
    for name, g, path, rays in index:
        if k >= len(recs) or recs[k]["op"] != "G":
            raise vlib.BuildError("harness output out of sync at %s" % name, out[-2000:])
        gok = recs[k]["ok"]
        if not gok:
            ctx.count("geometry-rejected")
            ctx.notes.append("geometry %s rejected by OrangeParams: %s" % (name, recs[k].get("err", "")[:200]))
        k += 1
        for ri, (p, d, ops) in enumerate(rays):
            rr = []
            while k < len(recs) and recs[k]["op"] != "G" and not (recs[k]["op"] == "R" and rr):
                rr.append(recs[k])
                k += 1
            if not gok:
                continue
            ctx.count("geometry-kind:" + ("corpus" if name.startswith("corpus") else "bundled" if g is None or name.endswith(".json") else name.rstrip("0123456789b")))
            ch = Checker(ctx, name, ri, p, d, ops, g)
            issues = ch.run(rr)
            nontriv = sum(1 for x in rr if x.get("ok") and x["op"] in ("B", "X", "M", "D", "P")) > 0
            ctx.case((name, ri, p, d), nontrivial=nontriv)
            if len(ctx.samples) < 4:
                ctx.sample({"geometry": name, "start": p, "dir": d, "ops": ops[:12],
                            "first_records": [{kk: x[kk] for kk in ("op", "ok", "stack", "onb", "bflag") if kk in x} for x in rr[:8]]})
            for it in issues:
                it.update({"geometry": name, "geometry_file": path, "ray": ri, "start": p, "dir": d, "ops": ops})
                all_issues.append(it)
            if g is not None and not name.endswith(".json"):
                model_jobs.append((name, g, ri, p, d, ops, rr))
            if name.startswith("unit") and g is not None and len(g.universes) == 1 and not ch.poisoned:
                unit_jobs.append((name, g, ri, p, d, rr))
    # the model replay costs Coq elaboration + vm_compute time per ray: the Gallina
    # model is compared on a sample of the generated geometries (every corpus
    # scenario, every `stride`-th geometry, first 4-5 rays); the fresh-initialisation
    # oracle above has already judged ALL rays
    stride = 2 if ctx.tier == "quick" else 1
    nray = 4 if ctx.tier == "quick" else 5
    keep, seen_g = [], []
    for job in model_jobs:
        nm = job[0]
        if nm not in seen_g:
            seen_g.append(nm)
        gi = seen_g.index(nm)
        if nm.startswith("corpus") or (nm.startswith("deep") and job[2] < nray + 2) \
                or (gi % stride == 0 and job[2] < nray):
            keep.append(job)
    ctx.log("model replay on %d of %d rays" % (len(keep), len(model_jobs)))
    model_jobs = keep
    # ---- model correspondence
    n_model = 0
    ctx.log("oracle checks done: %d issues" % len(all_issues))
    if model_ok:
        try:
            n_unit = coqgeo.run_unit_trace_comparison(ctx, unit_jobs, all_issues)
            ctx.log("unit-level loop (UnitWalk.nav_trace) vs navigator: %d crossings agree on %d rays" % (n_unit, len(unit_jobs)))
            n_model = coqgeo.run_model_comparison(ctx, model_jobs, all_issues, DELTA)
        except RuntimeError as e:
            # coqc failed or timed out on a model replay file: the tie could not be established
            raise vlib.BuildError("Gallina model replay failed", str(e)[-3000:])
    else:
        ctx.violation("model-broken", "the executable model coq/C03 no longer compiles",
                      getattr(ctx, "broken_proof", {}), no_input=True)
    if aux_thread is not None:
        aux_thread.join()
        if "err" in aux_state:
            raise aux_state["err"]
        ctx.log("auxiliary differentials (indexer, rect array, BIH): %d cases" % aux_state.get("n", 0))
        ctx.coverage["aux_cases_validated_against_impl"] = aux_state.get("n", 0)
    # ---- report
    ctx.log("model comparison done: %d records" % n_model)
    seen = set()
    nrep = 0
    path_of = {name: path for name, g, path, rays in index}
    for it in all_issues:
        if it.get("signature") != KNOWN_SIG:
            ctx.count("issue:%s:%s" % (it["kind"], "corpus" if it["geometry"].startswith("corpus")
                                       else it["geometry"].rstrip("0123456789b") or "bundled"))
        if not it.get("geometry_file"):
            it["geometry_file"] = path_of.get(it["geometry"], "")
        key = (it["kind"], it.get("signature"))
        if it.get("signature") == KNOWN_SIG:
            ctx.count("known-finding-hits")
        if key in seen and nrep >= 1:
            continue
        if sum(1 for s_ in seen if s_[0] == it["kind"]) >= 3:
            continue
        seen.add(key)
        nrep += 1
        replay = {"geometry_file": it["geometry_file"], "start": it["start"], "dir": it["dir"],
                  "ops_until_failure": it["ops"], "failing_record_index": it["op_index"],
                  "detail": it["detail"], "geometry": it["geometry"],
                  "how": "script for props/C03/harness/nav.cc: G <file>; R start dir 1e-4; ops"}
        try:
            replay["geometry_json"] = json.load(open(it["geometry_file"]))
        except Exception:
            pass
        ctx.violation(it["kind"], "%s [%s ray %d op %d]" % (it["what"], it["geometry"], it["ray"], it["op_index"]),
                      replay, signature=it.get("signature"), no_input=bool(it.get("model")))
    if not proofs_ok:
        ctx.violation("proof-broken", "Properties_C03.v no longer checks", ctx.broken_proof, no_input=True)
    ctx.coverage["rule"] = ("case = (geometry, ray start, direction, op program) from one PRNG seeded by VERIF_SEED; "
                            "non-trivial = at least one move/cross/set_dir executed; per-op comparisons counted in input_distribution "
                            "(agree:* = navigator vs fresh initialisation / definition-based locate, model:* = Gallina model vs navigator)")
    ctx.coverage["traces_validated_against_impl"] = n_model
    ctx.coverage["geometries"] = len(index)
