"""Executable statement of C02 evaluated on the IMPLEMENTATION's dumps only
(no model involved): uniqueness, exact counters, exactly-once ledger, no write
to an occupied slot, capacity check before any write."""
from gen import decode

INACTIVE, INITIALIZING, ALIVE, ERRORED, KILLED = range(5)


def tracks(d):
    """all tracks in flight: (ev, tid, par, pid) of active slots + stack"""
    out = []
    for (s, tid, par, ev, pid) in d["slots"]:
        if s != INACTIVE:
            out.append((ev, tid, par, pid))
    for (tid, par, ev, pid) in d["stack"]:
        out.append((ev, tid, par, pid))
    return out


def check_case(case, dumps, stepper=False):
    """-> None or (op index, message)"""
    n, cap, nev, charge = case["n"], case["cap"], case["nev"], case["order"] == 1
    prev = None          # previous decoded dump
    dead = set()         # finished (ev, tid)
    failed = False
    xinfo = None         # (dump before X, script)
    parents_clean = True # parents were cleared since the last extend-from-secondaries
    for k, (op, raw) in enumerate(zip(case["ops"], dumps)):
        if raw == [8]:
            continue          # skipped by the harness (exception not followed by reset)
        try:
            d = decode(raw, n, nev)
        except Exception as e:
            return k, "undecodable dump: %s" % e
        if prev is None:
            prev = {"kind": 0, "c": {"gen": 0, "init": 0, "vac": n, "active": 0, "sec": 0, "alive": 0},
                    "slots": [(0, 0, 0, 0, 0)] * n, "vac": list(range(n)), "parents": [None] * n,
                    "stack": [], "next": [0] * nev}
        kind = d["kind"]
        if kind == 8:
            continue          # skipped by the harness (exception not followed by reset)
        if kind not in (0, 1):
            return k, "unexpected exception kind %d (not a RuntimeError)" % kind
        c = d["c"]
        inactive = [i for i in range(n) if d["slots"][i][0] == INACTIVE]
        tr = tracks(d)
        ids = [(t[0], t[1]) for t in tr]
        if kind == 0:
            # ---- in every good state
            if len(set(ids)) != len(ids):
                return k, "duplicate (event, track id) among slots+initializers: %r" % sorted(ids)
            for ev, tid in ids:
                if not (1 <= ev <= nev) or tid - 1 >= d["next"][ev - 1]:
                    return k, "track id %d of event %d not below the event's counter %r" % (tid - 1, ev - 1, d["next"])
            if op[0] != "Z" and dead & set(ids):
                return k, "finished track reappears: %r" % sorted(dead & set(ids))
            if c["init"] != len(d["stack"]) or c["init"] > cap:
                return k, "num_initializers %d inconsistent (capacity %d)" % (c["init"], cap)
            for ev, tid, par, pid in tr:
                if par and par >= tid and op[0] != "Z":
                    return k, "parent id %d not issued before child %d" % (par - 1, tid - 1)
        o = op[0]
        if kind == 1:
            # capacity_checked_first: nothing written
            if o not in ("P", "S"):
                return k, "RuntimeError from op %s" % o
            if d["slots"] != prev["slots"] or d["stack"] != prev["stack"]:
                return k, "state modified although the capacity check failed"
            if o == "P" and (d["c"] != prev["c"] or d["next"] != prev["next"]):
                return k, "insert() failed but counters changed"
            need = (len(op[1]) + prev["c"]["init"]) if o == "P" else c["init"]
            if need <= cap:
                return k, "capacity error although %d <= capacity %d" % (need, cap)
            failed = True
            prev = d
            continue
        if o in ("P", "E", "R"):
            parents_clean = True
        elif o == "I" and charge and min(prev["c"]["vac"], prev["c"]["init"]) > 0:
            parents_clean = True
        elif o == "S":
            pass
        if o == "P":
            kk = len(op[1])
            old = set((t[0], t[1]) for t in tracks(prev))
            new = [t for t in tr if (t[0], t[1]) not in old]
            if len(tr) != len(old) + kk or len(new) != kk:
                return k, "primaries: %d inserted but %d new initializers" % (kk, len(new))
            if sorted((t[0] - 1, t[3] - 1) for t in new) != sorted((p[0], p[1]) for p in op[1]):
                return k, "primaries: (event, particle) multiset differs"
            for t in new:
                if t[1] - 1 < prev["next"][t[0] - 1] or t[2] != 0:
                    return k, "primary got a stale id or a parent"
            if d["slots"] != prev["slots"]:
                return k, "primaries modified a slot"
            if not stepper and c["gen"] != prev["c"]["gen"] + kk:
                return k, "num_generated wrong"
        elif o == "I":
            if sorted(tr) != sorted(tracks(prev)):
                return k, "initialize: tracks in flight changed: %r -> %r" % (sorted(tracks(prev)), sorted(tr))
            for i in range(n):
                if prev["slots"][i][0] != INACTIVE and d["slots"][i] != prev["slots"][i]:
                    return k, "initialize wrote occupied slot %d" % i
            if c["vac"] != len(inactive) or c["active"] != n - c["vac"]:
                return k, "initialize: num_vacancies=%d num_active=%d but %d inactive slots" % (c["vac"], c["active"], len(inactive))
            expect_new = min(prev["c"]["vac"], prev["c"]["init"])
            if len(prev["stack"]) - len(d["stack"]) != expect_new:
                return k, "initialize: %d popped, expected min(vac, init)=%d" % (len(prev["stack"]) - len(d["stack"]), expect_new)
        elif o == "X":
            for i in range(n):
                if d["slots"][i][1:] != prev["slots"][i][1:]:
                    return k, "physics changed track identity"
            xinfo = (prev, d, op[1])
        elif o == "S":
            bx, ax, script = xinfo
            if c["vac"] != len(inactive) or d["vac"] != inactive:
                return k, "vacancies %r != inactive slots %r (num_vacancies %d)" % (d["vac"], inactive, c["vac"])
            if c["alive"] != n - c["vac"]:
                return k, "num_alive wrong"
            old = set((t[0], t[1]) for t in tracks(ax))
            new = [t for t in tr if (t[0], t[1]) not in old]
            exp_new = 0
            for i in range(n):
                s_after_x = ax["slots"][i][0]
                applied = bx["slots"][i][0] in (INITIALIZING, ALIVE)
                live = sum(1 for q in script[i][1] if q) if applied else 0
                _, tid, par, ev, pid = ax["slots"][i]
                mine = [t for t in new if t[0] == ev and t[2] == tid] if s_after_x != INACTIVE else []
                if s_after_x != INACTIVE and len(mine) != live:
                    return k, "slot %d (track %d) emitted %d secondaries but %d new tracks name it as parent" % (i, tid - 1, live, len(mine))
                if s_after_x != INACTIVE and sorted(t[3] for t in mine) != sorted(q + 0 for q in script[i][1] if q) and applied:
                    return k, "slot %d: particle types of new tracks differ from the secondaries" % i
                exp_new += live
                if s_after_x == ALIVE:
                    if d["slots"][i] != ax["slots"][i]:
                        return k, "alive slot %d was modified by extend-from-secondaries" % i
                elif s_after_x == KILLED:
                    dead.add((ev, tid))
                    if d["slots"][i][0] == INACTIVE:
                        pass
                    elif not ((d["slots"][i][3], d["slots"][i][2]) == (ev, tid) and d["slots"][i][0] == INITIALIZING):
                        return k, "killed slot %d neither vacated nor re-initialised by its own secondary" % i
                elif s_after_x == INACTIVE and d["slots"][i] != ax["slots"][i]:
                    return k, "inactive slot %d modified" % i
            if len(new) != exp_new or c["sec"] != sum(1 for t in new if (t[1], t[2], t[0], t[3]) in d["stack"]):
                return k, "%d new tracks for %d emitted secondaries (num_secondaries=%d)" % (len(new), exp_new, c["sec"])
            for t in new:
                if t[1] - 1 < ax["next"][t[0] - 1]:
                    return k, "secondary got an id that was already issued"
            # survivors + new = all
            keep = [t for t in tracks(ax) if not any((s[3], s[1]) == (t[0], t[1]) and s[0] == KILLED for s in ax["slots"])]
            if sorted(keep + new) != sorted(tr):
                return k, "tracks lost or invented by extend-from-secondaries"
            # parents entries written in this call
            total = c["sec"]
            for off in range(1, min(total, n) + 1):
                p = d["parents"][n - off]
                ini = d["stack"][c["init"] - off]
                prod = [q for q in range(n) if ax["slots"][q][0] != INACTIVE
                        and ax["slots"][q][1] == ini[1] and ax["slots"][q][3] == ini[2]]
                if len(prod) != 1:
                    return k, "initializer %d has no unique producing slot" % (c["init"] - off)
                q = prod[0]
                written = (not charge) or ax["slots"][q][0] == ALIVE
                if written:
                    if p != q or d["slots"][q][0] == INACTIVE:
                        return k, "parents[%d]=%r does not name the live slot %d that produced initializer %d" % (n - off, p, q, c["init"] - off)
                elif parents_clean and p is not None:
                    return k, "parents[%d]=%r set although the parent was killed (init_charge)" % (n - off, p)
                # else: a stale entry may remain (NOTES.md observation O2)
            parents_clean = False
        elif o == "R":
            if inactive != list(range(n)) or d["vac"] != inactive or d["stack"] or \
               c != {"gen": 0, "init": 0, "vac": n, "active": 0, "sec": 0, "alive": 0}:
                return k, "reset did not restore the initial bookkeeping"
            dead = set()
            failed = False
        elif o == "Z":
            dead = set()
        elif o == "E":
            if d["slots"] != prev["slots"] or d["stack"] != prev["stack"] or d["c"] != prev["c"]:
                return k, "extend-from-primaries without primaries changed the state"
        prev = d
    return None
