"""Op-list generator / encoders shared by the C02 and C16 checks."""
import os, sys
sys.path.insert(0, os.path.dirname(os.path.abspath(__file__)))
from mirror import Mirror, INACTIVE, INITIALIZING, ALIVE, ERRORED, KILLED

MAXSEC = 6          # per-slot secondaries (harness stack factor is 8)


def gen_outcomes(r, m, target):
    """Per-slot outcomes for the slots that will be alive after pre-step.
    target: None or the wished number of *pushed* initializers."""
    n = m.n
    will = [i for i in range(n) if m.st[i] in (INITIALIZING, ALIVE)]
    pdie = r.choice([0.0, 0.3, 0.6, 1.0, 1.0])
    outs = [(0, [])] * n
    outs = list(outs)
    dies = {i: (r.random() < pdie) for i in will}
    nsec = {i: 0 for i in will}
    if will:
        if target is None:
            mode = r.choice(["zero", "one", "few", "few", "many"])
            for i in will:
                if mode == "one":
                    nsec[i] = 0
                elif mode == "few":
                    nsec[i] = r.choice([0, 0, 1, 1, 2, 3])
                elif mode == "many":
                    nsec[i] = r.choice([0, 2, 4, MAXSEC])
            if mode == "one":
                nsec[r.choice(will)] = 1
        else:
            # distribute so that sum over slots of pushed = target
            left = target
            order = will[:]
            r.shuffle(order)
            for i in order:
                inplace = 1 if (dies[i] and not m.charge) else 0
                if left <= 0:
                    nsec[i] = r.choice([0, inplace])
                    continue
                take = min(left, MAXSEC - inplace, r.choice([1, 2, 3, MAXSEC, left]))
                nsec[i] = take + inplace
                left -= take
    for i in will:
        kinds = [r.choice([1, 1, 2, 2, 2]) for _ in range(nsec[i])]
        # null (cut away) secondaries interleaved, without changing the live count
        while len(kinds) < MAXSEC + 1 and r.random() < 0.15:
            kinds.insert(r.randrange(len(kinds) + 1), 0)
        outs[i] = (1 if dies[i] else 0, kinds)
    return outs


def pushed_count(m, outs):
    """number of initializers the outcome would push (as the mirror sees it)"""
    tot = 0
    for i in range(m.n):
        if m.st[i] in (INITIALIZING, ALIVE):
            dies, kinds = outs[i]
            live = sum(1 for k in kinds if k)
            if dies and not m.charge and live > 0:
                live -= 1
            tot += live
    return tot


def gen_case(r, tier="quick", maxops=40, capmodes=("ample", "tight", "tight", "tiny")):
    n = r.choice([1, 1, 2, 2, 3, 3, 4, 4, 5, 6, 7, 8, 8, 11, 16])
    order = r.choice([0, 0, 0, 0, 1, 1, 1, 1, 2])
    nev = r.choice([1, 2, 2, 3])
    capmode = r.choice(list(capmodes))
    if capmode == "ample":
        cap = 6 * n + 24
    elif capmode == "tight":
        cap = r.randint(max(1, n // 2), 2 * n + 3)
    else:
        cap = r.randint(1, 3)
    m = Mirror(n, cap, order == 1, nev)
    ops = []
    stepper_like = r.random() < 0.3     # extend-from-primaries runs every step
    nops = r.randint(4, maxops)
    steps_since_insert = 99
    while len(ops) < nops:
        if m.phase == "failed":
            ops.append(("R",)); m.reset(); continue
        # ---- ready phase extras
        if m.drained() and r.random() < 0.25:
            ops.append(("Z",)); m.reseed()
        if r.random() < 0.02:
            ops.append(("R",)); m.reset()
        did_insert = False
        pins = 0.9 if m.drained() else 0.3       # new primaries while tracks are in flight
        if r.random() < pins:
            rem = m.cap - m.c_init()
            k = r.choice([1, 1, 2, 3, n, m.c_vac, m.c_vac + 1, rem, rem, rem + 1, max(rem - 1, 0), 0])
            k = max(0, min(k, 40))
            evs = [r.randrange(nev) for _ in range(k)] if r.random() < 0.7 else [r.randrange(nev)] * k
            ps = [(evs[j], r.choice([0, 0, 1]), 1 if r.random() < 0.06 else 0) for j in range(k)]
            ops.append(("P", ps))
            did_insert = True
            if not m.insert(ps):
                continue
        if stepper_like and not did_insert:
            ops.append(("E",)); m.extend_prim()
        elif r.random() < 0.05:
            ops.append(("E",)); m.extend_prim()
        # ---- one step
        ops.append(("I",)); m.init()
        rem = m.cap - m.c_init()
        c = r.random()
        if c < 0.45:
            target = None
        else:
            nact = sum(1 for i in range(n) if m.st[i] in (INITIALIZING, ALIVE))
            target = r.choice([rem, rem, rem + 1, max(rem - 1, 0), m.c_vac, m.c_vac + 1, nact, 1])
            target = min(target, nact * (MAXSEC - 1))
        outs = gen_outcomes(r, m, target)
        ops.append(("X", outs)); m.physics(outs)
        ops.append(("S",)); m.extend_sec()
    if m.phase == "failed":
        ops.append(("R",)); m.reset()
    return {"n": n, "cap": cap, "order": order, "nev": nev, "ops": ops}


# ---------------------------------------------------------------- encoders

def harness_text(case):
    out = ["CASE %d %d %d %d 64 %d" % (case["n"], case["cap"], case["order"], case["nev"], len(case["ops"]))]
    for op in case["ops"]:
        if op[0] == "P":
            out.append("P %d %s" % (len(op[1]), " ".join("%d %d %d" % p for p in op[1])))
        elif op[0] == "X":
            out.append("X " + " ".join("%d %d %s" % (d, len(k), " ".join(map(str, k))) for d, k in op[1]))
        else:
            out.append(op[0])
    return "\n".join(out) + "\n"


def coq_ops(case):
    def b(x):
        return "true" if x else "false"
    items = []
    for op in case["ops"]:
        if op[0] == "P":
            items.append("InsertPrimaries [%s]" % "; ".join("mkPrim %d %d %s" % (e, p, b(bad)) for e, p, bad in op[1]))
        elif op[0] == "X":
            items.append("PhysicsOutcome [%s]" % "; ".join(
                "mkOut %s [%s]" % (b(d), "; ".join(map(str, k))) for d, k in op[1]))
        else:
            items.append({"E": "ExtendFromPrimaries", "I": "InitializeTracks", "S": "ExtendFromSecondaries",
                          "R": "Reset", "Z": "Reseed"}[op[0]])
    return "[%s]" % "; ".join(items)


def coq_expr(case):
    return "run_case %d %d %s %d %s" % (case["n"], case["cap"], "true" if case["order"] == 1 else "false",
                                       case["nev"], coq_ops(case))


def parse_op_text(t, n):
    """inverse of harness_text for one op line"""
    w = t.split()
    if w[0] == "P":
        k = int(w[1])
        return ("P", [(int(w[2 + 3 * j]), int(w[3 + 3 * j]), int(w[4 + 3 * j])) for j in range(k)])
    if w[0] == "X":
        outs = []
        p = 1
        for _ in range(n):
            d, ns = int(w[p]), int(w[p + 1])
            outs.append((d, [int(x) for x in w[p + 2:p + 2 + ns]]))
            p += 2 + ns
        return ("X", outs)
    return (w[0],)


import re as _re
_DLINE = _re.compile(r"^D (\d+) (\d+)((?: (?:\||-?\d+))*) *$")
_BAD = _re.compile(r"AddressSanitizer|LeakSanitizer|UndefinedBehaviorSanitizer|runtime error:|munmap_chunk|double free|"
                   r"malloc\(\)|free\(\)|corrupted|stack smashing|terminate called|Segmentation fault|core dumped|Aborted|"
                   r"Assertion .* failed|\[timeout after")


def abnormal(rc, out, done=True):
    """did the child die / abort / time out / print a sanitizer or allocator report?"""
    if rc != 0 or not done:
        return "exit status %s%s" % (rc, "" if done else ", output incomplete")
    m = _BAD.search(out)
    return ("diagnostic in output: " + m.group(0)) if m else None


def parse_harness(out, ncases):
    """-> list (per case) of list (per op) of int lists, and whether the DONE
    marker was seen.  Tolerates garbage (e.g. an allocator abort message glued
    to a line): only complete, well-formed dump lines are accepted, in op
    order; anything else makes the case incomplete (= crashed)."""
    res = [[] for _ in range(ncases)]
    done = False
    for line in out.splitlines():
        if line.startswith("D "):
            m = _DLINE.match(line)
            if not m:
                continue
            ci, oi = int(m.group(1)), int(m.group(2))
            if ci >= ncases or oi != len(res[ci]):
                continue
            res[ci].append([int(x) for x in m.group(3).replace("|", " ").split()])
        elif line.startswith("DONE"):
            done = True
    return res, done


# ---------------------------------------------------------------- decoding a dump

def decode(d, n, nev):
    """int list (one dump) -> dict"""
    kind = d[0]
    c = dict(zip(["gen", "init", "vac", "active", "sec", "alive"], d[1:7]))
    p = 7
    slots = []
    for _ in range(n):
        slots.append(tuple(d[p:p + 5])); p += 5       # status tid+1 par+1 ev+1 pid+1
    nv = d[p]; p += 1
    vac = [x - 1 for x in d[p:p + nv]]; p += nv
    parents = [x - 1 if x else None for x in d[p:p + n]]; p += n
    ni = d[p]; p += 1
    stack = []
    for _ in range(ni):
        stack.append(tuple(d[p:p + 4])); p += 4       # tid+1 par+1 ev+1 pid+1
    nxt = d[p:p + nev]; p += nev
    if p != len(d):
        raise ValueError("dump length mismatch")
    return {"kind": kind, "c": c, "slots": slots, "vac": vac, "parents": parents, "stack": stack, "next": nxt}
