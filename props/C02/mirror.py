"""Light Python mirror of coq/C02/TrackInit.v used ONLY to steer the generator
(which slots are alive, how much capacity is left, when an error will fire) and
as the executable property oracle's notion of 'track'.  It is not part of the
tie: the comparison is always Coq model vs real C++."""

INACTIVE, INITIALIZING, ALIVE, ERRORED, KILLED = range(5)


class Mirror:
    def __init__(self, n, cap, charge, nev):
        self.n, self.cap, self.charge, self.nev = n, cap, charge, nev
        self.st = [INACTIVE] * n
        self.trk = [None] * n          # (tid, par, ev, pid, bad)
        self.secs = [[] for _ in range(n)]
        self.stack = []
        self.parents = [None] * n
        self.vac = list(range(n))
        self.c_vac = n
        self.c_sec = 0
        self.next_id = [0] * nev
        self.phase = "ready"

    # -- queries ---------------------------------------------------------
    def c_init(self):
        return len(self.stack)

    def active(self):
        return [i for i in range(self.n) if self.st[i] != INACTIVE]

    def drained(self):
        return not self.active() and not self.stack

    # -- ops; return False if a CELER_VALIDATE fires ---------------------
    def insert(self, ps):
        if len(ps) + len(self.stack) > self.cap:
            self.phase = "failed"
            return False
        for ev, pid, bad in ps:
            self.stack.append((self.next_id[ev], None, ev, pid, bad))
            self.next_id[ev] += 1
        self.parents = [None] * self.n
        return True

    def extend_prim(self):
        self.parents = [None] * self.n
        return True

    def init(self):
        nv, ni = self.c_vac, len(self.stack)
        k = min(nv, ni)
        if k:
            if self.charge:
                base = ni - k
                idx = [i for i in range(k) if self.stack[base + i][3] == 0] + \
                      [i for i in range(k) if self.stack[base + i][3] != 0]
            newst = {}
            for t in range(k):
                if self.charge:
                    ii = idx[k - t - 1] + ni - k
                    pi = idx[k - t - 1] + self.n - k
                else:
                    ii = ni - t - 1
                    pi = self.n - t - 1
                ini = self.stack[ii]
                if self.charge:
                    vi = (k - t - 1) if ini[3] == 0 else (nv - t - 1)
                else:
                    vi = nv - t - 1
                sid = self.vac[vi]
                par = self.parents[pi] if t < self.c_sec else None
                self.st[sid] = INITIALIZING if (par is not None or not ini[4]) else ERRORED
                self.trk[sid] = ini
            del self.stack[ni - k:]
            self.vac = self.vac[:nv - k]
            self.c_vac = nv - k
            if self.charge:
                self.parents = [None] * self.n
        self.phase = "inited"
        return True

    def physics(self, outs):
        for i in range(self.n):
            s = self.st[i]
            if s == INACTIVE:
                continue
            if s == ERRORED:
                self.st[i] = KILLED
                self.secs[i] = []
            else:
                dies, kinds = outs[i]
                self.st[i] = KILLED if dies else ALIVE
                self.secs[i] = list(kinds)
        self.phase = "interacted"
        return True

    def counts(self):
        """(vacancy marks, per-slot pushed counts) as LocateAlive computes them"""
        vac, cnt = [], []
        for i in range(self.n):
            ns = 0 if self.st[i] == INACTIVE else sum(1 for k in self.secs[i] if k)
            if self.st[i] == ALIVE:
                vac.append(None)
            elif ns > 0 and not self.charge:
                ns -= 1
                vac.append(None)
            else:
                vac.append(i)
            cnt.append(ns)
        return vac, cnt

    def extend_sec(self):
        vac, cnt = self.counts()
        total = sum(cnt)
        self.vac = [v for v in vac if v is not None]
        self.c_vac = len(self.vac)
        self.c_sec = total
        if len(self.stack) + total > self.cap:
            self.phase = "failed"
            return False
        cinit = len(self.stack) + total
        arr = self.stack + [None] * total
        scan = 0
        for i in range(self.n):
            if self.st[i] == INACTIVE:
                scan += cnt[i]
                continue
            offset = total - scan
            scan += cnt[i]
            initialized = False
            ptid, ev = self.trk[i][0], self.trk[i][2]
            status0 = self.st[i]
            for k in self.secs[i]:
                if not k:
                    continue
                ti = (self.next_id[ev], ptid, ev, k - 1, False)
                self.next_id[ev] += 1
                if not initialized and status0 != ALIVE and not self.charge:
                    self.st[i] = INITIALIZING
                    self.trk[i] = ti
                    initialized = True
                else:
                    arr[cinit - offset] = ti
                    if offset <= self.n and (not self.charge or status0 == ALIVE):
                        self.parents[self.n - offset] = i
                    offset -= 1
            if not initialized and self.st[i] == KILLED:
                self.st[i] = INACTIVE
        self.stack = arr
        self.phase = "ready"
        return True

    def reset(self):
        self.st = [INACTIVE] * self.n
        self.stack = []
        self.vac = list(range(self.n))
        self.c_vac = self.n
        self.c_sec = 0
        self.phase = "ready"
        return True

    def reseed(self):
        self.next_id = [0] * self.nev
        return True
