// C02/C16 correspondence harness: executes op lists on the REAL track
// initialisation actions of /repo (pattern of test/celeritas/track/
// TrackInit.test.cc: CoreParams of the repo's SimpleTestBase problem, the real
// actions taken from the action registry, and a scripted "interact" that sets
// killed/secondaries per slot through the public views and the real secondary
// StackAllocator) and dumps the complete bookkeeping state after every op.
//
// stdin:  CASE <slots> <capacity> <order 0|1|2> <max_events> <stack_factor_x8> <nops>
//         then nops lines:
//           P k (ev pid bad)*k     insert + extend-from-primaries step
//           E                      extend-from-primaries step without new primaries
//           I                      initialize-tracks
//           X (dies nsec kind*nsec)*slots   pre-step, scripted interaction, tracking-cut
//           S                      extend-from-secondaries
//           R                      CoreState::reset
//           Z                      TrackInitParams::reset_track_ids (Stepper::reseed)
//           Y (dies k tag)*slots   like X, but the interaction of an alive slot asks the
//                                  real secondary allocator for k secondaries (energy = tag)
//                                  and a null pointer is a failed interaction (track
//                                  untouched); prints an extra "A" line (C16 step-stack tie)
//           G                      (observation only) print "G <case> <op> x..." = x of each slot's geometry state
// stdout: "D <case> <op> <kind> ..." one line per op (see dump()); kind 8 =
//         op skipped because an exception was not followed by R.
#include "trackinit_common.hh"

using namespace celeritas;
using namespace verif;

namespace
{
struct Outcome
{
    int dies;
    std::vector<int> kinds;
};

void scripted_interact(Problem& prob,
                       CoreState<MemSpace::host>& st,
                       std::vector<Outcome> const& outs)
{
    auto const& params = *prob.core()->ptr<MemSpace::native>();
    auto& ref = st.ref();
    for (size_type i = 0; i < st.size(); ++i)
    {
        CoreTrackView track(params, ref, TrackSlotId{i});
        auto sim = track.make_sim_view();
        if (sim.status() != TrackStatus::alive)
            continue;
        Outcome const& o = outs[i];
        if (o.dies)
            sim.status(TrackStatus::killed);
        auto phys_step = track.make_physics_step_view();
        if (!o.kinds.empty())
        {
            auto allocate = phys_step.make_secondary_allocator();
            Secondary* a = allocate(o.kinds.size());
            CELER_VALIDATE(a, << "harness: secondary stack too small");
            for (size_type k = 0; k < o.kinds.size(); ++k)
            {
                if (o.kinds[k] == 0)
                {
                    a[k] = Secondary{};  // cut away: null secondary
                    continue;
                }
                a[k].particle_id = ParticleId(o.kinds[k] - 1);
                a[k].energy = units::MevEnergy(5.);
                a[k].direction = {1., 0., 0.};
            }
            phys_step.secondaries({a, o.kinds.size()});
        }
        else
        {
            phys_step.secondaries({});
        }
    }
}

struct Request
{
    int dies;
    size_type count;
    int tag;
};

// C16 step-stack tie: real pre-step (PreStepExecutor: thread 0 clears the
// stack, spans of non-inactive slots cleared), then per alive slot an
// interaction that allocates through PhysicsStepView::make_secondary_allocator
// and stores the span with PhysicsStepView::secondaries; then dumps
// "A <case> <op> size capacity (prestatus failed off+1 count)*slots storage..."
void starved_step(Problem& prob,
                  CoreState<MemSpace::host>& st,
                  std::shared_ptr<CoreStepActionInterface const> const& a_pre,
                  std::vector<Request> const& reqs,
                  long caseno,
                  size_type opi,
                  std::ostream& os)
{
    auto const& params = *prob.core()->ptr<MemSpace::native>();
    auto& ref = st.ref();
    size_type n = st.size();
    std::vector<int> prestatus(n), failed(n, 0);
    for (size_type i = 0; i < n; ++i)
        prestatus[i] = static_cast<int>(ref.sim.status[TrackSlotId{i}]);
    a_pre->step(*prob.core(), st);
    for (size_type i = 0; i < n; ++i)
    {
        CoreTrackView track(params, ref, TrackSlotId{i});
        auto sim = track.make_sim_view();
        if (sim.status() != TrackStatus::alive)
            continue;
        Request const& q = reqs[i];
        auto phys_step = track.make_physics_step_view();
        if (q.count > 0)
        {
            auto allocate = phys_step.make_secondary_allocator();
            Secondary* a = allocate(q.count);
            if (!a)
            {
                // Interaction::from_failure(): nothing is emitted, the
                // track is left as it is
                failed[i] = 1;
                continue;
            }
            for (size_type k = 0; k < q.count; ++k)
            {
                a[k].particle_id = ParticleId(0);
                a[k].energy = units::MevEnergy(q.tag);
                a[k].direction = {1., 0., 0.};
            }
            phys_step.secondaries({a, q.count});
        }
        if (q.dies)
            sim.status(TrackStatus::killed);
    }
    auto& stack = ref.physics.secondaries;
    size_type cap = stack.storage.size();
    Secondary const* base
        = cap ? &stack.storage[ItemId<Secondary>{0}] : nullptr;
    os << "A " << caseno << ' ' << opi << ' '
       << stack.size[ItemId<size_type>{0}] << ' ' << cap;
    for (size_type i = 0; i < n; ++i)
    {
        CoreTrackView track(params, ref, TrackSlotId{i});
        auto sp = track.make_physics_step_view().secondaries();
        os << ' ' << prestatus[i] << ' ' << failed[i] << ' '
           << (sp.empty() ? 0 : (sp.data() - base) + 1) << ' ' << sp.size();
    }
    for (size_type i = 0; i < cap; ++i)
        os << ' '
           << static_cast<long>(
                  value_as<units::MevEnergy>(
                      stack.storage[ItemId<Secondary>{i}].energy));
    os << '\n';
}

}  // namespace

int main()
{
    std::map<Config, std::unique_ptr<Problem>> problems;
    std::string line;
    long caseno = -1;
    while (std::getline(std::cin, line))
    {
        std::istringstream hs(line);
        std::string tag;
        hs >> tag;
        if (tag != "CASE")
            continue;
        ++caseno;
        size_type n, nops;
        Config cfg;
        hs >> n >> cfg.capacity >> cfg.order >> cfg.max_events >> cfg.sf8
            >> nops;
        auto& pp = problems[cfg];
        if (!pp)
        {
            pp = std::make_unique<Problem>(cfg);
            try
            {
                pp->core();
            }
            catch (RuntimeError const&)
            {
                // e.g. secondary_stack_factor = 0 (PhysicsParams.cc)
                pp.reset();
            }
        }
        if (!pp)
        {
            std::cout << "K " << caseno << " 0\n";
            for (size_type opi = 0; opi < nops; ++opi)
                std::getline(std::cin, line);
            continue;
        }
        Problem& prob = *pp;
        auto core = prob.core();
        auto a_init = prob.find("initialize-tracks");
        auto a_pre = prob.find("pre-step");
        auto a_cut = prob.find("tracking-cut");
        auto a_ext = prob.find("extend-from-secondaries");
        // the freshly constructed state ("F" line): CoreState constructor,
        // TrackInitData.hh resize, SimData.hh resize
        std::unique_ptr<CoreState<MemSpace::host>> stp;
        try
        {
            stp = std::make_unique<CoreState<MemSpace::host>>(
                *core, StreamId{0}, n);
        }
        catch (RuntimeError const&)
        {
            std::cout << "F " << caseno << " 0\n";
            for (size_type opi = 0; opi < nops; ++opi)
                std::getline(std::cin, line);
            continue;
        }
        CoreState<MemSpace::host>& st = *stp;
        dump_fresh(std::cout, caseno, st);
        // secondary stack right after PhysicsData.hh resize: capacity, size
        std::cout << "K " << caseno << " 1 "
                  << st.ref().physics.secondaries.storage.size() << ' '
                  << st.ref().physics.secondaries.size[ItemId<size_type>{0}]
                  << '\n';
        size_type ninit_known = 0;
        bool poisoned = false;  // an exception was thrown and no reset yet

        for (size_type opi = 0; opi < nops; ++opi)
        {
            std::getline(std::cin, line);
            std::istringstream is(line);
            char op;
            is >> op;
            int kind = 0;
            if (poisoned && op != 'R')
            {
                // continuing after a failed step without reset() is outside
                // the API contract (counters may exceed the storage)
                std::cout << "D " << caseno << ' ' << opi << " 8\n";
                continue;
            }
            poisoned = false;
            try
            {
                switch (op)
                {
                    case 'P': {
                        size_type k;
                        is >> k;
                        std::vector<Primary> ps(k);
                        for (auto& p : ps)
                        {
                            int ev, pid, bad;
                            is >> ev >> pid >> bad;
                            p.particle_id = ParticleId(pid);
                            p.energy = units::MevEnergy(1);
                            // bad: 0 origin, 1 outside the world (geometry
                            // init fails), 2 / 3 inside at x = +1 / -1
                            p.position = bad == 1   ? Real3{1e7, 0, 0}
                                         : bad == 2 ? Real3{1, 0, 0}
                                         : bad == 3 ? Real3{-1, 0, 0}
                                                    : Real3{0, 0, 0};
                            p.direction = {0, 0, 1};
                            p.time = 0;
                            p.event_id = EventId(ev);
                        }
                        prob.insert_primaries(st, make_span(ps));
                        prob.primaries_action()->step(*core, st);
                        break;
                    }
                    case 'E':
                        prob.primaries_action()->step(*core, st);
                        break;
                    case 'I':
                        a_init->step(*core, st);
                        break;
                    case 'X': {
                        std::vector<Outcome> outs(n);
                        for (auto& o : outs)
                        {
                            size_type ns;
                            is >> o.dies >> ns;
                            o.kinds.resize(ns);
                            for (auto& kd : o.kinds)
                                is >> kd;
                        }
                        a_pre->step(*core, st);
                        scripted_interact(prob, st, outs);
                        a_cut->step(*core, st);
                        break;
                    }
                    case 'Y': {
                        std::vector<Request> reqs(n);
                        for (auto& q : reqs)
                            is >> q.dies >> q.count >> q.tag;
                        starved_step(prob, st, a_pre, reqs, caseno, opi, std::cout);
                        a_cut->step(*core, st);
                        break;
                    }
                    case 'S':
                        a_ext->step(*core, st);
                        break;
                    case 'R':
                        st.reset();
                        break;
                    case 'G': {
                        // observation only (not part of the differential):
                        // x coordinate of the geometry state of every slot
                        std::cout << "G " << caseno << ' ' << opi;
                        auto const& params = *core->ptr<MemSpace::native>();
                        for (size_type i = 0; i < n; ++i)
                        {
                            CoreTrackView track(params, st.ref(), TrackSlotId{i});
                            std::cout << ' ' << track.make_geo_view().pos()[0];
                        }
                        std::cout << '\n';
                        continue;
                    }
                    case 'Z':
                        core->init()->reset_track_ids(st.stream_id(),
                                                      &st.ref().init);
                        break;
                    default:
                        CELER_VALIDATE(false, << "bad op " << op);
                }
            }
            catch (RuntimeError const&)
            {
                kind = 1;
            }
            catch (DebugError const&)
            {
                kind = 2;
            }
            catch (std::exception const&)
            {
                kind = 3;
            }
            std::cout << "D " << caseno << ' ' << opi << ' ';
            if (kind == 0)
                ninit_known = st.counters().num_initializers;
            else
                poisoned = true;
            dump(std::cout, kind, st, ninit_known);
        }
    }
    std::cout << "DONE " << (caseno + 1) << std::endl;
    return 0;
}
