// Shared by the C02/C16 harnesses: the repo's SimpleTestBase problem with the
// track-init knobs exposed through the fixture's virtual hooks, and the dump of
// the complete track bookkeeping state (no repo code is changed or copied).
#pragma once
#include <cstdio>
#include <iostream>
#include <map>
#include <memory>
#include <sstream>
#include <string>
#include <tuple>
#include <vector>

#include "corecel/Assert.hh"
#include "corecel/sys/ActionRegistry.hh"
#include "celeritas/SimpleTestBase.hh"
#include "celeritas/global/ActionInterface.hh"
#include "celeritas/global/CoreParams.hh"
#include "celeritas/global/CoreState.hh"
#include "celeritas/global/CoreTrackData.hh"
#include "celeritas/global/CoreTrackView.hh"
#include "celeritas/phys/PhysicsStepView.hh"
#include "celeritas/phys/Primary.hh"
#include "celeritas/phys/Secondary.hh"
#include "celeritas/track/ExtendFromPrimariesAction.hh"
#include "celeritas/track/SimTrackView.hh"
#include "celeritas/track/TrackInitParams.hh"

using namespace celeritas;

namespace verif
{
struct Config
{
    size_type capacity;
    int order;
    size_type max_events;
    int sf8;  // secondary stack factor * 8
    bool operator<(Config const& o) const
    {
        return std::tie(capacity, order, max_events, sf8)
               < std::tie(o.capacity, o.order, o.max_events, o.sf8);
    }
};

class Problem : public test::SimpleTestBase
{
  public:
    explicit Problem(Config c) : cfg_(c) {}
    void TestBody() override {}

    std::shared_ptr<CoreStepActionInterface const> find(char const* label)
    {
        auto aid = this->core()->action_reg()->find_action(label);
        CELER_VALIDATE(aid, << "no action " << label);
        auto r = std::dynamic_pointer_cast<CoreStepActionInterface const>(
            this->core()->action_reg()->action(aid));
        CELER_VALIDATE(r, << "not a step action: " << label);
        return r;
    }

  protected:
    real_type secondary_stack_factor() const override
    {
        return cfg_.sf8 / 8.0;
    }
    SPConstTrackInit build_init() override
    {
        TrackInitParams::Input input;
        input.capacity = cfg_.capacity;
        input.max_events = cfg_.max_events;
        input.track_order = cfg_.order == 0   ? TrackOrder::none
                            : cfg_.order == 1 ? TrackOrder::init_charge
                                              : TrackOrder::reindex_shuffle;
        return std::make_shared<TrackInitParams>(input);
    }

  private:
    Config cfg_;
};

template<class Id>
long enc(Id i)
{
    return i ? static_cast<long>(i.unchecked_get()) + 1 : 0;
}

// kind: 0 ok, 1 RuntimeError, 2 DebugError, 3 other exception
// layout: kind | 6 counters | n x (status tid par ev pid) | nv vac... |
//         n parents | ni x (tid par ev pid) | ne track counters
inline void dump(std::ostream& os,
          int kind,
          CoreState<MemSpace::host>& st,
          size_type ninit_dump)
{
    auto const& c = st.counters();
    auto& ref = st.ref();
    size_type n = st.size();
    os << kind << " | " << c.num_generated << ' ' << c.num_initializers << ' '
       << c.num_vacancies << ' ' << c.num_active << ' ' << c.num_secondaries
       << ' ' << c.num_alive << " |";
    for (size_type i = 0; i < n; ++i)
    {
        TrackSlotId s{i};
        os << ' ' << static_cast<int>(ref.sim.status[s]) << ' '
           << enc(ref.sim.track_ids[s]) << ' ' << enc(ref.sim.parent_ids[s])
           << ' ' << enc(ref.sim.event_ids[s]) << ' '
           << enc(ref.particles.particle_id[s]);
    }
    size_type nv = std::min<size_type>(c.num_vacancies, n);
    os << " | " << nv;
    for (size_type i = 0; i < nv; ++i)
        os << ' ' << enc(ref.init.vacancies[TrackSlotId{i}]);
    os << " |";
    for (size_type i = 0; i < n; ++i)
        os << ' ' << enc(ref.init.parents[TrackSlotId{i}]);
    size_type ni = std::min<size_type>(ninit_dump, ref.init.initializers.size());
    os << " | " << ni;
    for (size_type i = 0; i < ni; ++i)
    {
        auto const& ti = ref.init.initializers[ItemId<TrackInitializer>{i}];
        os << ' ' << enc(ti.sim.track_id) << ' ' << enc(ti.sim.parent_id)
           << ' ' << enc(ti.sim.event_id) << ' '
           << enc(ti.particle.particle_id);
    }
    os << " |";
    for (size_type i = 0; i < ref.init.track_counters.size(); ++i)
        os << ' ' << ref.init.track_counters[EventId{i}];
    os << '\n';
}

// "F <case> 1 |parents| |indices| |secondary_counts| |vacancies|
//  |track_counters| |initializers| bool(data) 6 counters n statuses n parents
//  n vacancies(+1) ne track counters": everything TrackInitData.hh resize and
// the CoreState constructor set up, before any action has run
inline void dump_fresh(std::ostream& os, long caseno, CoreState<MemSpace::host>& st)
{
    auto const& c = st.counters();
    auto& ref = st.ref();
    auto& init = ref.init;
    size_type n = st.size();
    os << "F " << caseno << " 1 " << init.parents.size() << ' '
       << init.indices.size() << ' ' << init.secondary_counts.size() << ' '
       << init.vacancies.size() << ' ' << init.track_counters.size() << ' '
       << init.initializers.size() << ' ' << (init ? 1 : 0) << ' '
       << c.num_generated << ' ' << c.num_initializers << ' '
       << c.num_vacancies << ' ' << c.num_active << ' ' << c.num_secondaries
       << ' ' << c.num_alive;
    for (size_type i = 0; i < n; ++i)
        os << ' ' << static_cast<int>(ref.sim.status[TrackSlotId{i}]);
    for (size_type i = 0; i < init.parents.size(); ++i)
        os << ' ' << enc(init.parents[TrackSlotId{i}]);
    for (size_type i = 0; i < init.vacancies.size(); ++i)
        os << ' ' << enc(init.vacancies[TrackSlotId{i}]);
    for (size_type i = 0; i < init.track_counters.size(); ++i)
        os << ' ' << init.track_counters[EventId{i}];
    os << '\n';
}

}  // namespace verif
