(* Driver for the extracted C02 model (coq/C02/Run.v run_case): reads the same
   op-list text as harness/trackinit.cc and prints "D <case> <op> <ints>"
   lines with the same integers (no separators). *)
open C02model

let rec nat_of_int n = if n <= 0 then O else S (nat_of_int (n - 1))
let rec int_of_nat = function O -> 0 | S k -> 1 + int_of_nat k

let words s = List.filter (fun w -> w <> "") (String.split_on_char ' ' (String.trim s))

let rec take n l = if n = 0 then ([], l) else
  match l with x :: r -> let (a, b) = take (n - 1) r in (x :: a, b) | [] -> failwith "short line"

let parse_op nslots line : op =
  match words line with
  | "P" :: k :: rest ->
    let k = int_of_string k in
    let rec go k l = if k = 0 then [] else
      match l with
      | e :: p :: b :: r ->
        { p_ev = nat_of_int (int_of_string e); p_pid = nat_of_int (int_of_string p);
          p_bad = (int_of_string b = 1) } :: go (k - 1) r
      | _ -> failwith "bad P" in
    InsertPrimaries (go k rest)
  | ["E"] -> ExtendFromPrimaries
  | ["I"] -> InitializeTracks
  | "X" :: rest ->
    let rec go n l = if n = 0 then [] else
      match l with
      | d :: ns :: r ->
        let (ks, r') = take (int_of_string ns) r in
        { o_dies = (int_of_string d <> 0);
          o_secs = List.map (fun x -> nat_of_int (int_of_string x)) ks } :: go (n - 1) r'
      | _ -> failwith "bad X" in
    PhysicsOutcome (go nslots rest)
  | ["S"] -> ExtendFromSecondaries
  | ["R"] -> Reset
  | ["Z"] -> Reseed
  | _ -> failwith ("bad op: " ^ line)

let () =
  let caseno = ref (-1) in
  (try
    while true do
      let line = input_line stdin in
      match words line with
      | "CASE" :: n :: cap :: order :: nev :: _sf :: nops :: _ ->
        incr caseno;
        let n = int_of_string n and nops = int_of_string nops in
        (* the freshly constructed state *)
        print_string (Printf.sprintf "F %d" !caseno);
        List.iter (fun x -> print_char ' '; print_string (string_of_int (int_of_nat x)))
          (fresh_case (nat_of_int n) (nat_of_int (int_of_string cap)) (int_of_string order = 1)
             (nat_of_int (int_of_string nev)));
        print_newline ();
        let ops = List.init nops (fun _ -> parse_op n (input_line stdin)) in
        let res = run_case (nat_of_int n) (nat_of_int (int_of_string cap))
            (int_of_string order = 1) (nat_of_int (int_of_string nev)) ops in
        List.iteri (fun i d ->
            print_string (Printf.sprintf "D %d %d" !caseno i);
            List.iter (fun x -> print_char ' '; print_string (string_of_int (int_of_nat x))) d;
            print_newline ()) res
      | _ -> ()
    done
  with End_of_file -> ());
  Printf.printf "DONE %d\n" (!caseno + 1)
