"""C02 — every primary and secondary is transported exactly once.

Proofs: coq/Properties_C02.v (model coq/C02/TrackInit.v).
Tie: exact op-sequence differential of the model (vm_compute) against the REAL
actions of /repo driven by props/C02/harness/trackinit.cc.
Search: the property oracle (oracle.py) on the implementation's dumps."""
import json, os, re, subprocess, sys, time
import vlib

HERE = os.path.dirname(os.path.abspath(__file__))
sys.path.insert(0, HERE)
import gen, oracle, build_util   # noqa: E402

LIBS = ["testcel_celeritas", "testcel_harness", "testcel_core", "testcel_geocel",
        "celeritas", "orange", "geocel", "corecel"]
HENV = {"CELER_LOG": "critical", "CELER_LOG_LOCAL": "critical"}


MODEL_EXE = {}
NPAR = 4     # parallel chunks for the model and the harness


def _split(cases, k):
    k = max(1, min(k, len(cases)))
    size = (len(cases) + k - 1) // k
    return [cases[a:a + size] for a in range(0, len(cases), size)]


def model_eval(ctx, name, cases, nproc=None):
    """Run the extracted OCaml model (coq/C02/Extract.v + harness/driver.ml) on
    the same text the C++ harness reads."""
    from concurrent.futures import ThreadPoolExecutor

    def one(part):
        txt = "".join(gen.harness_text(c) for c in part)
        rc, out = vlib.sh([MODEL_EXE["exe"]], input=txt, timeout=1800)
        res, done = gen.parse_harness(out, len(part))
        if rc != 0 or not done:
            raise RuntimeError("extracted model failed rc=%d: %s" % (rc, out[-1500:]))
        return res

    if not cases:
        return []
    with ThreadPoolExecutor(max_workers=NPAR) as ex:
        parts = list(ex.map(one, _split(cases, NPAR if len(cases) > 50 else 1)))
    return [r for p_ in parts for r in p_]


def impl_eval(ctx, exe, cases):
    """-> (dumps per case, index of the first case that crashed the harness or None, info).
    A crash / abort / timeout / sanitizer report of the harness never loses the
    other cases: the cases after the one that was executing are run again in a
    fresh process."""
    from concurrent.futures import ThreadPoolExecutor

    def one(part):
        txt = "".join(gen.harness_text(c) for c in part)
        rc, out = ctx.run_harness(exe, input=txt, env=HENV, timeout=max(120, min(1800, 2 * len(part))))
        res, done = gen.parse_harness(out, len(part))
        why = gen.abnormal(rc, out, done)
        crashed = None
        if why:
            # the first case without a complete dump is the one that was executing
            for i, (c, r) in enumerate(zip(part, res)):
                if len(r) != len(c["ops"]):
                    crashed = i
                    break
            if crashed is None:
                crashed = len(part) - 1
                res[crashed] = res[crashed][:-1]      # mark it incomplete
            rest = part[crashed + 1:]
            res = res[:crashed + 1]
            if rest:
                res2, _, _ = one(rest)
                res += res2
            else:
                res += []
        return res, crashed, (why, out[-1500:])

    if not cases:
        return [], None, (None, "")
    parts = _split(cases, NPAR if len(cases) > 50 else 1)
    with ThreadPoolExecutor(max_workers=NPAR) as ex:
        outs = list(ex.map(one, parts))
    res, crashed, info, base = [], None, (None, ""), 0
    for part, (r, c, inf) in zip(parts, outs):
        res += r
        if c is not None and crashed is None:
            crashed, info = base + c, inf
        base += len(part)
    return res, crashed, info


def first_diff(impl, model):
    for k in range(max(len(impl), len(model))):
        a = impl[k] if k < len(impl) else None
        b = model[k] if k < len(model) else None
        if a == [8] and b == [9]:
            continue        # skipped by both: an error that was not followed by Reset
        if a != b:
            return k
    return None


def evaluate(ctx, exe, cases, name):
    """-> list of (case, impl dumps, model dumps, diff index, oracle result, crashed?)"""
    impl, crashed, info = impl_eval(ctx, exe, cases)
    model = model_eval(ctx, name, cases)
    out = []
    for i, c in enumerate(cases):
        dead = len(impl[i]) != len(c["ops"])         # harness died while executing this op list
        try:
            orc = None if dead else oracle.check_case(c, impl[i])
        except Exception as e:                       # an undecodable dump is a finding, not an internal error
            orc = (0, "oracle could not interpret the implementation's output: %r" % e)
        out.append({"case": c, "impl": impl[i], "model": model[i],
                    "diff": first_diff(impl[i], model[i]),
                    "oracle": orc,
                    "crashed": dead, "crash_info": info if dead else None})
    return out


def shrink(ctx, exe, case, pred, budget=40):
    """Greedy shrinking of the op list while pred(result) stays true."""
    best = case
    tries = 0

    def ok(c):
        nonlocal tries
        tries += 1
        # candidates that break the calling protocol (model says Misuse) are not valid inputs
        if any(d == [9] for d in model_eval(ctx, "shrinkm", [c])[0]):
            return False
        r = evaluate(ctx, exe, [c], "shrink")[0]
        return pred(r)

    # 1. truncate after the failing op
    r0 = evaluate(ctx, exe, [best], "shrink")[0]
    cut = None
    if r0["diff"] is not None:
        cut = r0["diff"]
    if r0["oracle"] is not None:
        cut = r0["oracle"][0] if cut is None else min(cut, r0["oracle"][0])
    if cut is not None and cut + 1 < len(best["ops"]):
        c = dict(best, ops=best["ops"][:cut + 1])
        if ok(c):
            best = c
    # 2. drop whole steps (I X S) / single ready-phase ops from the front
    changed = True
    while changed and tries < budget:
        changed = False
        ops = best["ops"]
        i = 0
        while i < len(ops) and tries < budget:
            if ops[i][0] == "I" and i + 2 < len(ops) and ops[i + 1][0] == "X" and ops[i + 2][0] == "S":
                cand = ops[:i] + ops[i + 3:]
            elif ops[i][0] in ("E", "Z", "R", "P"):
                cand = ops[:i] + ops[i + 1:]
            else:
                i += 1
                continue
            c = dict(best, ops=cand)
            if cand and ok(c):
                best = c
                ops = cand
                changed = True
            else:
                i += 1
    # 3. simplify outcomes: fewer secondaries
    ops = list(best["ops"])
    for i, op in enumerate(ops):
        if op[0] == "X" and tries < budget:
            simpler = [(d, [q for q in k if q][:max(0, len([q for q in k if q]) - 1)]) for d, k in op[1]]
            cand = ops[:i] + [("X", simpler)] + ops[i + 1:]
            c = dict(best, ops=cand)
            if ok(c):
                best = c
                ops = cand
    return best


def exhaustive_cases(maxn, steps):
    """all outcome patterns for <= maxn slots x <= steps steps (thorough tier):
    per slot outcome in {survive/die} x {0,1,2 secondaries}"""
    import itertools
    pats = [(d, k) for d in (0, 1) for k in ([], [2], [1, 2])]
    cases = []
    for n in range(1, maxn + 1):
        for order in (0, 1):
            for seq in itertools.product(itertools.product(pats, repeat=n), repeat=steps):
                ops = [("P", [(0, j % 2, 0) for j in range(n + 1)])]
                for outs in seq:
                    ops += [("I",), ("X", [(d, list(k)) for d, k in outs]), ("S",)]
                # ample capacity: at most 2 pushes per slot and step
                cases.append({"n": n, "cap": n + 1 + 2 * n * steps, "order": order, "nev": 1, "ops": ops})
    return cases


def load_corpus():
    d = os.path.join(HERE, "corpus")
    out = []
    if os.path.isdir(d):
        for fn in sorted(os.listdir(d)):
            if fn.endswith(".json"):
                c = json.load(open(os.path.join(d, fn)))
                c["ops"] = [tuple(o) if o[0] != "X" else ("X", [(x[0], x[1]) for x in o[1]]) for o in c["ops"]]
                c["ops"] = [("P", [tuple(p) for p in o[1]]) if o[0] == "P" else o for o in c["ops"]]
                out.append(c)
    return out


def report(ctx, exe, r, what_prefix=""):
    """turn one bad result into a violation (shrunk)"""
    case = r["case"]
    if r["crashed"]:
        why, tail = r.get("crash_info") or (None, "")
        ctx.violation("crash", what_prefix + "the real code crashed / aborted / timed out (not a RuntimeError) while executing an op list"
                      + (" [%s]" % why if why else ""),
                      {"slots": case["n"], "capacity": case["cap"], "track_order": ["none", "init_charge", "reindex_shuffle"][case["order"]],
                       "max_events": case["nev"], "ops": case["ops"], "harness_input": gen.harness_text(case),
                       "ops_completed_before_crash": len(r["impl"]), "output_tail": tail[-600:]})
        return
    has_oracle = r["oracle"] is not None
    if has_oracle:
        pred = lambda q: q["oracle"] is not None or q["crashed"]
    else:
        pred = lambda q: q["diff"] is not None or q["crashed"]
    try:
        small = shrink(ctx, exe, case, pred)
        rs = evaluate(ctx, exe, [small], "shrink")[0]
    except Exception as e:   # shrinking is best effort
        ctx.notes.append("shrink failed: %s" % e)
        small, rs = case, r
    k = rs["diff"]
    replay = {"slots": small["n"], "capacity": small["cap"], "track_order": ["none", "init_charge", "reindex_shuffle"][small["order"]],
              "max_events": small["nev"], "ops": small["ops"],
              "harness_input": gen.harness_text(small),
              "first_differing_op": k,
              "impl_dump": rs["impl"][k] if k is not None and k < len(rs["impl"]) else None,
              "model_dump": rs["model"][k] if k is not None and k < len(rs["model"]) else None,
              "dump_layout": "kind | generated initializers vacancies active secondaries alive | n x (status tid+1 parent+1 event+1 pid+1) | nvac vac+1.. | n parents+1 | ninit x (tid+1 parent+1 event+1 pid+1) | track counters"}
    if rs["oracle"] is not None:
        replay["property_violated_at_op"] = rs["oracle"][0]
        replay["property_violation"] = rs["oracle"][1]
        ctx.violation("property", what_prefix + "track bookkeeping violates C02 on the real code: " + rs["oracle"][1], replay)
    else:
        replay["theorem"] = "Properties_C02.v is about a model that no longer matches the code"
        ctx.violation("correspondence", what_prefix + "model and implementation differ at op %s" % k, replay, no_input=True)


_FLINE = re.compile(r"^F (\d+)((?: \d+)+) *$")


def parse_fresh(out, ncases):
    res = [None] * ncases
    for line in out.splitlines():
        m = _FLINE.match(line)
        if m and int(m.group(1)) < ncases and res[int(m.group(1))] is None:
            res[int(m.group(1))] = [int(x) for x in m.group(2).split()]
    return res


def fresh_oracle(n, cap, order, nev, d):
    """what every theorem assumes of the initial state, checked on the implementation's output only"""
    if d is None:
        return "no dump of the freshly constructed state"
    if n == 0:
        return None if d == [0] else "a state with 0 track slots was constructed without a RuntimeError"
    if d[0] != 1:
        return "construction of the state failed"
    exp = [n, n if order == 1 else 0, n + 1, n, nev, cap, 1 if cap > 0 and nev > 0 else 0]
    if d[1:8] != exp:
        return ("sizes of parents/indices/secondary_counts/vacancies/track_counters/initializers/bool(data) are %s, expected %s"
                % (d[1:8], exp))
    if d[8:14] != [0, 0, n, 0, 0, 0]:
        return "initial counters %s, expected num_vacancies = slots and 0 elsewhere" % d[8:14]
    p = 14
    if d[p:p + n] != [0] * n:
        return "a fresh track slot is not inactive"
    p += n
    if d[p:p + n] != [0] * n:
        return "a fresh parents entry is not null"
    p += n
    if d[p:p + n] != list(range(1, n + 1)):
        return "fresh vacancies are not 0..slots-1"
    p += n
    if d[p:] != [0] * nev:
        return "fresh track counters are not all zero"
    return None


def run_fresh(ctx, exe):
    """differential + oracle on the freshly constructed state (TrackInitData.hh resize,
    CoreState constructor) for a grid of (slots, capacity, order, max_events)"""
    r = ctx.rng
    cfgs = [(n, cap, order, nev) for n in (0, 1, 2, 3, 8, 16, 33) for cap in (0, 1, 2, 7, 64)
            for order in (0, 1, 2) for nev in (1, 3)]
    for _ in range(24 if ctx.tier == "quick" else 200):
        cfgs.append((r.choice([1, 2, 5, 9, 17, 64, r.randint(1, 128)]), r.choice([1, 3, r.randint(1, 300)]),
                     r.choice([0, 1, 1, 2]), r.choice([1, 2, 4])))
    txt = "".join("CASE %d %d %d %d 64 0\n" % c for c in cfgs)
    rc, out = ctx.run_harness(exe, input=txt, env=HENV, timeout=900)
    why = gen.abnormal(rc, out, "DONE %d" % len(cfgs) in out)
    impl = parse_fresh(out, len(cfgs))
    mrc, mout = vlib.sh([MODEL_EXE["exe"]], input=txt, timeout=600)
    if mrc != 0:
        raise RuntimeError("extracted model failed on the fresh-state cases: " + mout[-1000:])
    model = parse_fresh(mout, len(cfgs))
    nbad = 0
    for c, im, mo in zip(cfgs, impl, model):
        ctx.case(("fresh",) + c, nontrivial=c[0] > 1)
        ctx.count("fresh-state:order%d" % c[2])
        orc = fresh_oracle(c[0], c[1], c[2], c[3], im)
        if orc is None and im == mo:
            continue
        nbad += 1
        if nbad > 2:
            continue
        replay = {"slots": c[0], "capacity": c[1], "track_order": ["none", "init_charge", "reindex_shuffle"][c[2]],
                  "max_events": c[3], "harness_input": "CASE %d %d %d %d 64 0\n" % c, "impl_dump": im, "model_dump": mo,
                  "dump_layout": "ok |parents| |indices| |secondary_counts| |vacancies| |track_counters| |initializers| bool(data) | 6 counters | n statuses | n parents+1 | n vacancies+1 | track counters"}
        if im is None and why:
            replay["why"], replay["output_tail"] = why, out[-600:]
            ctx.violation("crash", "the real code crashed / aborted while constructing a state [%s]" % why, replay)
        elif orc is not None:
            replay["property_violation"] = orc
            ctx.violation("property", "the freshly constructed state violates C02's initial invariants on the real code: " + orc, replay)
        else:
            ctx.violation("correspondence", "model of the state construction (coq/C02/InitData.v) and implementation differ", replay, no_input=True)
    return len(cfgs)


def run(ctx):
    try:
        _run(ctx)
    except vlib.BuildError:
        raise
    except Exception:
        # nothing the real code does may turn into an "internal error" of the check
        import traceback
        ctx.violation("crash", "the check could not interpret the behaviour of the real code (see traceback)",
                      {"traceback": traceback.format_exc()[-3000:]}, no_input=True)


def _run(ctx):
    quick = ctx.tier == "quick"
    # VERIF_SCALE (default 1) shrinks/grows the number of generated cases (used by the mutation self-tests)
    scale = float(os.environ.get("VERIF_SCALE", "1") or 1)
    ncases = int((2400 if quick else 24000) * scale)
    ctx.trusted += [
        "hand-written model coq/C02/TrackInit.v tied by exact op-sequence differential (props/C02/run.py, harness/trackinit.cc)",
        "serial (host, OpenMP=event) semantics of atomic_add / kernel launches; std::remove_if, std::stable_partition, std::exclusive_scan specifications",
        "the scripted interaction in the harness stands for all physics (sets killed / attaches secondaries through the public views)",
    ]
    ctx.assumptions += [
        "calling protocol of the Stepper's action sequence: [insert+]extend-from-primaries, initialize-tracks, pre-step..post, extend-from-secondaries; Reset after an error; reseed only when drained (other orders are `Misuse` in the model)",
        "drain_terminates: the physics is an arbitrary outcome strategy that is finitely productive w.r.t. some potential (hypothesis of the theorem)",
    ]
    proofs_ok = ctx.coq_prove("Properties_C02.v")
    ok, log = ctx.coq_build(["C02/Run.vo"])
    if not ok:      # the shared coq/ tree may be mid-edit by another builder: one retry
        time.sleep(3)
        ok, log = ctx.coq_build(["C02/Run.vo"])
    if not ok:
        ctx.violation("model-broken", "the executable model no longer compiles", {"log": log[-2000:]}, no_input=True)
        return
    MODEL_EXE["exe"] = ctx.ocaml_extract("C02/Extract.v", os.path.join(HERE, "harness", "driver.ml"), "c02model_exe", "c02model")
    ctx.build_libs(["testcel_celeritas"])
    # the harness is linked with the track-init translation units of the source
    # tree as it is now (they override the copies inside libceleritas)
    exe = build_util.compile_with_repo_sources(ctx, [os.path.join(HERE, "harness", "trackinit.cc")], "trackinit",
                                               build_util.TRACK_TUS, LIBS)
    t = time.time()
    nf = run_fresh(ctx, exe)
    ctx.log("fresh-state differential: %d configurations in %.1fs" % (nf, time.time() - t))
    cases = load_corpus()
    ncorp = len(cases)
    r = ctx.rng
    while len(cases) < ncases + ncorp:
        cases.append(gen.gen_case(r, ctx.tier))
    if not quick:
        cases += exhaustive_cases(1, 4) + exhaustive_cases(2, 3) + exhaustive_cases(3, 2)
    t = time.time()
    nbad = 0
    B = 20000
    for b0 in range(0, len(cases), B):
        results = evaluate(ctx, exe, cases[b0:b0 + B], "cases")
        for rr in results:
            c = rr["case"]
            nops = len(c["ops"])
            ctx.count("order:%s" % ["none", "init_charge", "reindex_shuffle"][c["order"]])
            ctx.count("slots:%d" % c["n"])
            nerr = sum(1 for d in rr["impl"] if d and d[0] == 1)
            ctx.count("cases-with-capacity-error" if nerr else "cases-without-error")
            ctx.case((c["n"], c["cap"], c["order"], c["nev"], gen.harness_text(c)), nontrivial=nops >= 4)
            ctx.evaluations += nops - 1       # every op of the list is a compared state
            if len(ctx.samples) < 3:
                ctx.sample({"slots": c["n"], "capacity": c["cap"], "order": c["order"], "ops": gen.harness_text(c).splitlines()[:8],
                            "last_dump_impl": rr["impl"][-1] if rr["impl"] else None})
            if rr["diff"] is not None or rr["oracle"] is not None or rr["crashed"]:
                nbad += 1
                if nbad <= 3:
                    report(ctx, exe, rr)
        if nbad:
            break
    ctx.log("differential: %d op lists in %.1fs, %d bad" % (len(cases), time.time() - t, nbad))
    if not proofs_ok and not ctx.violations:
        ctx.violation("proof-broken", "Properties_C02.v no longer checks", ctx.broken_proof, no_input=True)
    ctx.coverage["rule"] = ("case = (slots, capacity, track order, max events, op list) drawn from one PRNG seeded by VERIF_SEED; "
                            "every op's full bookkeeping dump is compared exactly with the model; evaluations = compared dumps; "
                            "non-trivial = op list of length >= 4; distinct by full text")
    ctx.coverage["traces_validated_against_impl"] = len(cases)
