"""Compile a harness together with selected translation units of the repo's
working tree (vlib.REPO), so that the code under test is what is in the source
tree at check time even when it lives in .cc files or in headers that are only
instantiated inside libceleritas: the definitions in the executable take
precedence over the ones in the shared library (ELF symbol interposition; the
library is built with default visibility and without -Bsymbolic).

Objects are cached under ctx.work/obj and rebuilt when any file listed in the
compiler-generated dependency file (-MMD) is newer than the object."""
import hashlib, os, re, shlex, time
from concurrent.futures import ThreadPoolExecutor
import vlib

TRACK_TUS = ["src/celeritas/track/ExtendFromSecondariesAction.cc",
             "src/celeritas/track/InitializeTracksAction.cc",
             "src/celeritas/track/ExtendFromPrimariesAction.cc",
             "src/celeritas/track/detail/TrackInitAlgorithms.cc",
             "src/celeritas/global/CoreState.cc",
             # resize(CoreStateData*): instantiates TrackInitData.hh / SimData.hh / PhysicsData.hh resize
             "src/celeritas/global/CoreTrackData.cc",
             # the pre-step action driven by the harness (PreStepExecutor.hh: per-step clear of the secondary stack)
             "src/celeritas/phys/detail/PreStepAction.cc"]
STEPPER_TUS = TRACK_TUS + ["src/celeritas/global/Stepper.cc",
                           "src/celeritas/em/model/KleinNishinaModel.cc"]


def _fresh(obj, dep):
    if not (os.path.exists(obj) and os.path.exists(dep)):
        return False
    t = os.path.getmtime(obj)
    txt = open(dep).read().replace("\\\n", " ")
    parts = txt.split(":", 1)
    if len(parts) != 2:
        return False
    for f in shlex.split(parts[1]):
        try:
            if os.path.getmtime(f) > t:
                return False
        except OSError:
            return False
    return True


def compile_with_repo_sources(ctx, harness_srcs, exe, repo_rel_srcs, libs, opt="-O1"):
    fl, ld = ctx.cxx_flags(libs, True, opt)
    objdir = os.path.join(ctx.work, "obj")
    os.makedirs(objdir, exist_ok=True)
    srcs = list(harness_srcs) + [os.path.join(vlib.REPO, r) for r in repo_rel_srcs]
    tag = hashlib.sha1((" ".join(fl) + vlib.REPO).encode()).hexdigest()[:8]
    t0 = time.time()

    def one(src):
        base = re.sub(r"[^A-Za-z0-9_.]", "_", os.path.relpath(src, "/"))
        obj = os.path.join(objdir, "%s.%s.o" % (base, tag))
        dep = obj[:-2] + ".d"
        if _fresh(obj, dep):
            return obj, 0, "", True
        rc, out = vlib.sh(["g++"] + fl + ["-MMD", "-MF", dep, "-c", src, "-o", obj], timeout=900)
        return obj, rc, out, False

    with ThreadPoolExecutor(max_workers=min(8, len(srcs))) as ex:
        res = list(ex.map(one, srcs))
    for (obj, rc, out, _), src in zip(res, srcs):
        if rc != 0:
            raise vlib.BuildError("compile failed: " + src, out[-4000:])
    out_exe = os.path.join(ctx.work, exe)
    rc, out = vlib.sh(["g++", "-fopenmp"] + [r[0] for r in res] + ["-o", out_exe] + ld, timeout=600)
    if rc != 0:
        raise vlib.BuildError("link failed: " + exe, out[-4000:])
    ctx.log("built %s: %d objects (%d cached) in %.1fs" % (exe, len(res), sum(1 for r in res if r[3]), time.time() - t0))
    return out_exe
