// C09 correspondence harness, part 2: bounding-zone algebra, transformed boxes,
// soft surface equality, the local surface inserter and its grid hash.
//
// One request per line (numbers via strtod: hex floats, "inf", "-inf"):
//   bz <i|u> <zone> <zone>       zone ::= ilo(3) ihi(3) xlo(3) xhi(3) negated(0|1)
//        -> "bz ilo(3) ihi(3) xlo(3) xhi(3) negated extbox(6)"   (extbox = get_exterior_bbox)
//   bt m00..m22 tx ty tz lo(3) hi(3)   -> "bt lo(3) hi(3)"       (calc_transform(Transformation, BBox))
//   sse rel abs <surf> <surf>     -> "sse soft(0|1) exact(0|1)"
//   lsi rel abs n <surf>*n        -> "lsi {id size}*n"           (LocalSurfaceInserter, fresh instance;
//                                     returned id and number of stored surfaces after each call)
//   gh gridscale tol h1 h2        -> "gh n1 n2 meet(0|1)"        (SurfaceGridHash key counts, shared key?)
//   surf ::= pa ax d | cc ax rsq | sc rsq | ca ax ou ov rsq | pl nx ny nz d | sp ox oy oz rsq
//          | ko ax ox oy oz tsq | sq a b c d e f g | gq a b c d e f g h i j
// Every answer is one line; "error <msg>" if the library throws.
#include <iostream>
#include <sstream>
#include <string>
#include <variant>
#include <vector>

#include "../../../harness/common.hh"

#include "corecel/cont/Array.hh"
#include "geocel/BoundingBox.hh"
#include "orange/BoundingBoxUtils.hh"
#include "orange/OrangeTypes.hh"
#include "orange/orangeinp/detail/BoundingZone.hh"
#include "orange/orangeinp/detail/LocalSurfaceInserter.hh"
#include "orange/orangeinp/detail/SurfaceGridHash.hh"
#include "orange/surf/SoftSurfaceEqual.hh"
#include "orange/surf/VariantSurface.hh"
#include "orange/transform/Transformation.hh"

using namespace celeritas;
using celeritas::orangeinp::detail::BoundingZone;
using celeritas::orangeinp::detail::LocalSurfaceInserter;
using celeritas::orangeinp::detail::SurfaceGridHash;
using verif::hex;

namespace
{
struct Tok
{
    std::istringstream is;
    double num()
    {
        std::string s;
        if (!(is >> s)) throw std::runtime_error("missing number");
        return std::strtod(s.c_str(), nullptr);
    }
    std::string word()
    {
        std::string s;
        if (!(is >> s)) throw std::runtime_error("missing token");
        return s;
    }
    Real3 vec() { Real3 r; for (auto& x : r) x = num(); return r; }
};

BBox read_box(Tok& t)
{
    Real3 lo = t.vec();
    Real3 hi = t.vec();
    return BBox::from_unchecked(lo, hi);
}
BoundingZone read_zone(Tok& t)
{
    BoundingZone z;
    z.interior = read_box(t);
    z.exterior = read_box(t);
    z.negated = (t.num() != 0);
    return z;
}
void put_box(std::ostream& os, BBox const& b)
{
    for (auto v : b.lower()) os << " " << hex(v);
    for (auto v : b.upper()) os << " " << hex(v);
}

template<template<Axis> class S, class... Args>
VariantSurface make_axis(int ax, Args const&... a)
{
    switch (ax)
    {
        case 0: return S<Axis::x>(a...);
        case 1: return S<Axis::y>(a...);
        default: return S<Axis::z>(a...);
    }
}
template<template<Axis> class S, class... Args>
VariantSurface make_axis_rsq(int ax, Args const&... a)
{
    switch (ax)
    {
        case 0: return S<Axis::x>::from_radius_sq(a...);
        case 1: return S<Axis::y>::from_radius_sq(a...);
        default: return S<Axis::z>::from_radius_sq(a...);
    }
}
VariantSurface make_cone(int ax, Real3 const& o, real_type tsq)
{
    switch (ax)
    {
        case 0: return ConeAligned<Axis::x>::from_tangent_sq(o, tsq);
        case 1: return ConeAligned<Axis::y>::from_tangent_sq(o, tsq);
        default: return ConeAligned<Axis::z>::from_tangent_sq(o, tsq);
    }
}

VariantSurface read_surf(Tok& t)
{
    std::string k = t.word();
    if (k == "pa") { int ax = int(t.num()); double d = t.num(); return make_axis<PlaneAligned>(ax, d); }
    if (k == "cc") { int ax = int(t.num()); double r = t.num(); return make_axis_rsq<CylCentered>(ax, r); }
    if (k == "sc") { return SphereCentered::from_radius_sq(t.num()); }
    if (k == "ca")
    {
        int ax = int(t.num());
        double ou = t.num(), ov = t.num(), r = t.num();
        Real3 o{0, 0, 0};
        int u = (ax == 0 ? 1 : 0), v = (ax == 2 ? 1 : 2);
        o[u] = ou;
        o[v] = ov;
        return make_axis_rsq<CylAligned>(ax, o, r);
    }
    if (k == "pl") { Real3 n = t.vec(); double d = t.num(); return Plane(n, d); }
    if (k == "sp") { Real3 o = t.vec(); double r = t.num(); return Sphere::from_radius_sq(o, r); }
    if (k == "ko") { int ax = int(t.num()); Real3 o = t.vec(); double ts = t.num(); return make_cone(ax, o, ts); }
    if (k == "sq") { Real3 a = t.vec(); Real3 d = t.vec(); double g = t.num(); return SimpleQuadric(a, d, g); }
    if (k == "gq") { Real3 a = t.vec(); Real3 d = t.vec(); Real3 g = t.vec(); double j = t.num(); return GeneralQuadric(a, d, g, j); }
    throw std::runtime_error("unknown surface " + k);
}

Tolerance<> read_tol(Tok& t)
{
    Tolerance<> tol;
    tol.rel = t.num();
    tol.abs = t.num();
    return tol;
}
}  // namespace

int main()
{
    if (!std::freopen("/dev/null", "w", stderr)) { /* keep going */ }
    std::string line;
    while (std::getline(std::cin, line))
    {
        if (line.empty()) continue;
        Tok t{std::istringstream(line)};
        std::ostringstream os;
        try
        {
            std::string c = t.word();
            if (c == "bz")
            {
                std::string op = t.word();
                BoundingZone a = read_zone(t);
                BoundingZone b = read_zone(t);
                BoundingZone r = (op == "i") ? orangeinp::detail::calc_intersection(a, b)
                                             : orangeinp::detail::calc_union(a, b);
                os << "bz";
                put_box(os, r.interior);
                put_box(os, r.exterior);
                os << " " << (r.negated ? 1 : 0);
                put_box(os, orangeinp::detail::get_exterior_bbox(r));
            }
            else if (c == "bt")
            {
                SquareMatrixReal3 m;
                for (auto& row : m) row = t.vec();
                Real3 tr = t.vec();
                BBox b = read_box(t);
                BBox r = calc_transform(Transformation{m, tr}, b);
                os << "bt";
                put_box(os, r);
            }
            else if (c == "sse")
            {
                Tolerance<> tol = read_tol(t);
                VariantSurface va = read_surf(t);
                VariantSurface vb = read_surf(t);
                SoftSurfaceEqual soft{tol};
                ExactSurfaceEqual exact;
                bool s = false, e = false;
                std::visit(
                    [&](auto const& a) {
                        using S = std::decay_t<decltype(a)>;
                        if (auto const* b = std::get_if<S>(&vb))
                        {
                            s = soft(a, *b);
                            e = exact(a, *b);
                        }
                    },
                    va);
                os << "sse " << (s ? 1 : 0) << " " << (e ? 1 : 0);
            }
            else if (c == "lsi")
            {
                Tolerance<> tol = read_tol(t);
                int n = int(t.num());
                std::vector<VariantSurface> stored;
                LocalSurfaceInserter insert(&stored, tol);
                os << "lsi";
                for (int i = 0; i < n; ++i)
                {
                    VariantSurface v = read_surf(t);
                    LocalSurfaceId id = std::visit([&](auto const& s) { return insert(s); }, v);
                    os << " " << id.unchecked_get() << " " << stored.size();
                }
            }
            else if (c == "gh")
            {
                double scale = t.num(), tol = t.num(), h1 = t.num(), h2 = t.num();
                SurfaceGridHash gh(scale, tol);
                auto k1 = gh(SurfaceType::px, h1);
                auto k2 = gh(SurfaceType::px, h2);
                auto count = [](SurfaceGridHash::result_type const& k) {
                    return k[1] == SurfaceGridHash::redundant() ? 1 : 2;
                };
                bool meet = false;
                for (auto a : k1)
                    for (auto b : k2)
                        if (a != SurfaceGridHash::redundant() && a == b) meet = true;
                os << "gh " << count(k1) << " " << count(k2) << " " << (meet ? 1 : 0);
            }
            else
            {
                throw std::runtime_error("unknown command " + c);
            }
        }
        catch (std::exception const& e)
        {
            std::string msg = e.what();
            for (auto& ch : msg) if (ch == '\n') ch = ' ';
            os.str("");
            os << "error " << msg;
        }
        std::cout << os.str() << "\n";
    }
    std::cout << "done" << std::endl;
    return 0;
}
