// C09 correspondence/search harness.
//
// Reads object-tree descriptions (text, stdin), builds them with the REAL
// construction classes (IntersectRegion primitives -> Shape/Solid/PolyCone/
// PolyPrism/Transformed/CsgObject -> UnitProto -> InputBuilder -> OrangeParams)
// and
//  (a) dumps the signed surfaces emitted by a primitive's `build`
//      (`prim` command: through IntersectSurfaceBuilder with no transform), and
//  (b) initialises a track at every probe point of the finished geometry and
//      prints the label of the volume the runtime assigns to the point.
//
// Grammar (whitespace separated tokens, numbers via strtod => hex floats ok):
//   tol <rel>
//   case <id>
//     prim <prim> | primt <transform> <prim>   (surfaces in the transformed frame)
//     unit <label>
//        boundary <media|exterior> <obj>
//        background <0|1>
//        daughter <unitlabel> <transform>
//        material <label> <obj>
//     endunit                      (last unit of the case = global universe)
//     probes <n>  { x y z }*n
//   endcase
//   <prim> ::= box hx hy hz | sphere r | cyl r hh | cone rlo rhi hh
//            | ellipsoid rx ry rz | prism n apothem hh orient
//            | ppiped hx hy hz alpha theta phi | wedge start interior
//            | genprism hz n {lox loy}*n {hix hiy}*n | trd hz lox loy hix hiy
//            | trap hz theta phi  hy hxlo hxhi alpha  hy hxlo hxhi alpha
//   <obj>  ::= <prim>
//            | solid <prim> <0|1 [prim]> <0|1 [start interior]>
//            | polycone n {z}*n {router}*n <0|1 [{rinner}*n]> <0|1 [start interior]> <or_solid 0|1>
//            | polyprism nsides orient n {z}*n {router}*n <0|1 [..]> <0|1 [..]> <or_solid 0|1>
//            | trans <transform> <obj> | neg <obj> | all k <obj>*k | any k <obj>*k
//            | sub <obj> <obj> | def <name> <obj> | ref <name> | dint <i> | bound
//   <transform> ::= none | tl x y z | tf m00 m01 m02 m10 .. m22 x y z
#include <fstream>
#include <map>
#include <memory>
#include <optional>

#include "../../../harness/common.hh"

#include "corecel/data/CollectionStateStore.hh"
#include "corecel/io/Label.hh"
#include "corecel/io/Logger.hh"
#include "corecel/math/Turn.hh"
#include "geocel/Types.hh"
#include "orange/OrangeData.hh"
#include "orange/OrangeInput.hh"
#include "orange/OrangeParams.hh"
#include "orange/OrangeTrackView.hh"
#include "orange/OrangeTypes.hh"
#include "orange/orangeinp/CsgObject.hh"
#include "orange/orangeinp/InputBuilder.hh"
#include "orange/orangeinp/IntersectRegion.hh"
#include "orange/orangeinp/IntersectSurfaceBuilder.hh"
#include "orange/orangeinp/PolySolid.hh"
#include "orange/orangeinp/Shape.hh"
#include "orange/orangeinp/Solid.hh"
#include "orange/orangeinp/Transformed.hh"
#include "orange/orangeinp/UnitProto.hh"
#include "orange/orangeinp/detail/CsgUnit.hh"
#include "orange/orangeinp/detail/CsgUnitBuilder.hh"
#include "orange/orangeinp/detail/IntersectSurfaceState.hh"
#include "orange/surf/VariantSurface.hh"
#include "orange/transform/Transformation.hh"
#include "orange/transform/Translation.hh"

using namespace celeritas;
using namespace celeritas::orangeinp;
using verif::hex;

namespace
{
using SPObj = std::shared_ptr<ObjectInterface const>;
using SPProto = std::shared_ptr<ProtoInterface const>;
using Tol = Tolerance<>;

struct Tokens
{
    std::istream& is;
    std::string next()
    {
        std::string s;
        if (!(is >> s))
            throw std::runtime_error("unexpected end of input");
        return s;
    }
    double num() { return std::strtod(next().c_str(), nullptr); }
    int integer() { return std::atoi(next().c_str()); }
};

//! A primitive: exactly one of the alternatives is set
struct Prim
{
    std::string kind;
    std::optional<Box> box;
    std::optional<orangeinp::Sphere> sphere;
    std::optional<Cylinder> cyl;
    std::optional<Cone> cone;
    std::optional<Ellipsoid> ell;
    std::optional<Prism> prism;
    std::optional<Parallelepiped> ppiped;
    std::optional<InfWedge> wedge;
    std::optional<GenPrism> gp;

    IntersectRegionInterface const& region() const
    {
        if (box) return *box;
        if (sphere) return *sphere;
        if (cyl) return *cyl;
        if (cone) return *cone;
        if (ell) return *ell;
        if (prism) return *prism;
        if (ppiped) return *ppiped;
        if (wedge) return *wedge;
        if (gp) return *gp;
        throw std::runtime_error("empty prim");
    }
};

bool is_prim(std::string const& k)
{
    static char const* const names[] = {"box", "sphere", "cyl", "cone", "ellipsoid", "prism",
                                        "ppiped", "wedge", "genprism", "trd", "trap"};
    for (auto* n : names)
        if (k == n) return true;
    return false;
}

Prim read_prim(Tokens& t, std::string const& k)
{
    Prim p;
    p.kind = k;
    if (k == "box")
    {
        double a = t.num(), b = t.num(), c = t.num();
        p.box.emplace(Real3{a, b, c});
    }
    else if (k == "sphere") { p.sphere.emplace(t.num()); }
    else if (k == "cyl")
    {
        double r = t.num(), h = t.num();
        p.cyl.emplace(r, h);
    }
    else if (k == "cone")
    {
        double lo = t.num(), hi = t.num(), h = t.num();
        p.cone.emplace(Real2{lo, hi}, h);
    }
    else if (k == "ellipsoid")
    {
        double a = t.num(), b = t.num(), c = t.num();
        p.ell.emplace(Real3{a, b, c});
    }
    else if (k == "prism")
    {
        int n = t.integer();
        double a = t.num(), h = t.num(), o = t.num();
        p.prism.emplace(n, a, h, o);
    }
    else if (k == "ppiped")
    {
        double a = t.num(), b = t.num(), c = t.num();
        double al = t.num(), th = t.num(), ph = t.num();
        p.ppiped.emplace(Real3{a, b, c}, Turn{al}, Turn{th}, Turn{ph});
    }
    else if (k == "wedge")
    {
        double s = t.num(), i = t.num();
        p.wedge.emplace(Turn{s}, Turn{i});
    }
    else if (k == "genprism")
    {
        double hz = t.num();
        int n = t.integer();
        GenPrism::VecReal2 lo(n), hi(n);
        for (auto& v : lo) { v[0] = t.num(); v[1] = t.num(); }
        for (auto& v : hi) { v[0] = t.num(); v[1] = t.num(); }
        p.gp.emplace(hz, lo, hi);
    }
    else if (k == "trd")
    {
        double hz = t.num();
        double a = t.num(), b = t.num(), c = t.num(), d = t.num();
        p.gp.emplace(GenPrism::from_trd(hz, Real2{a, b}, Real2{c, d}));
    }
    else if (k == "trap")
    {
        double hz = t.num(), th = t.num(), ph = t.num();
        GenPrism::TrapFace f[2];
        for (auto& face : f)
        {
            face.hy = t.num();
            face.hx_lo = t.num();
            face.hx_hi = t.num();
            face.alpha = Turn{t.num()};
        }
        p.gp.emplace(GenPrism::from_trap(hz, Turn{th}, Turn{ph}, f[0], f[1]));
    }
    else
        throw std::runtime_error("unknown primitive " + k);
    return p;
}

VariantTransform read_transform(Tokens& t)
{
    std::string k = t.next();
    if (k == "none") return NoTransformation{};
    if (k == "tl")
    {
        double x = t.num(), y = t.num(), z = t.num();
        return Translation{Real3{x, y, z}};
    }
    if (k == "tf")
    {
        SquareMatrixReal3 m;
        for (int i = 0; i < 3; ++i)
            for (int j = 0; j < 3; ++j)
                m[i][j] = t.num();
        double x = t.num(), y = t.num(), z = t.num();
        return Transformation{m, Real3{x, y, z}};
    }
    throw std::runtime_error("unknown transform " + k);
}

struct UnitCtx
{
    int* counter;
    std::map<std::string, SPObj> defs;
    std::vector<UnitProto::DaughterInput> const* daughters{nullptr};
    SPObj boundary;
};

std::string fresh(UnitCtx& c, char const* base)
{
    return std::string(base) + std::to_string((*c.counter)++);
}

template<class T>
SPObj shape_of(std::string&& label, T const& region)
{
    return std::make_shared<Shape<T>>(std::move(label), T{region});
}

SPObj prim_shape(UnitCtx& c, Prim const& p)
{
    std::string lab = fresh(c, p.kind.c_str());
    if (p.box) return shape_of(std::move(lab), *p.box);
    if (p.sphere) return shape_of(std::move(lab), *p.sphere);
    if (p.cyl) return shape_of(std::move(lab), *p.cyl);
    if (p.cone) return shape_of(std::move(lab), *p.cone);
    if (p.ell) return shape_of(std::move(lab), *p.ell);
    if (p.prism) return shape_of(std::move(lab), *p.prism);
    if (p.ppiped) return shape_of(std::move(lab), *p.ppiped);
    if (p.wedge) return shape_of(std::move(lab), *p.wedge);
    if (p.gp) return shape_of(std::move(lab), *p.gp);
    throw std::runtime_error("empty prim");
}

SolidEnclosedAngle read_angle(Tokens& t)
{
    if (t.integer())
    {
        double s = t.num(), i = t.num();
        return SolidEnclosedAngle{Turn{s}, Turn{i}};
    }
    return {};
}

template<class T>
SPObj make_solid(std::string&& lab, T const& in, std::optional<T> const& ex, SolidEnclosedAngle sea)
{
    return std::make_shared<Solid<T>>(std::move(lab), T{in}, std::optional<T>{ex}, std::move(sea));
}

SPObj read_obj(Tokens& t, UnitCtx& c);

PolySegments read_segments(Tokens& t)
{
    int n = t.integer();
    std::vector<double> z(n), ro(n), ri;
    for (auto& v : z) v = t.num();
    for (auto& v : ro) v = t.num();
    if (t.integer())
    {
        ri.resize(n);
        for (auto& v : ri) v = t.num();
        return PolySegments{std::move(ri), std::move(ro), std::move(z)};
    }
    return PolySegments{std::move(ro), std::move(z)};
}

SPObj read_obj(Tokens& t, UnitCtx& c)
{
    std::string k = t.next();
    if (is_prim(k))
    {
        return prim_shape(c, read_prim(t, k));
    }
    if (k == "solid")
    {
        std::string pk = t.next();
        Prim in = read_prim(t, pk);
        std::optional<Prim> ex;
        if (t.integer())
        {
            std::string ek = t.next();
            ex = read_prim(t, ek);
        }
        SolidEnclosedAngle sea = read_angle(t);
        std::string lab = fresh(c, "solid");
        if (in.cone)
            return make_solid<Cone>(std::move(lab), *in.cone, ex ? ex->cone : std::nullopt, sea);
        if (in.cyl)
            return make_solid<Cylinder>(std::move(lab), *in.cyl, ex ? ex->cyl : std::nullopt, sea);
        if (in.prism)
            return make_solid<Prism>(std::move(lab), *in.prism, ex ? ex->prism : std::nullopt, sea);
        if (in.sphere)
            return make_solid<orangeinp::Sphere>(std::move(lab), *in.sphere, ex ? ex->sphere : std::nullopt, sea);
        throw std::runtime_error("solid of unsupported kind " + pk);
    }
    if (k == "polycone")
    {
        PolySegments seg = read_segments(t);
        SolidEnclosedAngle sea = read_angle(t);
        bool or_solid = t.integer();
        std::string lab = fresh(c, "pcone");
        if (or_solid)
            return PolyCone::or_solid(std::move(lab), std::move(seg), std::move(sea));
        return std::make_shared<PolyCone>(std::move(lab), std::move(seg), std::move(sea));
    }
    if (k == "polyprism")
    {
        int ns = t.integer();
        double orient = t.num();
        PolySegments seg = read_segments(t);
        SolidEnclosedAngle sea = read_angle(t);
        bool or_solid = t.integer();
        std::string lab = fresh(c, "pprism");
        if (or_solid)
            return PolyPrism::or_solid(std::move(lab), std::move(seg), std::move(sea), ns, orient);
        return std::make_shared<PolyPrism>(std::move(lab), std::move(seg), std::move(sea), ns, orient);
    }
    if (k == "trans")
    {
        VariantTransform tr = read_transform(t);
        SPObj o = read_obj(t, c);
        return Transformed::or_object(std::move(o), tr);
    }
    if (k == "neg")
    {
        SPObj o = read_obj(t, c);
        return std::make_shared<NegatedObject>(fresh(c, "neg"), std::move(o));
    }
    if (k == "all" || k == "any")
    {
        int n = t.integer();
        std::vector<SPObj> v;
        for (int i = 0; i < n; ++i) v.push_back(read_obj(t, c));
        if (k == "all")
            return std::make_shared<AllObjects>(fresh(c, "all"), std::move(v));
        return std::make_shared<AnyObjects>(fresh(c, "any"), std::move(v));
    }
    if (k == "sub")
    {
        SPObj a = read_obj(t, c);
        SPObj b = read_obj(t, c);
        return make_subtraction(fresh(c, "sub"), a, b);
    }
    if (k == "def")
    {
        std::string name = t.next();
        SPObj o = read_obj(t, c);
        c.defs[name] = o;
        return o;
    }
    if (k == "ref")
    {
        std::string name = t.next();
        auto it = c.defs.find(name);
        if (it == c.defs.end()) throw std::runtime_error("undefined ref " + name);
        return it->second;
    }
    if (k == "dint")
    {
        int i = t.integer();
        if (!c.daughters || i < 0 || std::size_t(i) >= c.daughters->size())
            throw std::runtime_error("bad daughter index");
        return (*c.daughters)[i].make_interior();
    }
    if (k == "bound")
    {
        if (!c.boundary) throw std::runtime_error("boundary not yet defined");
        return c.boundary;
    }
    throw std::runtime_error("unknown object kind " + k);
}

//! Dump the signed surfaces a primitive's build() emits (no transform)
void dump_prim(Prim const& p, Tol const& tol, VariantTransform const& trans = NoTransformation{})
{
    orangeinp::detail::CsgUnit unit;
    orangeinp::detail::CsgUnitBuilder ub{&unit, tol, BBox::from_infinite()};
    orangeinp::detail::IntersectSurfaceState css;
    css.transform = &trans;
    css.make_face_name = {};
    css.object_name = "p";
    IntersectSurfaceBuilder insert_surface{&ub, &css};
    p.region().build(insert_surface);

    std::cout << "prim " << p.kind << " " << css.nodes.size() << "\n";
    for (NodeId nid : css.nodes)
    {
        bool inside = false;
        Node const* node = &unit.tree[nid];
        if (auto* neg = std::get_if<Negated>(node))
        {
            inside = true;
            node = &unit.tree[neg->node];
        }
        auto* sn = std::get_if<orangeinp::Surface>(node);
        if (!sn)
        {
            std::cout << "  " << (inside ? "in" : "out") << " notasurface 0\n";
            continue;
        }
        VariantSurface const& vs = unit.surfaces[sn->id.unchecked_get()];
        std::visit(
            [&](auto const& s) {
                using S = std::decay_t<decltype(s)>;
                auto d = s.data();
                std::cout << "  " << (inside ? "in" : "out") << " "
                          << to_cstring(S::surface_type()) << " " << d.size();
                for (auto v : d) std::cout << " " << hex(v);
                std::cout << "\n";
            },
            vs);
    }
    auto pb = [](char const* name, BBox const& b) {
        std::cout << "  " << name;
        if (!b) { std::cout << " null\n"; return; }
        for (auto v : b.lower()) std::cout << " " << hex(v);
        for (auto v : b.upper()) std::cout << " " << hex(v);
        std::cout << "\n";
    };
    pb("bbox_int", css.local_bzone.interior);
    pb("bbox_ext", css.local_bzone.exterior);
    pb("gbbox_ext", css.global_bzone.exterior);  // exterior box in the parent (transformed) frame
}

struct Case
{
    int counter{0};
    std::map<std::string, std::shared_ptr<UnitProto>> units;
    std::shared_ptr<UnitProto> last;
};

void read_unit(Tokens& t, Case& cs)
{
    UnitProto::Input inp;
    inp.label = t.next();
    UnitCtx ctx;
    ctx.counter = &cs.counter;
    ctx.daughters = &inp.daughters;
    unsigned mat = 0;
    for (;;)
    {
        std::string k = t.next();
        if (k == "endunit") break;
        if (k == "boundary")
        {
            std::string z = t.next();
            inp.boundary.zorder = (z == "media") ? ZOrder::media : ZOrder::exterior;
            inp.boundary.interior = read_obj(t, ctx);
            ctx.boundary = inp.boundary.interior;
        }
        else if (k == "background")
        {
            if (t.integer())
            {
                inp.background.fill = GeoMaterialId{99};
                inp.background.label = Label{inp.label + ".bg"};
            }
        }
        else if (k == "daughter")
        {
            std::string u = t.next();
            auto it = cs.units.find(u);
            if (it == cs.units.end()) throw std::runtime_error("unknown unit " + u);
            UnitProto::DaughterInput d;
            d.fill = it->second;
            d.transform = read_transform(t);
            inp.daughters.push_back(std::move(d));
        }
        else if (k == "material")
        {
            UnitProto::MaterialInput m;
            m.label = Label{t.next()};
            m.interior = read_obj(t, ctx);
            m.fill = GeoMaterialId{mat++};
            inp.materials.push_back(std::move(m));
        }
        else
            throw std::runtime_error("unknown unit entry " + k);
    }
    std::string label = inp.label;
    cs.last = std::make_shared<UnitProto>(std::move(inp));
    cs.units[label] = cs.last;
}

void run_probes(Tokens& t, Case& cs, Tol const& tol)
{
    int n = t.integer();
    std::vector<Real3> pts(n);
    for (auto& p : pts) { p[0] = t.num(); p[1] = t.num(); p[2] = t.num(); }
    if (!cs.last) throw std::runtime_error("no unit defined");

    InputBuilder::Options opts;
    opts.tol = tol;
    if (char const* dbg = std::getenv("VERIF_C09_DEBUG"))
    {
        opts.debug_output_file = std::string(dbg) + ".csg.json";
        opts.proto_output_file = std::string(dbg) + ".protos.json";
    }
    InputBuilder build_input{std::move(opts)};
    OrangeInput inp = build_input(*cs.last);
    // declared bounding box of every volume (what the BIH will use)
    for (auto const& vu : inp.universes)
    {
        if (auto const* ui = std::get_if<UnitInput>(&vu))
        {
            for (auto const& v : ui->volumes)
            {
                std::cout << "vol " << ui->label.name << " " << v.label.name;
                if (!v.bbox) { std::cout << " null\n"; continue; }
                for (auto x : v.bbox.lower()) std::cout << " " << hex(x);
                for (auto x : v.bbox.upper()) std::cout << " " << hex(x);
                std::cout << "\n";
            }
        }
    }
    OrangeParams params{std::move(inp)};
    CollectionStateStore<OrangeStateData, MemSpace::host> state(params.host_ref(), 1);

    std::cout << "probes " << n << "\n";
    for (auto const& p : pts)
    {
        OrangeTrackView geo(params.host_ref(), state.ref(), TrackSlotId{0});
        geo = GeoTrackInitializer{p, Real3{0, 0, 1}};
        if (geo.failed())
        {
            std::cout << "  FAILED level=" << geo.level().unchecked_get() << "\n";
            continue;
        }
        VolumeId v = geo.volume_id();
        if (!v) { std::cout << "  NOVOLUME\n"; continue; }
        Label const& lab = params.volumes().at(v);
        std::cout << "  " << lab.name << (lab.ext.empty() ? "" : "@") << lab.ext
                  << " " << geo.level().unchecked_get() << "\n";
    }
}
}  // namespace

int main()
{
    // library log messages (e.g. "Failed to initialize geometry state") must not interleave with
    // the protocol on stdout: send stderr to a file (VERIF_C09_STDERR) or discard it
    {
        char const* errf = std::getenv("VERIF_C09_STDERR");
        if (!std::freopen(errf ? errf : "/dev/null", "w", stderr)) { /* keep going */ }
    }
    Tokens t{std::cin};
    Tol tol = Tol::from_default();
    std::string k;
    while (std::cin >> k)
    {
        if (k == "tol")
        {
            tol = Tol::from_relative(t.num());
            continue;
        }
        if (k != "case")
        {
            std::cout << "protocol-error expected case got " << k << "\n";
            return 2;
        }
        std::string id = t.next();
        std::cout << "case " << id << "\n";
        Case cs;
        bool failed = false;
        for (;;)
        {
            std::string c = t.next();
            if (c == "endcase") break;
            if (failed) continue;  // skip the rest of a failed case
            try
            {
                if (c == "prim" || c == "primt")
                {
                    // errors of a single primitive do not abort the case
                    try
                    {
                        VariantTransform tr{NoTransformation{}};
                        if (c == "primt") tr = read_transform(t);
                        std::string pk = t.next();
                        dump_prim(read_prim(t, pk), tol, tr);
                    }
                    catch (std::exception const& e)
                    {
                        std::string msg = e.what();
                        for (auto& ch : msg) if (ch == '\n') ch = ' ';
                        std::cout << "prim-error " << msg << "\n";
                    }
                }
                else if (c == "unit") { read_unit(t, cs); }
                else if (c == "probes") { run_probes(t, cs, tol); }
                else { throw std::runtime_error("unknown command " + c); }
            }
            catch (std::exception const& e)
            {
                std::string msg = e.what();
                for (auto& ch : msg) if (ch == '\n') ch = ' ';
                std::cout << "error " << msg << "\n";
                failed = true;
            }
        }
        std::cout << "endcase" << std::endl;
    }
    return 0;
}
