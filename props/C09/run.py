"""C09 — geometry construction preserves the meaning of the user's solids.

proofs (Properties_C09.v) + tie (signed surfaces emitted by each primitive's
`build` vs the float model's `surfaces_of`) + search (random object trees in
nested units built with the real classes -> InputBuilder -> OrangeParams,
probed by initialising tracks; oracle = the Coq DEFINITION `inside`, evaluated
on binary64 floats by vm_compute)."""
import json, math, os, sys
import vlib
from vlib import hexf, close

HERE = os.path.dirname(os.path.abspath(__file__))
sys.path.insert(0, HERE)
import gen as G
import tie2

TOL = 1.5e-8          # Tolerance<>::from_default().rel (double)
MARGIN = 1e-6         # probes keep this distance from every surface (>> 10 * tol * scale)
MARGIN_SNAP = 3e-7    # "snap" units are small (extent <= 3): 10 * tol = 1.5e-7, tol * scale <= 5e-8
PRE = ("From Coq Require Import ZArith List Floats String.\n"
       "From Celer Require Import Base.Num Base.NumF Base.Vec3 C12.Surfaces C12.Transforms C09.Shapes C09.Pipeline.\n"
       "Import ListNotations.\nOpen Scope float_scope.\nOpen Scope string_scope.\n")


# ---------------------------------------------------------------------------
# units

def new_unit(label, boundary, bz, daughters, materials, background):
    return dict(label=label, boundary=boundary, bz=bz, daughters=daughters, materials=materials,
                background=background)


def resolve_unit(u):
    """fill in resolved (sharing-free) objects for the Coq term"""
    if "boundary_resolved" in u:
        return
    for du, _ in u["daughters"]:
        resolve_unit(du)
    env = dict(defs={}, daughters=u["daughters"], boundary=None)
    u["boundary_resolved"] = G.resolve(u["boundary"], env)
    env["boundary"] = u["boundary_resolved"]
    u["materials_resolved"] = [(lab, G.resolve(o, env)) for lab, o in u["materials"]]


def unit_text(u, done, out):
    if u["label"] in done:
        return
    for du, _ in u["daughters"]:
        unit_text(du, done, out)
    done.add(u["label"])
    env = {}
    out.append("unit %s" % u["label"])
    out.append(" boundary %s %s" % (u["bz"], G.obj_text(u["boundary"], env)))
    out.append(" background %d" % (1 if u["background"] else 0))
    for du, tr in u["daughters"]:
        out.append(" daughter %s %s" % (du["label"], G.tf_text(tr)))
    for lab, o in u["materials"]:
        out.append(" material %s %s" % (lab, G.obj_text(o, env)))
    out.append("endunit")


def unit_coq(u):
    ds = "; ".join("(%s, %s)" % (unit_coq(du), G.tf_coq(tr)) for du, tr in u["daughters"])
    ms = "; ".join('("%s", %s)' % (lab, G.obj_coq(o)) for lab, o in u["materials_resolved"])
    return '(Unit "%s" %s [%s] [%s] %s)' % (u["label"], G.obj_coq(u["boundary_resolved"]), ds, ms,
                                            "true" if u["background"] else "false")


def unit_placements(u, tr=None, out=None):
    if out is None:
        out = []
    G.placements(u["boundary_resolved"], tr, out)
    for _, o in u["materials_resolved"]:
        G.placements(o, tr, out)
    for du, dtr in u["daughters"]:
        unit_placements(du, G.tf_compose(tr, dtr), out)
    return out


def gen_boundary(r, R, top):
    c = r.random()
    if c < 0.4:
        h = [R * r.uniform(0.8, 1.0) for _ in range(3)]
        b = ("prim", dict(k="box", p=h, bb=h))
        inr = min(h)
    elif c < 0.65:
        b = ("prim", dict(k="sphere", p=[R], bb=[R] * 3))
        inr = R
    elif c < 0.85:
        h = R * r.uniform(0.8, 1.0)
        b = ("prim", dict(k="cyl", p=[R, h], bb=[R, R, h]))
        inr = min(R, h)
    elif c < 0.93:
        # union boundary (issue 1260 pattern)
        d = 0.4 * R
        b = ("any", [("prim", dict(k="sphere", p=[0.8 * R], bb=[0.8 * R] * 3)),
                     ("trans", (G.IDM, [0.0, 0.0, d], "tl"), ("prim", dict(k="sphere", p=[0.8 * R], bb=[0.8 * R] * 3)))])
        inr = 0.8 * R
    else:
        h = [R * r.uniform(0.8, 1.0) for _ in range(3)]
        b = ("trans", G.rand_tf(r, 0.0, r.choice(["rot", "rotq", "refl"])), ("prim", dict(k="box", p=h, bb=h)))
        inr = min(h)
    return ("def", "bnd", b), inr


def gen_unit(r, ids, level, R, depth):
    """random unit whose boundary has size about R; returns (unit, bounding radius)"""
    label = "u%d" % ids[0]
    ids[0] += 1
    top = level == 0
    boundary, inr = gen_boundary(r, R, top)
    brad = R * 1.8
    daughters = []
    spots = []
    nd = 0 if level >= 2 else r.choice([0, 1, 1, 2] if top else [0, 0, 1])
    for _ in range(nd):
        dR = R * r.uniform(0.12, 0.22)
        du, drad = gen_unit(r, ids, level + 1, dR, max(1, depth - 1))
        if r.random() < 0.2 and daughters:
            du, drad = daughters[0][0], daughters[0][2]       # the same proto placed twice
        for _try in range(30):
            t = [r.uniform(-1, 1) * inr * 0.6 for _ in range(3)]
            if math.sqrt(sum(x * x for x in t)) + drad > inr * 0.95:
                continue
            if all(math.dist(t, s[0]) > drad + s[1] + 0.05 * R for s in spots):
                break
        else:
            continue
        tr = G.rand_tf(r, 0.0, r.choice(["tl", "rot", "rotq", "refl", "rot"]))
        tr = (tr[0], t, tr[2])
        if r.random() < 0.1:
            tr = None if not spots and math.sqrt(sum(x * x for x in t)) == 0 else tr
        spots.append((t, drad))
        daughters.append((du, tr, drad))
    daughters = [(d[0], d[1]) for d in daughters]
    bz = "media"
    background = r.random() < 0.5
    if background and r.random() < 0.4:
        bz = "exterior"
    nm = r.choice([1, 2, 2, 3])
    materials = []
    raws = []
    s = R * 0.22
    for i in range(nm):
        raw = G.gen_obj(r, r.randint(0, depth), s, R * 0.45)
        parts = [("def", "r%d" % i, raw)]
        parts += [("neg", ("ref", "r%d" % j)) for j in range(i)]
        parts += [("neg", ("dint", k)) for k in range(len(daughters))]
        if bz == "media" or r.random() < 0.5:
            parts.append(("bound",))
        if len(parts) == 1:
            o = parts[0]
        elif len(parts) == 2 and parts[1][0] == "neg" and r.random() < 0.5:
            o = ("sub", parts[0], parts[1][1])
        else:
            o = ("all", parts)
        materials.append(("%s.m%d" % (label, i), o))
        raws.append(i)
    if not background:
        parts = [("bound",)] + [("neg", ("ref", "r%d" % j)) for j in raws] \
            + [("neg", ("dint", k)) for k in range(len(daughters))]
        materials.append(("%s.rest" % label, ("all", parts)))
    u = new_unit(label, boundary, bz, daughters, materials, background)
    return u, brad


def snap_delta(r):
    """offset at the scales where simplification / soft de-duplication decide"""
    rt = math.sqrt(TOL)
    return r.choice([0.3 * TOL, 0.9 * TOL, 1.1 * TOL, 3 * TOL, 10 * TOL, 30 * TOL, 100 * TOL,
                     rt / 10, rt / 3, 0.9 * rt, 1.1 * rt, 3 * rt,
                     10 ** r.uniform(-9, -3), 10 ** r.uniform(-9, -3), 10 ** r.uniform(-6, -4)])


def unit_vec(r, kind=None):
    kind = kind or r.choice(["axis", "axis", "plane", "any"])
    if kind == "axis":
        v = [0.0, 0.0, 0.0]
        v[r.randrange(3)] = r.choice([-1.0, 1.0])
        return v
    v = [r.gauss(0, 1) for _ in range(3)]
    if kind == "plane":
        v[r.randrange(3)] = 0.0
    n = math.sqrt(sum(x * x for x in v)) or 1.0
    return [x / n for x in v]


def snap_tf(r):
    """tiny translation / tiny rotation, optionally after quarter turns"""
    d = snap_delta(r)
    c = r.random()
    m = G.IDM
    kind = "tl"
    if c < 0.35:
        for _ in range(r.choice([1, 2])):
            m = G.matmul(G.rot_axis(r.randrange(3), r.choice([0.25, 0.5, 0.75])), m)
        kind = "tf"
    elif c < 0.55:
        m = G.rot_axis(r.randrange(3), d / (2 * math.pi))     # rotation by the angle d
        kind = "tf"
        d = r.choice([0.0, snap_delta(r)])
    u = unit_vec(r)
    t = [d * x for x in u]
    if r.random() < 0.3:          # plus a large component along one axis
        t[r.randrange(3)] += r.uniform(-2, 2)
    return (m, t, kind)


def gen_snap_unit(r, ids):
    """one small solid placed a tiny distance d from where a "snap to a simpler surface" rule
    (cylinder axis / sphere centre / cone apex on a coordinate axis, plane through the origin,
    axis-aligned plane normal) or soft de-duplication (two nearly coincident surfaces) would put
    it; probe points are aimed INTO the sliver between the exact and the snapped surface."""
    label = "u%d" % ids[0]
    ids[0] += 1
    d = snap_delta(r)
    rule = r.choice(["cyl", "cyl", "cyl", "sphere", "cone", "plane", "rot", "twin", "twin"])
    boundary = ("def", "bnd", ("prim", dict(k="box", p=[4.0, 4.0, 4.0], bb=[4.0] * 3)))
    hints = []
    mats = []
    axes3 = [[1.0, 0.0, 0.0], [0.0, 1.0, 0.0], [0.0, 0.0, 1.0]]

    def radial_hints(centre, R, axis, rad, zr, shift):
        """points between the surface of radius rad about `centre` (+axis) and the same surface
        displaced by `shift` (for the snap rules `centre` is where the SNAPPED surface would be)"""
        a = matcol(R, 2) if axis else None
        for _ in range(14):
            if axis:
                # unit vector perpendicular to the axis, biased towards +-shift
                w = [shift[i] - sum(shift[k] * a[k] for k in range(3)) * a[i] for i in range(3)]
                nw = math.sqrt(sum(x * x for x in w))
                if nw < 1e-300 or r.random() < 0.3:
                    w = unit_vec(r, "any")
                    w = [w[i] - sum(w[k] * a[k] for k in range(3)) * a[i] for i in range(3)]
                    nw = math.sqrt(sum(x * x for x in w)) or 1.0
                n = [r.choice([-1, 1]) * x / nw for x in w]
                z = r.uniform(-zr, zr)
                c = [centre[i] + rad(z) * n[i] + z * a[i] for i in range(3)]
            else:
                ns = math.sqrt(sum(x * x for x in shift))
                n = [x / ns for x in shift] if ns > 1e-300 and r.random() < 0.7 else unit_vec(r, "any")
                sg = r.choice([-1, 1])
                n = [sg * x for x in n]
                c = [centre[i] + rad(0) * n[i] for i in range(3)]
            sn = sum(shift[i] * n[i] for i in range(3))
            f = r.uniform(0.3, 0.7)
            hints.append([c[i] + f * sn * n[i] for i in range(3)])

    def matcol(R, j):
        return [R[i][j] for i in range(3)]

    R = G.IDM
    if r.random() < 0.5:
        R = G.rot_axis(r.choice([0, 1]), r.choice([0.25, 0.75]))        # z axis -> y or x
    if rule in ("cyl", "cone", "sphere"):
        u = unit_vec(r, "axis" if r.random() < 0.6 else "any")
        if rule != "sphere":
            a = matcol(R, 2)
            if abs(sum(u[i] * a[i] for i in range(3))) > 0.9:           # offset must not be along the axis
                u = matcol(R, 0)
        shift = [d * x for x in u]
        along = [0.0, 0.0, 0.0]
        if rule != "sphere" and r.random() < 0.4:
            a = matcol(R, 2)
            along = [r.uniform(-1, 1) * x for x in a]
        t = [shift[i] + along[i] for i in range(3)]
        tr = (R, t, "tl" if R is G.IDM else "tf")
        if rule == "sphere":
            rad = r.uniform(0.5, 1.5)
            o = ("prim", dict(k="sphere", p=[rad], bb=[rad] * 3))
            radial_hints(along, R, False, lambda z: rad, 0, shift)
        elif rule == "cyl":
            rad, hh = r.uniform(0.4, 1.2), r.uniform(0.5, 1.2)
            c = r.random()
            if c < 0.5:
                o = ("prim", dict(k="cyl", p=[rad, hh], bb=[rad, rad, hh]))
            elif c < 0.75:
                pi = dict(k="cyl", p=[rad, hh], bb=[rad, rad, hh])
                o = ("solid", pi, dict(k="cyl", p=[rad * 0.5, hh], bb=[rad, rad, hh]), None)
            else:   # polycone whose first segment has equal radii (built as a cylinder)
                o = ("polycone", [-hh, 0.0, hh], [rad, rad, rad * 0.7], None, None, False)
            radial_hints(along, R, True, lambda z: rad, hh * 0.45, shift)
        else:
            lo, hi, hh = r.uniform(0.4, 1.2), r.uniform(0.4, 1.2), r.uniform(0.5, 1.2)
            if abs(lo - hi) < 0.1:
                hi = lo + 0.3
            o = ("prim", dict(k="cone", p=[lo, hi, hh], bb=[max(lo, hi)] * 2 + [hh]))
            radial_hints(along, R, True, lambda z: lo + (hi - lo) * (z + hh) / (2 * hh), hh * 0.9, shift)
        mats.append((label + ".m0", ("trans", tr, o)))
    elif rule == "plane":
        # a box face at distance d from a coordinate plane through the unit's origin
        h = [r.uniform(0.4, 1.2) for _ in range(3)]
        ax = r.randrange(3)
        sg = r.choice([-1.0, 1.0])
        t = [0.0, 0.0, 0.0]
        t[ax] = sg * (h[ax] + d)
        mats.append((label + ".m0", ("trans", (G.IDM, t, "tl"), ("prim", dict(k="box", p=h, bb=h)))))
        for _ in range(12):
            p = [r.uniform(-0.9, 0.9) * h[i] for i in range(3)]
            p[ax] = sg * d * r.uniform(0.3, 0.7)
            hints.append(p)
    elif rule == "rot":
        # a box rotated by the tiny angle d: its face normals have components ~ d
        h = [r.uniform(0.6, 1.5) for _ in range(3)]
        ax = r.randrange(3)
        tr = (G.rot_axis(ax, d / (2 * math.pi)), [0.0, 0.0, 0.0], "tf")
        mats.append((label + ".m0", ("trans", tr, ("prim", dict(k="box", p=h, bb=h)))))
        for _ in range(14):
            loc = [r.uniform(-0.95, 0.95) * h[i] for i in range(3)]
            fa = r.choice([i for i in range(3) if i != ax])
            loc[fa] = r.choice([-1, 1]) * h[fa]
            g = G.tf_apply(tr, loc)             # on the rotated face; half-way to the unrotated one
            f = r.uniform(0.3, 0.7)
            hints.append([loc[i] + f * (g[i] - loc[i]) for i in range(3)])
    else:
        # twins: two equal curved surfaces d apart, away from the origin (soft de-duplication)
        P = [r.uniform(-1.5, 1.5) for _ in range(3)]
        u = unit_vec(r)
        kind = r.choice(["sphere", "cyl", "cone"])
        if kind != "sphere":
            a = matcol(R, 2)
            if abs(sum(u[i] * a[i] for i in range(3))) > 0.9:
                u = matcol(R, 0)
        shift = [d * x for x in u]
        if kind == "sphere":
            rad = r.uniform(0.4, 1.0)
            mk = lambda: ("prim", dict(k="sphere", p=[rad], bb=[rad] * 3))
            radial_hints(P, R, False, lambda z: rad, 0, shift)
        elif kind == "cyl":
            rad, hh = r.uniform(0.3, 0.9), r.uniform(0.4, 0.9)
            mk = lambda: ("prim", dict(k="cyl", p=[rad, hh], bb=[rad, rad, hh]))
            radial_hints(P, R, True, lambda z: rad, hh * 0.9, shift)
        else:
            lo, hi, hh = r.uniform(0.3, 0.9), r.uniform(0.3, 0.9), r.uniform(0.4, 0.9)
            if abs(lo - hi) < 0.1:
                hi = lo + 0.3
            mk = lambda: ("prim", dict(k="cone", p=[lo, hi, hh], bb=[max(lo, hi)] * 2 + [hh]))
            radial_hints(P, R, True, lambda z: lo + (hi - lo) * (z + hh) / (2 * hh), hh * 0.9, shift)
        kd = "tl" if R is G.IDM else "tf"
        a_ = ("trans", (R, P, kd), mk())
        b_ = ("trans", (R, [P[i] + shift[i] for i in range(3)], kd), mk())
        mats.append((label + ".m0", a_))
        mats.append((label + ".m1", ("all", [("prim", dict(k="box", p=[3.0, 3.0, 3.0], bb=[3.0] * 3)),
                                             ("neg", b_), ("neg", a_)])))
    u_ = new_unit(label, boundary, "media", [], mats, True)
    if r.random() < 0.3:
        u_["background"] = False
        u_["materials"].append((label + ".rest", ("all", [("bound",)] + [("neg", o_) for _, o_ in mats])))
    return u_, hints


def scale_prim(p, f):
    q = dict(p)
    k = p["k"]
    if k in ("box", "sphere", "cyl", "cone", "ellipsoid"):
        q["p"] = [x * f for x in p["p"]]
    elif k == "prism":
        q["p"] = [p["p"][0] * f, p["p"][1] * f, p["p"][2]]
    elif k == "genprism":
        q["p"] = [p["p"][0] * f]
        q["lo"] = [[c * f for c in v] for v in p["lo"]]
        q["hi"] = [[c * f for c in v] for v in p["hi"]]
    else:
        return None
    if p.get("bb"):
        q["bb"] = [b * f for b in p["bb"]]
    q["rad"] = p["rad"] * f
    return q


def surface_point(r, p):
    """(point on the surface of a primitive, outward unit normal) in its local frame, or None"""
    k = p["k"]
    nrm = lambda v: [x / (math.sqrt(sum(y * y for y in v)) or 1.0) for x in v]
    if k == "sphere":
        n = unit_vec(r, "any")
        return [p["p"][0] * x for x in n], n
    if k == "ellipsoid":
        n = unit_vec(r, "any")
        c = [p["p"][i] * n[i] for i in range(3)]
        return c, nrm([c[i] / p["p"][i] ** 2 for i in range(3)])
    if k == "cyl":
        ph = r.uniform(0, 2 * math.pi)
        rad, hh = p["p"]
        if r.random() < 0.75:
            return [rad * math.cos(ph), rad * math.sin(ph), r.uniform(-0.95, 0.95) * hh], [math.cos(ph), math.sin(ph), 0.0]
        sg = r.choice([-1.0, 1.0])
        rr = rad * math.sqrt(r.random()) * 0.95
        return [rr * math.cos(ph), rr * math.sin(ph), sg * hh], [0.0, 0.0, sg]
    if k == "cone":
        lo, hi, hh = p["p"]
        z = r.uniform(-0.95, 0.95) * hh
        rad = lo + (hi - lo) * (z + hh) / (2 * hh)
        ph = r.uniform(0, 2 * math.pi)
        sl = (hi - lo) / (2 * hh)
        return [rad * math.cos(ph), rad * math.sin(ph), z], nrm([math.cos(ph), math.sin(ph), -sl])
    if k == "box":
        h = p["p"]
        ax = r.randrange(3)
        sg = r.choice([-1.0, 1.0])
        c = [r.uniform(-0.95, 0.95) * h[i] for i in range(3)]
        c[ax] = sg * h[ax]
        n = [0.0, 0.0, 0.0]
        n[ax] = sg
        return c, n
    return None


def gen_pair_unit(r, ids):
    """two solids of the same kind whose surfaces are near-identical but distinct: they differ in
    exactly one respect -- mirrored tilt (cross terms of the general quadric), rotation about another
    axis / permuted radii (second-order terms), size (constant / second order), position (first order
    + constant) -- macroscopically or at the tolerance scale, or are exact copies (must merge).
    Soft de-duplication must keep distinct surfaces distinct: probes go into the symmetric difference."""
    label = "u%d" % ids[0]
    ids[0] += 1
    kind = r.choice(["cyl", "cyl", "cone", "cone", "ellipsoid", "ellipsoid", "prism", "box", "genprism", "sphere"])
    A = G.gen_prim(r, 0.55, [kind])
    ax = r.randrange(3)
    th = r.choice([r.uniform(0.02, 0.23), 1.0 / 12, 0.125, r.uniform(0.02, 0.48), r.uniform(0.02, 0.23)])
    R0 = G.IDM
    if r.random() < 0.35:
        R0 = G.rot_axis(r.randrange(3), r.choice([0.25, r.uniform(0.03, 0.45)]))
    RA = G.matmul(G.rot_axis(ax, th), R0)
    t0 = [0.0, 0.0, 0.0] if r.random() < 0.6 else [r.uniform(-1, 1) for _ in range(3)]
    variant = r.choice(["mirror", "mirror", "mirror", "otheraxis", "permute", "size", "size_tiny", "shift", "shift_tiny", "same"])
    B, RB, tB = A, RA, list(t0)
    hints = []
    if variant == "permute" and kind in ("ellipsoid", "box"):
        B = dict(A)
        B["p"] = [A["p"][1], A["p"][2], A["p"][0]]
        B["bb"] = list(B["p"])
    elif variant == "otheraxis":
        RB = G.matmul(G.rot_axis((ax + 1) % 3, th), R0)
    elif variant in ("size", "size_tiny"):
        f = 1 + (r.choice([0.3, 0.05, -0.1, -0.02]) if variant == "size" else r.choice([-1, 1]) * snap_delta(r))
        B = scale_prim(A, f) or A
        if B is not A and abs(f - 1) < 0.01:
            for _ in range(14):
                sp = surface_point(r, A)
                if sp:
                    g = r.uniform(0.3, 0.7)
                    hints.append(G.tf_apply((RA, t0), [c * (1 + g * (f - 1)) for c in sp[0]]))
    elif variant in ("shift", "shift_tiny"):
        d = r.uniform(0.05, 0.5) if variant == "shift" else snap_delta(r)
        u = unit_vec(r)
        tB = [t0[i] + d * u[i] for i in range(3)]
        if d < 0.01:
            ul = G.tf_inv_apply((RA, [0.0, 0.0, 0.0]), u)          # shift direction in the local frame
            for _ in range(14):
                sp = surface_point(r, A)
                if sp:
                    c, n = sp
                    sn = d * sum(ul[i] * n[i] for i in range(3))
                    g = r.uniform(0.3, 0.7)
                    hints.append(G.tf_apply((RA, t0), [c[i] + g * sn * n[i] for i in range(3)]))
    elif variant == "same":
        pass
    else:   # mirror image of the tilt: same squared / linear / constant coefficients, opposite cross terms
        RB = G.matmul(G.rot_axis(ax, -th), R0) if r.random() < 0.7 else G.matmul(G.rot_axis(ax, th), G.matmul(G.rot_axis(ax, 0.5), R0))
    a_ = ("trans", (RA, t0, "tf"), ("prim", A))
    b_ = ("trans", (RB, tB, "tf"), ("prim", B))
    boundary = ("def", "bnd", ("prim", dict(k="box", p=[4.0, 4.0, 4.0], bb=[4.0] * 3)))
    mats = [(label + ".m0", ("def", "a", a_)), (label + ".m1", ("all", [b_, ("neg", ("ref", "a"))]))]
    if r.random() < 0.3:
        mats.append((label + ".m2", ("all", [("prim", dict(k="sphere", p=[3.0], bb=[3.0] * 3)), ("neg", ("ref", "a")), ("neg", b_)])))
    u_ = new_unit(label, boundary, "media", [], mats, True)
    return u_, hints


def gen_gap_unit(r, ids):
    """two boxes / cylinders separated by a small gap (near-coincident
    surfaces: soft de-duplication must not merge surfaces farther apart than
    the tolerance)"""
    label = "u%d" % ids[0]
    ids[0] += 1
    g = r.choice([1e-9, 4e-6, 1e-5, 1e-4, 1e-3, 1e-2])
    h1 = [r.uniform(0.5, 2.0) for _ in range(3)]
    h2 = [r.uniform(0.5, 2.0) for _ in range(3)]
    ax = r.randrange(3)
    t = [0.0, 0.0, 0.0]
    t[ax] = h1[ax] + h2[ax] + g
    a = ("prim", dict(k="box", p=h1, bb=h1))
    b = ("trans", (G.IDM, t, "tl"), ("prim", dict(k="box", p=h2, bb=h2)))
    boundary = ("def", "bnd", ("prim", dict(k="box", p=[8.0, 8.0, 8.0], bb=[8.0] * 3)))
    mats = [(label + ".m0", a), (label + ".m1", b)]
    hints = []
    if g > 2.5 * MARGIN:
        for _ in range(12):
            p = [r.uniform(-1, 1) * min(h1[i], h2[i]) * 0.9 for i in range(3)]
            p[ax] = h1[ax] + g * r.uniform(0.3, 0.7)
            hints.append(p)
    u = new_unit(label, boundary, "media", [], mats, True)
    if r.random() < 0.5:
        u["background"] = False
        u["materials"].append((label + ".rest", ("all", [("bound",), ("neg", a), ("neg", b)])))
    return u, hints


# ---------------------------------------------------------------------------
# surface dumps -> general quadric coefficient lists

def to_gq(kind, d):
    z = [0.0] * 10
    if kind in ("px", "py", "pz"):
        z[6 + "xyz".index(kind[1])] = 1.0
        z[9] = -d[0]
    elif kind in ("cxc", "cyc", "czc"):
        ax = "xyz".index(kind[1])
        for i in range(3):
            z[i] = 0.0 if i == ax else 1.0
        z[9] = -d[0]
    elif kind == "sc":
        z[0] = z[1] = z[2] = 1.0
        z[9] = -d[0]
    elif kind in ("cx", "cy", "cz"):
        ax = "xyz".index(kind[1])
        u = 1 if ax == 0 else 0
        v = 1 if ax == 2 else 2
        z[u] = z[v] = 1.0
        z[6 + u] = -2 * d[0]
        z[6 + v] = -2 * d[1]
        z[9] = d[0] * d[0] + d[1] * d[1] - d[2]
    elif kind == "p":
        z[6], z[7], z[8], z[9] = d[0], d[1], d[2], -d[3]
    elif kind == "s":
        z[0] = z[1] = z[2] = 1.0
        for i in range(3):
            z[6 + i] = -2 * d[i]
        z[9] = d[0] ** 2 + d[1] ** 2 + d[2] ** 2 - d[3]
    elif kind in ("kx", "ky", "kz"):
        ax = "xyz".index(kind[1])
        abc = [1.0, 1.0, 1.0]
        abc[ax] = -d[3]
        for i in range(3):
            z[i] = abc[i]
            z[6 + i] = -2 * abc[i] * d[i]
        z[9] = sum(abc[i] * d[i] * d[i] for i in range(3))
    elif kind == "sq":
        z[0:3] = d[0:3]
        z[6:9] = d[3:6]
        z[9] = d[6]
    elif kind == "gq":
        z = list(d)
    else:
        return None
    return z


def norm_signed(sense_in, coefs):
    """inside-oriented, max-abs normalised coefficient vector"""
    c = list(coefs) if sense_in else [-x for x in coefs]
    m = max(abs(x) for x in c)
    return [x / m for x in c] if m > 0 else c


# ---------------------------------------------------------------------------

def _num(x):
    return float(x) if ("inf" in x or "nan" in x) else float.fromhex(x)


def parse_block(lines):
    """one case's output lines (between `case` and `endcase`) -> dict; raises on malformed output"""
    cur = dict(prims=[], probes=None, error=None, vols={}, crash=None)
    i = 0
    while i < len(lines):
        ln = lines[i].strip()
        i += 1
        if not ln:
            continue
        tok = ln.split()
        if tok[0] == "error":
            cur["error"] = ln[6:]
        elif tok[0] == "prim-error":
            cur["prims"].append(dict(error=ln[11:]))
        elif tok[0] == "prim":
            n = int(tok[2])
            surfs = []
            for _ in range(n):
                t = lines[i].split()
                i += 1
                nd = int(t[2])
                if t[0] not in ("in", "out") or len(t) != 3 + nd:
                    raise ValueError("malformed surface line %r" % lines[i - 1])
                surfs.append((t[0] == "in", t[1], [_num(x) for x in t[3:3 + nd]]))
            bb = {}
            while i < len(lines) and lines[i].split() and lines[i].split()[0] in ("bbox_int", "bbox_ext", "gbbox_ext"):
                t = lines[i].split()
                i += 1
                bb[t[0]] = None if t[1] == "null" else [_num(x) for x in t[1:7]]
            cur["prims"].append(dict(kind=tok[1], surfs=surfs, bb=bb))
        elif tok[0] == "vol":
            cur["vols"][(tok[1], tok[2])] = None if tok[3] == "null" else [_num(x) for x in tok[3:9]]
        elif tok[0] == "probes":
            n = int(tok[1])
            pr = []
            for _ in range(n):
                t = lines[i].split()
                i += 1
                if t[0] in ("FAILED", "NOVOLUME"):
                    pr.append((t[0], None))
                else:
                    if len(t) != 2:
                        raise ValueError("malformed probe line %r" % lines[i - 1])
                    pr.append((t[0].split("@")[0], int(t[1])))
            cur["probes"] = pr
        else:
            raise ValueError("unexpected output line %r" % ln)
    return cur


def split_cases(out):
    """harness stdout -> {case id: (lines, complete?)}"""
    res = {}
    cid, buf = None, []
    for ln in out.splitlines():
        tok = ln.split()
        if tok and tok[0] == "case" and len(tok) == 2:
            cid, buf = tok[1], []
            res[cid] = (buf, False)
        elif tok and tok[0] == "endcase" and cid is not None:
            res[cid] = (buf, True)
            cid = None
        elif cid is not None:
            buf.append(ln)
    return res


def run_cases(ctx, exe, header, cases):
    """run the harness on [(case id, text)]; never raises for a misbehaving harness: a case whose
    output is missing / malformed (crash, abort, garbage) is re-run alone and comes back with
    result['crash'] = description, so that the caller can report it with its input as replay"""
    rc, out = ctx.run_harness(exe, input=header + "\n" + "\n".join(t for _, t in cases) + "\n", timeout=1500)
    blocks = split_cases(out)
    res = {}
    redo = []
    for cid, text in cases:
        blk = blocks.get(cid)
        if blk is None or not blk[1]:
            redo.append((cid, text))
            continue
        try:
            res[cid] = parse_block(blk[0])
        except Exception as ex:          # noqa: malformed output of this case
            redo.append((cid, text))
    for cid, text in redo[:400]:
        rc1, out1 = ctx.run_harness(exe, input=header + "\n" + text + "\n", timeout=300)
        blk = split_cases(out1).get(cid)
        r = None
        if blk is not None and blk[1]:
            try:
                r = parse_block(blk[0])
            except Exception as ex:
                r = dict(prims=[], probes=None, error=None, vols={}, crash="malformed harness output: %s" % ex)
        if r is None:
            r = dict(prims=[], probes=None, error=None, vols={},
                     crash="harness died (rc=%d) while building / probing this case; output tail: %s" % (rc1, out1[-300:]))
        res[cid] = r
    for cid, text in redo[400:]:
        res[cid] = dict(prims=[], probes=None, error=None, vols={}, crash="harness output missing (not re-run)")
    return res


def accept(levels, which):
    """set of acceptable runtime labels according to the claims (which = 0: by
    DEFINITION [inside]; 1: through the construction model [eval_csg (build ..)])"""
    lv = levels[0]
    unit = lv[4]
    ext, dcl, mcl = lv[2 + which]
    cl = (["[EXTERIOR]"] if ext else []) + [unit["materials"][k][0] for k, b in enumerate(mcl) if b]
    dhit = [k for k, b in enumerate(dcl) if b]
    if len(levels) > 1:
        # the model descended into the first daughter claiming the point by definition
        k0 = [k for k, b in enumerate(lv[2][1]) if b][0]
        sub = accept(levels[1:], which) if k0 in dhit else set()
        other = {"*daughter*"} if [k for k in dhit if k != k0] else set()
        res = set(cl) | sub | other
    else:
        res = set(cl) | ({"*daughter*"} if dhit else set())
    if not res:
        res = {unit["label"] + ".bg"} if unit["background"] else {"FAILED"}
    return res


def expected_from_levels(levels):
    """model report -> (status, acceptable labels by definition, by construction model)"""
    if not all(lv[1] for lv in levels):
        return "skip", None, None
    return "ok", accept(levels, 0), accept(levels, 1)


def attach_units(levels, top):
    """pair every level of the model report with the python unit it refers to"""
    out = []
    u = top
    for lv in levels:
        out.append((lv[0], lv[1], lv[2], lv[3], u))
        dcl = lv[2][1]
        nxt = None
        for k, b in enumerate(dcl):
            if b:
                nxt = u["daughters"][k][0]
                break
        if nxt is None:
            break
        u = nxt
    return out


def prim_cases(r, n):
    kinds = ["box", "sphere", "cyl", "cone", "ellipsoid", "prism", "ppiped", "wedge", "trd", "trap", "genprism"]
    return [G.gen_prim(r, 1.0, [kinds[i % len(kinds)]]) for i in range(n)]


def run(ctx):
    quick = ctx.tier == "quick"
    n_trees = int(os.environ.get('C09_TREES', 90 if quick else 1500))
    n_prims = 220 if quick else 2200
    n_probe = 130
    r = ctx.rng
    ctx.trusted += [
        "hand-written models coq/C09/Shapes.v (each primitive's build) and coq/C09/Pipeline.v (objects, transforms, units), tied by the surface-dump differential and the probe search of props/C09/run.py",
        "C12's executable surface model (coq/C12/Surfaces.v surf_sense, coq/C12/Transforms.v tf_down) reused for senses and point pull-back",
        "float instance of Num (Base/NumF.v): own sin/cos/atan; surfaces compared at 1e-7 after normalisation, probes keep 1e-6 from every surface",
        "runtime point location (OrangeTrackView initialisation, BIH, logic evaluator) is the observation instrument",
    ]
    ctx.assumptions += [
        "probe points are farther than 1e-6 (>= 10 x construction tolerance x scale) from every surface of the model's list",
        "volumes of one unit are made disjoint by the generator (explicit subtraction, as in the project's own tests); where two volumes claim a point either is accepted",
        "surface transformation preserves senses (C12 surface_transform_sense) and CSG simplification/encoding preserves the boolean function (C10) are not re-proved here: they are covered dynamically by the probes",
    ]
    proofs_ok = ctx.coq_prove("Properties_C09.v")
    ok, log = ctx.coq_build(["C09/Pipeline.vo"])
    if not ok:
        ctx.violation("model-broken", "the executable model coq/C09 no longer compiles",
                      {"log_tail": log[-2000:]}, no_input=True)
        return
    ctx.build_libs(["orange"])
    # self-test hook (BUILDING.md "testing against mutations"): extra .cc files (mutated copies of
    # library sources) compiled INTO the harness interpose the library's definitions
    extra_src = [x for x in os.environ.get("C09_EXTRA_SRC", "").split(":") if x]
    incs = ["-I%s/src/orange/%s" % (vlib.REPO, d) for d in ("orangeinp", "orangeinp/detail", "surf", "surf/detail", "")]
    exe = ctx.compile_harness([os.path.join(HERE, "harness", "build_probe.cc")] + extra_src, "build_probe",
                              libs=["orange", "geocel", "corecel"], extra=incs if extra_src else ())
    # part 2 of the tie (bounding zones, transformed boxes, soft de-duplication: tie2.py): the library side runs now,
    # the model side is evaluated in the background and judged at the end
    global BZ_STATE
    BZ_STATE = tie2.bz_source_state()
    t2 = tie2.start(ctx, extra_src, incs)

    # ---------------- generate -------------------------------------------
    inp = ["tol %s" % float(TOL).hex()]
    # corpus primitive: the F6 prism (its emitted surfaces are the `f6_surfaces` of the refutation theorem)
    f6 = dict(k="genprism", p=[1.0], lo=[[1.0, 1.0], [-1.0, 0.0], [1.0, -1.0]],
              hi=[[0.0, 0.2], [0.0, 0.2], [0.5, -0.3]], bb=[1.0, 1.0, 1.0])
    prims = [f6] + load_corpus_prims() + prim_cases(r, n_prims)
    cases = []
    for i, p in enumerate(prims):
        cases.append(("p%d" % i, "case p%d\nprim %s\nendcase" % (i, G.prim_text(p))))
    # the same primitives built under a transform: offsets at the scales where the simplifier's
    # "snap to a simpler surface" rules decide (k*tol, sqrt(tol), log-uniform 1e-9..1e-3), tiny
    # rotations, quarter turns, and general rotations / reflections
    tprims = [(i, snap_tf(r) if i % 3 else G.rand_tf(r, 3.0)) for i in range(len(prims))]
    for i, tr in tprims:
        cases.append(("q%d" % i, "case q%d\nprimt %s %s\nendcase" % (i, G.tf_text(tr), G.prim_text(prims[i]))))
    trees = []
    corpus = corpus_trees()
    n_snap = int(os.environ.get("C09_SNAP", 60 if quick else 900))
    n_pair = int(os.environ.get("C09_PAIR", 60 if quick else 900))
    for ti in range(n_trees + len(corpus) + n_snap + n_pair):
        ids = [0]
        hints = []
        margin = MARGIN
        npts = n_probe
        if ti < len(corpus):
            top, hints = corpus[ti]
        elif ti >= n_trees + len(corpus) + n_snap:
            top, hints = gen_pair_unit(r, ids)
            margin = MARGIN_SNAP
            npts = len(hints) + 36
        elif ti >= n_trees + len(corpus):
            top, hints = gen_snap_unit(r, ids)
            margin = MARGIN_SNAP
            npts = len(hints) + 16
        elif ti % 12 == 11:
            top, hints = gen_gap_unit(r, ids)
        else:
            top, _ = gen_unit(r, ids, 0, r.uniform(6.0, 10.0), r.choice([1, 2, 3, 3, 4]))
        resolve_unit(top)
        pl = unit_placements(top)
        pts = list(hints)
        ext = 11.5 if margin == MARGIN else 4.5
        while len(pts) < npts:
            if r.random() < 0.3 or not pl:
                pts.append([r.uniform(-ext, ext) for _ in range(3)])
            else:
                bb, tr, _ = r.choice(pl)
                if r.random() < 0.25:      # near a corner of the primitive's local box (rotated-bbox corners)
                    loc = [r.choice([-1, 1]) * b * r.uniform(0.8, 0.999) for b in bb]
                else:
                    f = r.choice([1.02, 1.25, 1.25, 1.6])
                    loc = [r.uniform(-1, 1) * b * f for b in bb]
                pts.append(G.tf_apply(tr, loc))
        lines = ["case t%d" % ti]
        unit_text(top, set(), lines)
        lines.append("probes %d" % len(pts))
        lines += [" ".join(float(x).hex() for x in p) for p in pts]
        lines.append("endcase")
        trees.append(dict(top=top, pts=pts, text="\n".join(lines), margin=margin))
        cases.append(("t%d" % ti, trees[-1]["text"]))
    ctx.log("generated %d primitives, %d trees" % (len(prims), len(trees)))
    hres = run_cases(ctx, exe, inp[0], cases)
    ctx.log("harness done")

    def one_prim(cid):
        h = hres[cid]
        if h["crash"]:
            return dict(error="CRASH " + h["crash"])
        if h["error"] or len(h["prims"]) != 1:
            return dict(error="CRASH " + (h["error"] or "no primitive output"))
        return h["prims"][0]
    hres["prims"] = dict(prims=[one_prim("p%d" % i) for i in range(len(prims))], error=None)
    hres["tprims"] = dict(prims=[one_prim("q%d" % i) for i, _ in tprims], error=None)

    # ---------------- (a) surfaces of each primitive ----------------------
    exprs = ["map (fun ss => (fst ss, gq_list (snd ss))) (surfaces_of %s %s)" % (hexf(TOL), G.prim_coq(p)) for p in prims]
    mvals = ctx.coq_eval("prims", PRE, exprs, chunk=max(20, len(exprs) // 4 + 1))
    hp = hres["prims"]
    ctx.log("model surfaces evaluated")
    htp = hres["tprims"]
    # primitives the real constructors rejected: fine when it is a documented validation of a shape the
    # generator should not have made, a violation otherwise
    nrej = 0
    for lst, items in ((hp["prims"], prims), (htp["prims"], [prims[i] for i, _ in tprims])):
        for hv, p in zip(lst, items):
            if "error" in hv:
                if classify_error(hv["error"]) is None:
                    nrej += 1
                    if nrej <= 3:
                        ctx.violation("crash" if hv["error"].startswith("CRASH") else "construction-error",
                                      "a valid primitive was rejected / crashed the real code: %s" % hv["error"][:300],
                                      {"error": hv["error"], "primitive": G.prim_text(p),
                                       "harness_input": "case c\nprim %s\nendcase\n" % G.prim_text(p)})
                else:
                    ctx.count("prim-rejected:" + classify_error(hv["error"]))
    # ---- transformed differential (before filtering, indices refer to the full list)
    nbad = 0
    for (i, tr), hv in zip(tprims, htp["prims"]):
        p = prims[i]
        if "error" in hv or "error" in hp["prims"][i]:
            continue
        ctx.case(("tprim", G.prim_text(p), G.tf_text(tr)), nontrivial=True)
        ctx.count("tprim:" + tr[2])
        impl = []
        for sin, kind, data in hv["surfs"]:
            gq = to_gq(kind, data)
            impl.append(None if gq is None else norm_signed(sin, gq))
        model = [norm_signed(sn["c"] == "BIn", G.gq_transform(c, tr)) for sn, c in mvals[i]]
        agree = len(impl) == len(model) and all(a is not None and close(a, b, rtol=1e-7, atol=1e-7) for a, b in zip(impl, model))
        if not agree:
            nbad += 1
            if nbad <= 4:
                ctx.violation("correspondence",
                              "surfaces emitted by %s::build under a transform differ from the model's transformed surfaces_of" % p["k"],
                              {"primitive": G.prim_text(p), "transform": G.tf_text(tr), "impl_surfaces": hv["surfs"],
                               "impl_normalised": impl, "model_normalised": model,
                               "harness_input": "case c\nprimt %s %s\nendcase\n" % (G.tf_text(tr), G.prim_text(p)),
                               "note": "general-quadric coefficients (a b c d e f g h i j) in the parent frame, negative = inside, max |coef| = 1"},
                              no_input=True)
    keep = [i for i, hv in enumerate(hp["prims"]) if "error" not in hv]
    prims = [prims[i] for i in keep]
    mvals = [mvals[i] for i in keep]
    hp["prims"] = [hp["prims"][i] for i in keep]
    nbad = 0
    for p, hv, mv in zip(prims, hp["prims"], mvals):
        ctx.count("prim:" + p["k"])
        ctx.case(("prim", G.prim_text(p)), nontrivial=True)
        impl = []
        for sin, kind, data in hv["surfs"]:
            gq = to_gq(kind, data)
            impl.append(None if gq is None else norm_signed(sin, gq))
        model = [norm_signed(s["c"] == "BIn", c) for s, c in mv]
        agree = len(impl) == len(model) and all(a is not None and close(a, b, rtol=1e-7, atol=1e-7) for a, b in zip(impl, model))
        if not agree:
            nbad += 1
            if nbad <= 4:
                ctx.violation("correspondence",
                              "signed surfaces emitted by %s::build differ from the model's surfaces_of" % p["k"],
                              {"primitive": G.prim_text(p), "impl_surfaces": hv["surfs"], "impl_normalised": impl,
                               "model_normalised": model,
                               "note": "coefficients are general-quadric (a b c d e f g h i j), oriented so that negative = inside, scaled to max |coef| = 1"},
                              no_input=True)
    ctx.sample({"primitive": G.prim_text(prims[0]), "impl": hp["prims"][0]["surfs"] if hp["prims"] else None})

    # ---------------- (a') bounding zones declared by each primitive ------
    # exterior bbox must contain the solid, interior bbox must be contained in it
    bexprs, bpts = [], []
    for p, hv in zip(prims, hp["prims"]):
        ext, inn = hv["bb"].get("bbox_ext"), hv["bb"].get("bbox_int")
        E = list(p["bb"]) if p.get("bb") else [3.0, 3.0, 3.0]
        if ext:
            for i in range(3):
                for v in (ext[i], ext[3 + i]):
                    if math.isfinite(v):
                        E[i] = max(E[i], abs(v))
        pts = [[r.uniform(-1.1, 1.1) * E[i] for i in range(3)] for _ in range(40)]
        pts += [[r.choice([-1, 1]) * r.uniform(0.7, 0.999) * E[i] for i in range(3)] for _ in range(12)]
        if inn and all(math.isfinite(v) for v in inn):
            pts += [[r.uniform(inn[i], inn[3 + i]) for i in range(3)] for _ in range(12)]
        bpts.append(pts)
        bexprs.append("map (fun q => (inside_prim %s q, all_hold (surfaces_of %s %s) q, prim_clear %s %s %s q)) [%s]"
                      % (G.prim_coq(p), hexf(TOL), G.prim_coq(p), hexf(TOL), hexf(MARGIN), G.prim_coq(p),
                         "; ".join("V3 %s %s %s" % tuple(hexf(x) for x in q) for q in pts)))
    bvals = ctx.coq_eval("bbox", PRE, bexprs, chunk=max(20, len(bexprs) // 4 + 1))
    nbz = 0
    bz_seen = set()
    for p, hv, pts, vals in zip(prims, hp["prims"], bpts, bvals):
        ext, inn = hv["bb"].get("bbox_ext"), hv["bb"].get("bbox_int")
        for q, (idef, ibuilt, clear) in zip(pts, vals):
            if not clear or idef != ibuilt:
                continue
            ctx.case(("bbox", G.prim_text(p), q), nontrivial=True)
            bad = None
            if ibuilt and ext and not all(ext[i] - 1e-9 * (1 + abs(ext[i])) <= q[i] <= ext[3 + i] + 1e-9 * (1 + abs(ext[3 + i])) for i in range(3)):
                bad = "point of the solid lies outside the exterior bounding box declared by build()"
            if (not ibuilt) and inn and all(inn[i] + 1e-6 <= q[i] <= inn[3 + i] - 1e-6 for i in range(3)):
                bad = "point outside the solid lies inside the interior bounding box declared by build()"
            if bad:
                nbz += 1
                which = "exterior" if "exterior" in bad else "interior"
                key = (p["k"], which)
                if which == "interior":
                    # interior boxes only feed the (not yet used) oriented bounding zones and
                    # can only turn an exterior box into "unknown" (= infinite): no effect on
                    # which volume a point is assigned to, so NOT a violation of C09:
                    # recorded as an observation (NOTES.md, "sub-mechanism defects")
                    ctx.count("observation:interior-bbox-not-inside-solid:" + p["k"])
                    if key not in bz_seen:
                        bz_seen.add(key)
                        ctx.notes.append("observation (no effect on point location): interior bbox declared by %s::build is not "
                                         "inside the solid: `prim %s`, point %r, bbox_int %r" % (p["k"], G.prim_text(p), q, inn))
                else:
                    sig = "parallelepiped-exterior-bbox-too-small" if (p["k"] == "ppiped" and (p["p"][3] != 0 or p["p"][4] != 0)) else None
                    if key not in bz_seen:
                        bz_seen.add(key)
                        ctx.violation("bounding-zone", "%s: %s" % (p["k"], bad),
                                      {"primitive": G.prim_text(p), "point": q, "bbox_ext": ext, "bbox_int": inn,
                                       "inside_by_definition": idef, "inside_by_built_surfaces": ibuilt,
                                       "harness_input": "case b\nprim %s\nendcase\n" % G.prim_text(p)},
                                      signature=sig)
                break
    # exterior box in the PARENT frame (BoundingBoxUtils calc_transform applied by the surface builder):
    # every sampled point of the solid, mapped through the transform, must lie inside it
    keepmap = {orig: j for j, orig in enumerate(keep)}
    ngb = 0
    for (i, tr), hv in zip(tprims, htp["prims"]):
        j = keepmap.get(i)
        if j is None or "error" in hv:
            continue
        gext = hv["bb"].get("gbbox_ext")
        p = prims[j]
        if not gext:
            continue
        for q, (idef, ibuilt, clear) in zip(bpts[j], bvals[j]):
            if not (clear and ibuilt and idef):
                continue
            g = G.tf_apply(tr, q)
            ctx.case(("gbbox", G.prim_text(p), G.tf_text(tr), q), nontrivial=True)
            if not all(gext[a] - 1e-9 * (1 + abs(gext[a])) <= g[a] <= gext[3 + a] + 1e-9 * (1 + abs(gext[3 + a])) for a in range(3)):
                ngb += 1
                sig = "parallelepiped-exterior-bbox-too-small" if (p["k"] == "ppiped" and (p["p"][3] != 0 or p["p"][4] != 0)) else None
                if ngb <= 3 or sig:
                    ctx.violation("bounding-zone", "%s under a transform: a point of the solid lies outside the exterior box computed "
                                  "for the parent frame" % p["k"],
                                  {"primitive": G.prim_text(p), "transform": G.tf_text(tr), "local_point": q, "point": g,
                                   "global_bbox_ext": gext, "local_bbox_ext": hv["bb"].get("bbox_ext"),
                                   "harness_input": "case c\nprimt %s %s\nendcase\n" % (G.tf_text(tr), G.prim_text(p))},
                                  signature=sig)
                break
    ctx.count("transformed-bbox-violations", ngb)
    # tie of the model's [declared_bboxes] (used by the bzone theorems / refutations) to the code
    # (prism: interior only -- axis-aligned side faces additionally clip the exterior box, not modelled)
    kinds_b = {"box": (True, True), "sphere": (True, True), "cyl": (True, True), "prism": (True, False),
               "ellipsoid": (False, True), "ppiped": (False, True)}
    sel = [(p, hv) for p, hv in zip(prims, hp["prims"]) if p["k"] in kinds_b]
    tolist = "(fun b : option (bbox (T:=float)) => match b with Some (lo, hi) => [vx lo; vy lo; vz lo; vx hi; vy hi; vz hi] | None => [] end)"
    dexprs = ["match declared_bboxes %s with Some (i, e) => (%s i, %s e) | None => ([], []) end" % (G.prim_coq(p), tolist, tolist)
              for p, _ in sel]
    dvals = ctx.coq_eval("declbox", PRE, dexprs, chunk=max(20, len(dexprs) // 4 + 1)) if dexprs else []
    nbd = 0
    for (p, hv), (mi, me) in zip(sel, dvals):
        chk_i, chk_e = kinds_b[p["k"]]
        ext, inn = hv["bb"].get("bbox_ext"), hv["bb"].get("bbox_int")
        if p["k"] == "ppiped" and me and not all(me[3 + i] > 0 for i in range(3)):
            continue        # inverted box (negative half-diagonal): C++ result is a null / clipped box
        bad = (chk_e and ext is not None and not close(list(me), ext, rtol=1e-9, atol=1e-12)) or \
              (chk_i and inn is not None and mi and not close(list(mi), inn, rtol=1e-9, atol=1e-12))
        ctx.case(("declbox", G.prim_text(p)), nontrivial=True)
        if bad:
            nbd += 1
            if nbd <= 2:
                ctx.violation("correspondence", "bounding boxes declared by %s::build differ from the model's declared_bboxes" % p["k"],
                              {"primitive": G.prim_text(p), "impl_int": inn, "impl_ext": ext, "model_int": mi, "model_ext": me},
                              no_input=True)
    ctx.count("bbox-violations", nbz)
    ctx.log("bounding zones checked")

    # ---------------- (b) probes ------------------------------------------
    exprs = []
    for t in trees:
        pts = "[" + "; ".join("V3 %s %s %s" % tuple(hexf(x) for x in p) for p in t["pts"]) + "]"
        exprs.append("map (probe 6 %s %s %s) %s" % (hexf(TOL), hexf(t["margin"]), unit_coq(t["top"]), pts))
    mres = ctx.coq_eval("trees", PRE, exprs, chunk=max(1, len(exprs) // 10 + 1), timeout=1500)
    ctx.log("model probes evaluated")
    nviol = 0
    stats = dict(skip=0, ambiguous=0, checked=0, model_disagree=0)
    seen_sig = set()
    for ti, (t, mv) in enumerate(zip(trees, mres)):
        h = hres.get("t%d" % ti)
        if h is not None and h["crash"]:
            ctx.count("harness-crash")
            if nviol < 8:
                nviol += 1
                ctx.violation("crash", "building / probing a valid object tree made the real code misbehave: %s" % h["crash"][:300],
                              {"what": h["crash"], "harness_input": "tol %s\n%s\n" % (float(TOL).hex(), t["text"])})
            continue
        if h is None or h["error"] or h["probes"] is None:
            err = h["error"] if h else "no output"
            sig = classify_error(err)
            ctx.count("build-error:" + (sig or "other"))
            if sig is None and nviol < 6:
                nviol += 1
                ctx.violation("construction-error", "a valid object tree was rejected: %s" % err,
                              {"error": err, "harness_input": "tol %s\n%s\n" % (float(TOL).hex(), t["text"])})
            continue
        try:
            if len(h["probes"]) != len(t["pts"]) or len(mv) != len(t["pts"]):
                raise ValueError("probe count mismatch: %d points, %d runtime answers, %d model answers"
                                 % (len(t["pts"]), len(h["probes"]), len(mv)))
            for p, hv, lv in zip(t["pts"], h["probes"], mv):
                levels = attach_units(lv, t["top"])
                status, acc_def, acc_built = expected_from_levels(levels)
                if status == "skip":
                    stats["skip"] += 1
                    continue
                got = hv[0]
                ctx.case(("probe", ti, p), nontrivial=True)
                stats["checked"] += 1
                ctx.count("result:" + ("exterior" if got == "[EXTERIOR]" else "bg" if got.endswith(".bg") else
                                       "rest" if got.endswith(".rest") else "failed" if got == "FAILED" else "material"))
                if len(acc_def) > 1:
                    stats["ambiguous"] += 1
                okd = got in acc_def or ("*daughter*" in acc_def)
                okb = got in acc_built or ("*daughter*" in acc_built)
                if acc_def != acc_built:
                    stats["model_disagree"] += 1
                if okd:
                    continue
                kinds = sorted(set(kinds_in_unit(levels[-1][4])))
                sig = finding_signature(levels, p, acc_def, acc_built, got, h["vols"])
                if sig in seen_sig and sig is not None:
                    continue
                seen_sig.add(sig)
                if nviol >= 8:
                    continue
                nviol += 1
                what = ("runtime volume '%s' but the definition of the solids puts the point in %s"
                        % (got, sorted(acc_def)))
                ctx.violation("meaning", what,
                              {"point": p, "runtime_volume": got, "by_definition": sorted(acc_def),
                               "by_construction_model": sorted(acc_built),
                               "levels": [(l[0], l[2], l[3]) for l in levels],
                               "primitive_kinds_in_unit": kinds,
                               "harness_input": "tol %s\n%s\n" % (float(TOL).hex(), minimal_text(t, p)),
                               "replay": "props/C09/harness/build_probe.cc < harness_input (VERIF_C09_DEBUG=<prefix> dumps the CSG)"},
                              signature=sig)
        except Exception as ex:      # the check's own processing must never end in exit 2
            ctx.count("tie-broken")
            if nviol < 8:
                nviol += 1
                import traceback
                ctx.violation("tie-broken", "could not evaluate the outcome of a tree (%s: %s)" % (type(ex).__name__, ex),
                              {"traceback": traceback.format_exc()[-1200:],
                               "harness_input": "tol %s\n%s\n" % (float(TOL).hex(), t["text"])}, no_input=True)
    for k, v in stats.items():
        ctx.count("probe:" + k, v)
    if trees:
        ctx.sample({"tree": trees[0]["text"][:1500]})
    try:
        tie2.finish(ctx, t2)
    except Exception as ex:            # noqa: never exit status 2
        ctx.violation("tie-broken", "part 2 of the tie (tie2.py) failed: %s" % ex, {"error": str(ex)[-2000:]}, no_input=True)
    if not proofs_ok:
        ctx.violation("proof-broken", "Properties_C09.v no longer checks", ctx.broken_proof, no_input=True)
    ctx.coverage["rule"] = ("cases = (primitive, parameters) for the surface differential and (object tree in nested units, probe point) "
                            "for the search, all drawn from one PRNG seeded by VERIF_SEED; a probe is non-trivial when it is "
                            "farther than 1e-6 from every surface of the model's list; distinct by (tree, point)")
    ctx.coverage["traces_validated_against_impl"] = stats["checked"] + len(prims)


def kinds_in_unit(u):
    out = []

    def walk(o):
        k = o[0]
        if k == "prim":
            out.append(o[1]["k"])
        elif k == "solid":
            out.append("solid:" + o[1]["k"])
        elif k in ("polycone", "polyprism"):
            out.append(k)
        elif k == "trans":
            walk(o[2])
        elif k == "neg":
            walk(o[1])
        elif k in ("all", "any"):
            for x in o[1]:
                walk(x)
    walk(u["boundary_resolved"])
    for _, o in u["materials_resolved"]:
        walk(o)
    return out


def classify_error(err):
    """construction errors that are documented limitations, not violations"""
    if err is None:
        return "other"
    for key in ("not implemented", "Not implemented", "not yet implemented"):
        if key in err:
            return "not-implemented"
    # GenPrism constructor validations of shapes the generator may produce by accident
    for key in ("twist angle", "is not convex", "different orientations", "both degenerate"):
        if key in err:
            return "generator-invalid-genprism"
    return None


def finding_signature(levels, p, acc_def, acc_built, got, vols=None):
    """name of a KNOWN defect class (matched against known_findings.json), or None.

    Deliberately narrow: the point, pulled back into the local frame of a
    Parallelepiped of the unit where the answers differ, must lie
    (1) inside the six planes that build() emits but outside the exterior
        bounding box that build() declares (BBox{-(a+b+c), a+b+c}), or
    (2) in the band hy*cos(alpha) < |y'| < hy that the documented solid
        contains and the built planes exclude (alpha != 0)."""
    q = list(p)
    for li in range(len(levels) - 1):
        u = levels[li][4]
        k0 = [k for k, b in enumerate(levels[li][2][1]) if b][0]
        q = G.tf_inv_apply(u["daughters"][k0][1], q)
    u = levels[-1][4]
    pl = []
    G.placements(u["boundary_resolved"], None, pl)
    for _, o in u["materials_resolved"]:
        G.placements(o, None, pl)
    for _, tr, pr in pl:
        if not pr or pr["k"] != "ppiped":
            continue
        hx, hy, hz, al, th, ph = pr["p"]
        if al == 0 and th == 0:
            continue
        x, y, z = G.tf_inv_apply(tr, q)
        ta, tt = math.tan(2 * math.pi * al), math.tan(2 * math.pi * th)
        cp, sp = math.cos(2 * math.pi * ph), math.sin(2 * math.pi * ph)
        y1 = y - z * tt * sp
        x1 = x - z * tt * cp - y1 * ta
        if abs(z) > hz or abs(x1) > hx:
            continue
        yb = hy * math.cos(2 * math.pi * al)
        if abs(y1) <= yb:
            st, ct = math.sin(2 * math.pi * th), math.cos(2 * math.pi * th)
            hd = [hx + hy * math.sin(2 * math.pi * al) + hz * st * cp,
                  hy * math.cos(2 * math.pi * al) + hz * st * sp,
                  hz * ct]
            if (abs(x) > hd[0] or abs(y) > hd[1] or abs(z) > hd[2]) and acc_def == acc_built:
                return "parallelepiped-exterior-bbox-too-small"
        elif abs(y1) < hy and al != 0 and acc_def != acc_built:
            return "parallelepiped-y-halfwidth-scaled-by-cos-alpha"
    # GenPrism::build omits the z plane of a degenerate (collapsed) face; with twisted side faces the
    # remaining surfaces do not close the solid beyond that face: the point is beyond the degenerate
    # end of such a prism and the built surfaces (model of build) accept it while the definition does not
    if acc_def != acc_built:
        for _, tr, pr in pl:
            if not pr or pr["k"] != "genprism":
                continue
            ori = lambda P: (P[1][0] - P[0][0]) * (P[2][1] - P[1][1]) - (P[1][1] - P[0][1]) * (P[2][0] - P[1][0])
            x, y, z = G.tf_inv_apply(tr, q)
            hz = pr["p"][0]
            if (ori(pr["hi"]) == 0 and z > hz) or (ori(pr["lo"]) == 0 and z < -hz):
                return "genprism-degenerate-face-not-closed-by-twisted-sides"
    # interior boxes that are not inside the solid (sphere: SurfaceClipper sqrt_three/2; prism: square of
    # half-width apothem): the point is outside such a primitive but inside its declared interior box
    if acc_def == acc_built:
        for _, tr, pr in pl:
            if not pr:
                continue
            x, y, z = G.tf_inv_apply(tr, q)
            if pr["k"] == "sphere":
                rr = pr["p"][0]
                h = rr * math.sqrt(3.0) / 2
                if x * x + y * y + z * z > rr * rr and max(abs(x), abs(y), abs(z)) <= h:
                    return "sphere-interior-bbox-not-inscribed"
            if pr["k"] == "prism":
                a_, hh, o = pr["p"]
                n = pr["n"]
                inpoly = all(x * math.cos(2 * math.pi * (k + o) / n - math.pi / 2)
                             + y * math.sin(2 * math.pi * (k + o) / n - math.pi / 2) <= a_ for k in range(n))
                if (not inpoly) and max(abs(x), abs(y)) <= a_ and abs(z) <= hh:
                    return "prism-interior-bbox-not-inscribed"
    # BoundingZone.cc: calc_difference(a, b, shrink) returns the SUBTRAHEND b when a encloses b (and
    # calc_union's `A | ~B` branch has its operands swapped): the "interior" of A - B then covers B, and a
    # later subtraction / union makes the exterior box of a non-empty volume null or too small.
    # Criterion: the point is in exactly one material by definition, lies OUTSIDE that volume's declared
    # bbox, and the material's object has a negation nested under a negation or under a union.
    if vols and acc_def == acc_built and len(acc_def) == 1:
        lab = next(iter(acc_def))
        bb = vols.get((u["label"], lab))
        objs = [o for l_, o in u["materials_resolved"] if l_ == lab]
        if bb is not None and objs and not all(bb[i] <= q[i] <= bb[3 + i] for i in range(3)):
            if nested_difference(objs[0]):
                # the finding is excused only while the source under test still has the defect (tie2.bz_source_state):
                # with calc_difference repaired only the union half (operand order of the mixed branches, pinned by
                # BoundingZoneTest.calc_union) remains, which needs a union in the object; with both repaired the old
                # behaviour is a hard violation
                diff_fixed, union_fixed = BZ_STATE
                if not diff_fixed or (not union_fixed and union_with_negation(objs[0])):
                    return "boundingzone-shrink-difference-returns-subtrahend"
    return None


BZ_STATE = (False, False)


def zone_flag(o):
    """the `negated` flag BoundingZone.cc gives the zone of an object (VolumeBuilder::insert_region folds
    calc_intersection / calc_union over the operands)"""
    k = o[0]
    if k == "neg":
        return not zone_flag(o[1])
    if k == "all":
        return bool(o[1]) and all(zone_flag(x) for x in o[1])
    if k == "any":
        return any(zone_flag(x) for x in o[1])
    if k == "trans":
        return zone_flag(o[-1])
    if k == "def":
        return zone_flag(o[2])
    return False


def union_with_negation(o):
    """some `any` node has an operand whose zone is negated: calc_union's mixed-negation branches are used"""
    k = o[0]
    if k == "neg":
        return union_with_negation(o[1])
    if k == "all":
        return any(union_with_negation(x) for x in o[1])
    if k == "any":
        return any(zone_flag(x) for x in o[1]) or any(union_with_negation(x) for x in o[1])
    if k == "trans":
        return union_with_negation(o[-1])
    if k == "def":
        return union_with_negation(o[2])
    return False


def nested_difference(o, under=False):
    """a `neg` below another `neg` or below an `any`"""
    k = o[0]
    if k == "neg":
        return under or nested_difference(o[1], True)
    if k == "any":
        return any(nested_difference(x, True) for x in o[1])
    if k == "all":
        return any(nested_difference(x, under) for x in o[1])
    if k == "trans":
        return nested_difference(o[2], under)
    return False


def minimal_text(t, p):
    lines = t["text"].splitlines()
    k = [i for i, l in enumerate(lines) if l.startswith("probes ")][0]
    return "\n".join(lines[:k] + ["probes 1", " ".join(float(x).hex() for x in p), "endcase"])


def corpus_trees():
    """minimised past disagreements (run first)"""
    box = lambda h: ("prim", dict(k="box", p=[h, h, h], bb=[h, h, h]))
    out = []
    # F1: Parallelepiped exterior bbox uses c = hz*(sin th cos ph, sin th sin ph, cos th): z extent hz*cos(theta) < hz
    pp = dict(k="ppiped", p=[1.0, 2.0, 3.0, 0.0, 0.1, 0.0], bb=[3.2, 2.0, 3.0])
    u = new_unit("u0", ("def", "bnd", box(10.0)), "media", [], [("u0.m0", ("prim", pp))], True)
    out.append((u, [[2.1, 0.0, 2.9], [-2.1, 0.0, -2.9], [0.0, 0.0, 0.0], [1.5, 1.0, 2.0], [2.0, 0.0, 2.3]]))
    # F1': negative alpha / phi in the second quadrant shrink (or invert) the x / y extents of the bbox
    pp = dict(k="ppiped", p=[1.0, 2.0, 3.0, -0.1, 0.1, 0.4], bb=[5.0, 5.0, 3.0])
    u = new_unit("u0", ("def", "bnd", box(10.0)), "media", [], [("u0.m0", ("prim", pp))], True)
    out.append((u, [[0.0, 0.0, 0.0], [-0.5, 1.9, 0.0], [0.9, -1.9, 0.0], [-1.5, 0.5, 2.0], [1.5, -0.5, -2.0]]))
    # F2: y faces at +-hy*cos(alpha) instead of +-hy (documented: half-lengths of the PROJECTIONS on y)
    pp = dict(k="ppiped", p=[1.0, 2.0, 3.0, 0.1, 0.0, 0.0], bb=[2.5, 2.0, 3.0])
    u = new_unit("u0", ("def", "bnd", box(10.0)), "media", [], [("u0.m0", ("prim", pp))], True)
    out.append((u, [[1.3, 1.8, 0.0], [-1.3, -1.8, 1.0], [0.0, 0.0, 0.0], [1.2, 1.5, 0.0]]))
    # F3: SurfaceClipper gives a sphere the "interior" cube of half-width (sqrt3/2) r (should be r/sqrt3):
    # (box - sphere) gets a null exterior box, and in a union the whole piece drops out of the volume's bbox
    far = ("trans", (G.IDM, [5.0, 0.0, 0.0], "tl"), ("prim", dict(k="box", p=[0.5, 0.5, 0.5], bb=[0.5] * 3)))
    piece = ("all", [("prim", dict(k="box", p=[0.8, 0.8, 0.8], bb=[0.8] * 3)),
                     ("neg", ("prim", dict(k="sphere", p=[1.0], bb=[1.0] * 3)))])
    u = new_unit("u0", ("def", "bnd", box(10.0)), "media", [], [("u0.m0", ("any", [piece, far]))], True)
    out.append((u, [[0.75, 0.75, 0.75], [5.0, 0.0, 0.0], [0.0, 0.0, 0.0], [-0.7, 0.72, -0.75]]))
    # F4: Prism::build declares the square [-a,a]^2 as interior box
    piece = ("all", [("prim", dict(k="box", p=[0.95, 0.95, 0.5], bb=[0.95, 0.95, 0.5])),
                     ("neg", ("prim", dict(k="prism", n=5, p=[1.0, 2.0, 0.0], bb=[1.3, 1.3, 2.0])))])
    u = new_unit("u0", ("def", "bnd", box(10.0)), "media", [], [("u0.m0", ("any", [piece, far]))], True)
    out.append((u, [[0.93, 0.93, 0.0], [5.0, 0.0, 0.0], [0.0, 0.0, 0.0], [-0.93, 0.93, 0.2]]))
    # F5: BoundingZone.cc calc_difference(a, b, shrink) returns b when a encloses b: pure boxes
    bigminus = ("all", [("prim", dict(k="box", p=[9.0, 9.0, 9.0], bb=[9.0] * 3)),
                        ("neg", ("prim", dict(k="box", p=[1.0, 1.0, 1.0], bb=[1.0] * 3)))])
    piece = ("all", [("prim", dict(k="box", p=[0.9, 0.9, 0.9], bb=[0.9] * 3)), ("neg", bigminus)])
    u = new_unit("u0", ("def", "bnd", box(10.0)), "media", [], [("u0.m0", ("any", [piece, far]))], True)
    out.append((u, [[0.0, 0.0, 0.0], [5.0, 0.0, 0.0], [0.5, -0.5, 0.8], [3.0, 3.0, 3.0]]))
    # F5': the `A | ~B` branch of calc_union
    piece = ("all", [("prim", dict(k="box", p=[0.5, 0.5, 0.5], bb=[0.5] * 3)),
                     ("any", [("prim", dict(k="box", p=[9.0, 9.0, 9.0], bb=[9.0] * 3)),
                              ("neg", ("prim", dict(k="sphere", p=[1.0], bb=[1.0] * 3)))])])
    u = new_unit("u0", ("def", "bnd", box(10.0)), "media", [], [("u0.m0", ("any", [piece, far]))], True)
    out.append((u, [[0.0, 0.0, 0.0], [5.0, 0.0, 0.0], [0.7, 0.0, 0.0]]))
    # F6: GenPrism::build omits the +z (-z) plane when that face is degenerate; with TWISTED side faces
    # the remaining surfaces do not close the solid: a region beyond the collapsed face satisfies all of them
    gp = dict(k="genprism", p=[1.0], lo=[[1.0, 1.0], [-1.0, 0.0], [1.0, -1.0]],
              hi=[[0.0, 0.2], [0.0, 0.2], [0.5, -0.3]], bb=[1.0, 1.0, 1.0])
    u = new_unit("u0", ("def", "bnd", box(10.0)), "media", [],
                 [("u0.m0", ("all", [box(4.0), ("neg", ("prim", gp))])), ("u0.m1", ("prim", gp))], True)
    out.append((u, [[0.4, -0.2, 2.0], [1.0, -0.6, 2.5], [0.0, 0.0, 0.0], [0.3, -0.1, 1.5], [0.2, 0.1, 0.5]]))
    return out


def load_corpus_prims():
    path = os.path.join(HERE, "corpus", "prims.json")
    if not os.path.exists(path):
        return []
    with open(path) as f:
        return json.load(f)
