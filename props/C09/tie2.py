"""C09 tie, part 2: BoundingZone algebra, calc_transform of boxes, SoftSurfaceEqual,
LocalSurfaceInserter and SurfaceGridHash against coq/C09/BZone.v, Dedup.v (entry points Run2.v).

Every request is run through the REAL library (harness/zones_dedup.cc) and through the float
instance of the model; discrete answers are compared exactly.  Generators avoid rounding
knife-edges: perturbations are 0 / 0.3 / 0.8 / 1.25 / 3 x the relevant threshold.  On top of the
differential, property oracles are applied to the library's answers (zone soundness on a lattice of
sample points, image of box points inside the transformed box, returned surface chain-linked to the
inserted one, hash points within eps share a key)."""
import math
import os
import sys

sys.path.insert(0, os.path.join(os.path.dirname(os.path.abspath(__file__)), "..", "..", "tools"))
import vlib
from vlib import hexf

HERE = os.path.dirname(os.path.abspath(__file__))
import gen as G

PRE2 = ("From Coq Require Import ZArith List Floats.\n"
        "From Celer Require Import Base.Num Base.NumF Base.Vec3 C12.Surfaces C12.Transforms C09.BZone C09.BZoneRepair C09.Dedup C09.Run2 C09.Run3.\n"
        "Import ListNotations.\nOpen Scope float_scope.\n")
INF = math.inf
F5 = "boundingzone-shrink-difference-returns-subtrahend"
FACT = [0.0, 0.3, 0.8, 1.25, 3.0]
TOLS = [(1.5e-8, 1.5e-8), (1e-6, 1e-5), (1e-5, 1e-6), (1e-6, 1e-6), (1e-6, 1e-7)]


class Limited:
    """ctx proxy: at most `cap` reports per (section, kind); the rest are counted (ctx.count) so that one defect does not
    produce hundreds of VIOLATION lines."""
    def __init__(self, ctx, section, cap=6):
        self._ctx, self._section, self._cap, self._n = ctx, section, cap, {}

    def __getattr__(self, name):
        return getattr(self._ctx, name)

    def violation(self, kind, what, replay, signature=None, no_input=False):
        n = self._n.get(kind, 0)
        self._n[kind] = n + 1
        if n < self._cap:
            self._ctx.violation(kind, what, replay, signature=signature, no_input=no_input)
        else:
            self._ctx.count("suppressed:" + self._section + ":" + kind)


def bz_source_state():
    """(calc_difference repaired?, union operand order repaired?) read from the source under test (finding F5).
    The faithful model of the zone algebra is chosen accordingly: run_bz (both defects), run_bz_dfix (difference
    repaired), run_bz_fix (both repaired).  With a repaired source the old behaviour is a disagreement with the model,
    i.e. a hard VIOLATION, not a known finding."""
    import re
    try:
        s = open(os.path.join(vlib.REPO, "src", "orange", "orangeinp", "detail", "BoundingZone.cc")).read()
    except OSError:
        return (False, False)
    m = re.search(r"if \(encloses\(a, b\)\)\s*\{(.*?)\}", s, re.S)          # first one: calc_difference
    diff_fixed = bool(m) and re.search(r"shrink\s*\?\s*b\s*:", m.group(1)) is None
    i = s.find("BoundingZone calc_union(BoundingZone const& a")
    m2 = re.search(r"!a\.negated && b\.negated\)\s*\{(.*?)\}", s[i:], re.S) if i >= 0 else None
    union_fixed = bool(m2) and re.search(r"calc_difference\(\s*b\.interior,\s*a\.exterior", m2.group(1)) is not None
    return (diff_fixed, union_fixed)


def hx(x):
    return "inf" if x == INF else "-inf" if x == -INF else float(x).hex()


def fl(xs):
    return "[" + "; ".join(hexf(float(x)) for x in xs) + "]"


# ------------------------------------------------------------------ zones
LAT = [-3.0, -2.0, -1.0, 0.0, 1.0, 2.0, 3.0]


def rand_box(r, inside=None):
    """[lo3 + hi3]; inside = box that must enclose the result (or None)"""
    u = r.random()
    if u < 0.10:
        return [INF] * 3 + [-INF] * 3
    if inside is None and u < 0.18:
        return [-INF] * 3 + [INF] * 3
    lo, hi = [0.0] * 3, [0.0] * 3
    for ax in range(3):
        a, b = sorted(r.sample(LAT, 2)) if r.random() < 0.93 else [r.choice(LAT)] * 2
        if inside is None:
            if r.random() < 0.08:
                a = -INF
            if r.random() < 0.08:
                b = INF
        else:
            a, b = max(a, inside[ax]), min(b, inside[3 + ax])
        lo[ax], hi[ax] = a, b
    if inside is None and r.random() < 0.04:      # non-canonical null box
        ax = r.randrange(3)
        lo[ax], hi[ax] = 2.0, -2.0
    return lo + hi


def box_valid(b):
    return all(b[i] <= b[3 + i] for i in range(3))


def in_box(b, p):
    return all(b[i] <= p[i] <= b[3 + i] for i in range(3))


def rand_zone(r):
    """(interior, exterior, negated, region box or None).  With a region box the zone is SOUND for
    the region `box` (negated: for its complement): interior inside box inside exterior."""
    neg = r.random() < 0.5
    if r.random() < 0.75:
        ext = rand_box(r)
        if not box_valid(ext):
            return (list(ext), list(ext), neg, list(ext))
        reg = rand_box(r, inside=ext) if r.random() < 0.6 else list(ext)
        if not box_valid(reg):
            reg = [INF] * 3 + [-INF] * 3
            inner = list(reg)
        else:
            inner = rand_box(r, inside=reg) if r.random() < 0.6 else list(reg)
            if not box_valid(inner):
                inner = [INF] * 3 + [-INF] * 3
        return (inner, ext, neg, reg)
    return (rand_box(r), rand_box(r), neg, None)


def zone_sound_at(res, negres, truth, p):
    """res = (interior, exterior); truth = whether p is in the combined region"""
    i, x = res
    if not negres:
        return (not in_box(i, p) or truth) and (not truth or in_box(x, p))
    return (not in_box(i, p) or not truth) and (in_box(x, p) or truth)


SAMPLES = [(a, b, c) for a in (-3.5, -2.5, -1.5, -0.5, 0.5, 1.5, 2.5, 3.5)
           for b in (-2.5, -0.5, 0.5, 2.5) for c in (-2.5, -0.5, 0.5, 2.5)] + \
          [(float(a), float(a), float(a)) for a in (-3, -2, -1, 0, 1, 2, 3)]


def run_zones(ctx, r, exe_run, n):
    ctx = Limited(ctx, "bzone")
    cases = []
    for k in range(n):
        za, zb = rand_zone(r), rand_zone(r)
        op = r.choice("iu")
        cases.append((op, za, zb))
    # corpus: the two refutation witnesses of BZoneProofs.v
    c9, c1 = [-9.0] * 3 + [9.0] * 3, [-1.0] * 3 + [1.0] * 3
    cases.insert(0, ("i", (c9, c9, False, c9), (c1, c1, True, c1)))
    cases.insert(1, ("u", (c1, c1, False, c1), (c9, c9, True, c9)))
    lines = ["bz %s %s %d %s %d" % (op, " ".join(hx(v) for v in za[0] + za[1]), za[2],
                                   " ".join(hx(v) for v in zb[0] + zb[1]), zb[2]) for op, za, zb in cases]
    outs = exe_run(lines)
    diff_fixed, union_fixed = bz_source_state()
    entry = "run_bz_fix" if (diff_fixed and union_fixed) else "run_bz_dfix" if diff_fixed else "run_bz"
    ctx.count("bz-source:%s" % entry)
    if diff_fixed or union_fixed:
        ctx.notes.append("BoundingZone.cc: calc_difference repaired=%s, union operand order repaired=%s: the zone algebra "
                         "is compared with model entry %s; finding F5 is no longer excused for the repaired part" % (
                             diff_fixed, union_fixed, entry))
    exprs = []
    for op, za, zb in cases:
        args = "%s %s %s %s %s" % ("true" if op == "i" else "false", fl(za[0] + za[1]), "true" if za[2] else "false",
                                   fl(zb[0] + zb[1]), "true" if zb[2] else "false")
        exprs.append("(%s %s, run_bz_fix %s)" % (entry, args, args))
    def judge(mv):
        nfix = 0
        for (op, za, zb), out, m in zip(cases, outs, mv):
            key = ("bz", op, za[2], zb[2])
            rep = dict(kind="bzone", op=op, a=dict(interior=za[0], exterior=za[1], negated=za[2]),
                       b=dict(interior=zb[0], exterior=zb[1], negated=zb[2]), harness_line=out)
            tok = out.split()
            if tok[0] != "bz" or len(tok) != 20:
                ctx.violation("crash", "BoundingZone harness request failed: %s" % out, rep)
                continue
            got = [vlib_num(x) for x in tok[1:13]] + [int(tok[13])] + [vlib_num(x) for x in tok[14:20]]
            mz, mfix = m[0:3], m[3]
            mod = [float(x) for x in mz[0]] + [1 if mz[1] else 0] + [float(x) for x in mz[2]]
            ctx.count("bz:%s:%d%d" % (op, za[2], zb[2]))
            same = all(feq(a, b) for a, b in zip(got, mod))
            ctx.case(key + (tuple(za[0]), tuple(zb[0])), nontrivial=box_valid(got[0:6]) or box_valid(got[6:12]))
            # property oracle on the library's answer (operands sound for box regions)
            bad = None
            if za[3] is not None and zb[3] is not None:
                for p in SAMPLES:
                    ta = in_box(za[3], p) != za[2]
                    tb = in_box(zb[3], p) != zb[2]
                    truth = (ta and tb) if op == "i" else (ta or tb)
                    if not zone_sound_at((got[0:6], got[6:12]), bool(got[12]), truth, p):
                        bad = p
                        break
            if not same:
                ctx.violation("correspondence", "BoundingZone %s: library %s, model %s" % (
                    "calc_intersection" if op == "i" else "calc_union", got, mod),
                    dict(rep, model=mod, oracle_point=bad), no_input=(bad is None))
                continue
            if bad is not None:
                fx = [float(x) for x in mfix[0]]
                fixed_ok = True
                for p in SAMPLES:
                    ta = in_box(za[3], p) != za[2]
                    tb = in_box(zb[3], p) != zb[2]
                    truth = (ta and tb) if op == "i" else (ta or tb)
                    if not zone_sound_at((fx[0:6], fx[6:12]), bool(mfix[1]), truth, p):
                        fixed_ok = False
                # known finding F5 only where the source still has the defect
                mixed = za[2] != zb[2] and ((op == "i" and not diff_fixed) or (op == "u" and not union_fixed))
                nfix += 1
                ctx.count("bz-unsound-known" if (mixed and fixed_ok) else "bz-unsound-other")
                if mixed and fixed_ok and nfix > 2:
                    continue          # further instances of the known finding F5 are only counted
                ctx.violation("bzone-unsound", "zone returned by BoundingZone %s is not sound for the %s of the operand "
                              "regions at %s" % ("calc_intersection" if op == "i" else "calc_union",
                                                 "intersection" if op == "i" else "union", list(bad)),
                              dict(rep, point=list(bad), result=got, repaired_model_result=fx),
                              signature=F5 if (mixed and fixed_ok) else None)
        ctx.log("bzone: %d cases, %d unsound (known finding F5 branches)" % (len(cases), nfix))
    return exprs, judge


def vlib_num(x):
    return float(x) if ("inf" in x or "nan" in x) else float.fromhex(x)


def feq(a, b):
    return a == b or (a != a and b != b)


# ------------------------------------------------------------------ transformed boxes
def run_boxtf(ctx, r, exe_run, n):
    ctx = Limited(ctx, "boxtf")
    cases = []
    for k in range(n):
        tr = G.rand_tf(r, 3.0, kind=r.choice(["rot", "rot", "rotq", "refl", "tl"]))
        c = [r.uniform(-3, 3) for _ in range(3)]
        h = [r.choice([0.0, r.uniform(0.1, 2.0), r.uniform(0.1, 2.0)]) for _ in range(3)]
        lo, hi = [c[i] - h[i] for i in range(3)], [c[i] + h[i] for i in range(3)]
        cases.append((tr, lo, hi))
    lines = ["bt %s %s %s %s" % (" ".join(hx(tr[0][i][j]) for i in range(3) for j in range(3)),
                                 " ".join(hx(v) for v in tr[1]), " ".join(hx(v) for v in lo), " ".join(hx(v) for v in hi))
             for tr, lo, hi in cases]
    outs = exe_run(lines)
    v3 = lambda a: "(V3 %s %s %s)" % tuple(hexf(float(x)) for x in a)
    exprs = ["run_bt (TF (M3 %s %s %s) %s) %s %s" % (v3(tr[0][0]), v3(tr[0][1]), v3(tr[0][2]), v3(tr[1]), v3(lo), v3(hi))
             for tr, lo, hi in cases]
    def judge(mv):
        for (tr, lo, hi), out, m in zip(cases, outs, mv):
            rep = dict(kind="calc_transform", rotation=tr[0], translation=tr[1], lower=lo, upper=hi, harness_line=out)
            tok = out.split()
            if tok[0] != "bt" or len(tok) != 7:
                ctx.violation("crash", "calc_transform harness request failed: %s" % out, rep)
                continue
            got = [vlib_num(x) for x in tok[1:7]]
            mod = [float(x) for x in m]
            ctx.case(("bt", tuple(lo), tuple(tr[1])), nontrivial=True)
            ctx.count("bt:%s" % tr[2])
            bad = None
            for k in range(12):
                p = [r.choice([lo[i], hi[i], r.uniform(lo[i], hi[i])]) for i in range(3)]
                q = G.tf_apply(tr, p)
                if not all(got[i] - 1e-9 * (1 + abs(got[i])) <= q[i] <= got[3 + i] + 1e-9 * (1 + abs(got[3 + i])) for i in range(3)):
                    bad = (p, q)
                    break
            if bad:
                ctx.violation("transformed-bbox", "calc_transform(Transformation, BBox): image %s of box point %s lies outside the "
                              "returned box %s" % (bad[1], bad[0], got), dict(rep, point=bad[0], image=bad[1], result=got))
            elif not all(vlib.close(a, b, rtol=1e-9, atol=1e-12) for a, b in zip(got, mod)):
                ctx.violation("correspondence", "calc_transform of a box: library %s, model %s" % (got, mod),
                              dict(rep, model=mod), no_input=True)
    return exprs, judge


# ------------------------------------------------------------------ surfaces
AXN = ["AX", "AY", "AZ"]


def surf_text(s):
    k = s[0]
    return k + " " + " ".join(str(v) if isinstance(v, int) else hx(v) for v in flat(s[1:]))


def flat(xs):
    out = []
    for v in xs:
        if isinstance(v, (list, tuple)):
            out += list(v)
        else:
            out.append(v)
    return out


def surf_coq(s):
    k = s[0]
    v3 = lambda a: "(V3 %s %s %s)" % tuple(hexf(float(x)) for x in a)
    h = lambda x: hexf(float(x))
    if k == "pa":
        return "(SPlaneAligned %s %s)" % (AXN[s[1]], h(s[2]))
    if k == "cc":
        return "(SCylCentered %s %s)" % (AXN[s[1]], h(s[2]))
    if k == "sc":
        return "(SSphereCentered %s)" % h(s[1])
    if k == "ca":
        return "(SCylAligned %s %s %s %s)" % (AXN[s[1]], h(s[2]), h(s[3]), h(s[4]))
    if k == "pl":
        return "(SPlane %s %s)" % (v3(s[1]), h(s[2]))
    if k == "sp":
        return "(SSphere %s %s)" % (v3(s[1]), h(s[2]))
    if k == "ko":
        return "(SConeAligned %s %s %s)" % (AXN[s[1]], v3(s[2]), h(s[3]))
    if k == "sq":
        return "(SSimpleQuadric %s %s %s)" % (v3(s[1]), v3(s[2]), h(s[3]))
    if k == "gq":
        return "(SGeneralQuadric %s %s %s %s)" % (v3(s[1]), v3(s[2]), v3(s[3]), h(s[4]))
    raise ValueError(k)


def mag(r):
    return r.choice([0.0, r.uniform(1e-9, 1e-6), r.uniform(0.05, 0.9), r.uniform(1.0, 9.0), r.uniform(50.0, 2000.0)])


def rvec(r, m=None):
    m = mag(r) if m is None else m
    while True:
        v = [r.gauss(0, 1) for _ in range(3)]
        n = math.sqrt(sum(x * x for x in v))
        if n > 0.1:
            break
    if r.random() < 0.2:
        v = [0.0, 0.0, 0.0]
        v[r.randrange(3)] = n
    return [x / n * m for x in v]


def unit(v):
    n = math.sqrt(sum(x * x for x in v))
    return [x / n for x in v]


def thr(tol, x):
    return max(tol[1], tol[0] * abs(x))


def thr_d(tol, v):
    return max(tol[1], tol[1] * math.sqrt(sum(x * x for x in v)))


def bump(r, tol, x, f=None):
    f = r.choice(FACT) if f is None else f
    return x + r.choice([-1, 1]) * f * thr(tol, x)


def bump_sq(r, tol, rsq, f=None):
    """perturb a squared quantity through its root"""
    f = r.choice(FACT) if f is None else f
    root = math.sqrt(rsq)
    nr = root + r.choice([-1, 1]) * f * thr(tol, root)
    return nr * nr if nr > 0 else rsq


def bump_v(r, tol, v, f=None):
    f = r.choice(FACT) if f is None else f
    d = rvec(r, 1.0)
    t = f * thr_d(tol, v)
    return [v[i] + t * d[i] for i in range(3)]


def tilt(r, n, ang):
    """unit vector at angle `ang` from the unit vector n"""
    while True:
        t = rvec(r, 1.0)
        dot = sum(t[i] * n[i] for i in range(3))
        t = [t[i] - dot * n[i] for i in range(3)]
        if math.sqrt(sum(x * x for x in t)) > 0.2:
            break
    t = unit(t)
    return unit([math.cos(ang) * n[i] + math.sin(ang) * t[i] for i in range(3)])


def rand_surf(r, kind=None):
    k = kind or r.choice(["pa", "pa", "cc", "sc", "ca", "pl", "pl", "sp", "sp", "ko", "sq", "gq"])
    ax = r.randrange(3)
    if k == "pa":
        return ("pa", ax, r.choice([-1, 1]) * mag(r))
    if k == "cc":
        return ("cc", ax, max(mag(r), 1e-4) ** 2)
    if k == "sc":
        return ("sc", max(mag(r), 1e-4) ** 2)
    if k == "ca":
        o = rvec(r)
        return ("ca", ax, o[0], o[1], max(mag(r), 1e-4) ** 2)
    if k == "pl":
        return ("pl", unit(rvec(r, 1.0)), r.choice([-1, 1]) * mag(r))
    if k == "sp":
        return ("sp", rvec(r), max(mag(r), 1e-4) ** 2)
    if k == "ko":
        return ("ko", ax, rvec(r), r.uniform(0.05, 4.0))
    if k == "sq":
        return ("sq", [r.uniform(-2, 2) for _ in range(3)], rvec(r), r.choice([-1, 1, 1]) * mag(r))
    return ("gq", [r.uniform(-2, 2) for _ in range(3)], [r.uniform(-2, 2) for _ in range(3)], rvec(r),
            r.choice([-1, 1, 1]) * mag(r))


def variant(r, tol, s, f=None):
    """a surface of the same class whose data differ from s by f x (threshold) in some data"""
    k = s[0]
    one = lambda: (r.choice(FACT) if f is None else f) if r.random() < 0.7 else 0.0
    if k == "pa":
        return ("pa", s[1], bump(r, tol, s[2], f))
    if k == "cc":
        return ("cc", s[1], bump_sq(r, tol, s[2], f))
    if k == "sc":
        return ("sc", bump_sq(r, tol, s[1], f))
    if k == "ca":
        o = [0.0, 0.0, 0.0]
        u, v = (1 if s[1] == 0 else 0), (1 if s[1] == 2 else 2)
        o[u], o[v] = s[2], s[3]
        d = rvec(r, 1.0)
        d[s[1]] = 0.0
        nd = math.sqrt(sum(x * x for x in d)) or 1.0
        t = one() * thr_d(tol, o)
        return ("ca", s[1], o[u] + t * d[u] / nd, o[v] + t * d[v] / nd, bump_sq(r, tol, s[4], one()))
    if k == "pl":
        ang = one() * tol[0]
        n = tilt(r, s[1], ang) if ang > 0 else list(s[1])
        return ("pl", n, bump(r, tol, s[2], one()))
    if k == "sp":
        return ("sp", bump_v(r, tol, s[1], one()), bump_sq(r, tol, s[2], one()))
    if k == "ko":
        return ("ko", s[1], bump_v(r, tol, s[2], one()), bump_sq(r, tol, s[3], one()))
    if k == "sq":
        return ("sq", bump_v(r, tol, s[1], one()), bump_v(r, tol, s[2], one()), bump(r, tol, s[3], one()))
    return ("gq", bump_v(r, tol, s[1], one()), bump_v(r, tol, s[2], one()), bump_v(r, tol, s[3], one()),
            bump(r, tol, s[4], one()))


def groups(s):
    """data of a surface as a list of vectors (scalars = 1-vectors; the (u, v) origin of a CylAligned is one vector)"""
    if s[0] == "ca":
        return [[s[2], s[3]], [s[4]]]
    return [list(v) if isinstance(v, (list, tuple)) else [v] for v in s[1:] if not isinstance(v, int)]


def gross_close(tol, a, b, links=1):
    """oracle: data of soft-equal surfaces differ at most by a small multiple of the tolerance (vector data: in norm,
    relative to the larger norm)"""
    m = max(tol)
    for x, y in zip(groups(a), groups(b)):
        d = math.sqrt(sum((p - q) ** 2 for p, q in zip(x, y)))
        sc = max(math.sqrt(sum(p * p for p in x)), math.sqrt(sum(q * q for q in y)))
        if d > 6.0 * links * m * (1.0 + sc):
            return False
    return True


def pick_tol(r, kind):
    if kind == "pl":      # the normal criterion is at rounding level for rel ~ 1e-8: use coarser tolerances
        return r.choice(TOLS[1:])
    return r.choice(TOLS)


def run_sse(ctx, r, exe_run, n):
    ctx = Limited(ctx, "sse")
    cases = []
    for k in range(n):
        a = rand_surf(r)
        tol = pick_tol(r, a[0])
        u = r.random()
        if u < 0.08:
            b = a
        elif u < 0.14:
            b = rand_surf(r)          # unrelated (often another class)
        else:
            b = variant(r, tol, a)
        cases.append((tol, a, b))
    lines = ["sse %s %s %s %s" % (hx(t[0]), hx(t[1]), surf_text(a), surf_text(b)) for t, a, b in cases]
    outs = exe_run(lines)
    exprs = ["run_sse %s %s %s %s" % (hexf(t[0]), hexf(t[1]), surf_coq(a), surf_coq(b)) for t, a, b in cases]
    def judge(mv):
        for (tol, a, b), out, m in zip(cases, outs, mv):
            rep = dict(kind="SoftSurfaceEqual", tol=dict(rel=tol[0], abs=tol[1]), a=a, b=b, harness_line=out)
            tok = out.split()
            if tok[0] != "sse" or len(tok) != 3:
                ctx.violation("crash", "SoftSurfaceEqual harness request failed: %s" % out, rep)
                continue
            soft, exact = tok[1] == "1", tok[2] == "1"
            ctx.case(("sse", a[0], tol, tuple(flat(a[1:])[:2])), nontrivial=(a[0] == b[0]))
            ctx.count("sse:%s:%s" % (a[0], "eq" if soft else "ne"))
            if soft and not gross_close(tol, a, b):
                ctx.violation("soft-equal-too-lenient", "SoftSurfaceEqual accepts surfaces whose data differ by much more than the "
                              "tolerance: %s vs %s" % (a, b), rep)
            elif (soft, soft and exact) != (bool(m[0]), bool(m[1])):
                ctx.violation("correspondence", "SoftSurfaceEqual/ExactSurfaceEqual: library (%s, %s), model %s for %s vs %s" % (
                    soft, exact, m, a, b), dict(rep, model=list(m)), no_input=True)
    return exprs, judge


# ------------------------------------------------------------------ inserter
def gen_sequence(r):
    kind = r.choice(["pa", "pa", "pa", "cc", "sc", "ca", "pl", "sp", "sp", "ko", "sq", "gq"])
    tol = pick_tol(r, kind)
    base = rand_surf(r, kind)
    if kind == "pa" and r.random() < 0.5:
        # next to a hash-bin boundary (bin width 0.01 * abs / rel, boundaries at (k - 1/2) width)
        gw = 0.01 * tol[1] / tol[0]
        kbin = r.choice([0, 1, 3, 40, 1000, 123456])
        base = ("pa", base[1], r.choice([-1, 1]) * ((kbin - 0.5) * gw) + r.choice([-3, -0.8, -0.3, 0.3, 0.8, 3]) * 2 * tol[0])
    seq = [base]
    for _ in range(r.randrange(2, 9)):
        u = r.random()
        prev = r.choice(seq)
        if u < 0.2:
            seq.append(prev)                                   # exact duplicate (possibly of a merged surface)
        elif u < 0.75:
            seq.append(variant(r, tol, prev, f=r.choice([0.3, 0.8, 0.8, 1.25])))   # chain link / near miss
        elif u < 0.9:
            seq.append(variant(r, tol, prev, f=r.choice([3.0, 40.0])))
        else:
            seq.append(rand_surf(r))
    return tol, seq


def run_lsi(ctx, r, exe_run, n):
    ctx = Limited(ctx, "lsi")
    cases = [gen_sequence(r) for _ in range(n)]
    # corpus: the witnesses of lsi_drift_refuted and grid_hash_complete_refuted (tolerance 1e-3)
    cases.insert(0, ((1e-3, 1e-3), [("pa", 0, 0.0), ("pa", 0, 9e-4), ("pa", 0, 18e-4)]))
    cases.insert(1, ((1e-3, 1e-3), [("pa", 0, 9.8975), ("pa", 0, 9.8925)]))
    lines = ["lsi %s %s %d %s" % (hx(t[0]), hx(t[1]), len(seq), " ".join(surf_text(s) for s in seq)) for t, seq in cases]
    outs = exe_run(lines)
    parsed = []
    exprs = []
    for (tol, seq), out in zip(cases, outs):
        tok = out.split()
        if tok[0] != "lsi" or len(tok) != 1 + 2 * len(seq):
            parsed.append(None)
            exprs.append("run_lsi %s %s []" % (hexf(tol[0]), hexf(tol[1])))
            continue
        ids = [int(x) for x in tok[1::2]]
        sizes = [int(x) for x in tok[2::2]]
        parsed.append((ids, sizes))
        exprs.append("run_lsi %s %s [%s]" % (hexf(tol[0]), hexf(tol[1]),
                                            "; ".join("(%s, %d%%nat)" % (surf_coq(s), i) for s, i in zip(seq, ids))))
    def judge(mv):
        nmerge = nmiss = 0
        for (tol, seq), out, pr, m in zip(cases, outs, parsed, mv):
            rep = dict(kind="LocalSurfaceInserter", tol=dict(rel=tol[0], abs=tol[1]), surfaces=seq, harness_line=out)
            if pr is None:
                ctx.violation("crash", "LocalSurfaceInserter harness request failed: %s" % out, rep)
                continue
            ids, sizes = pr
            ctx.case(("lsi", seq[0][0], tol, len(seq), tuple(ids)), nontrivial=any(i != k for k, i in enumerate(ids)))
            ctx.count("lsi:%s" % seq[0][0])
            # reconstruct the stored vector and check the property: the returned surface is linked to
            # the inserted one by a chain of stored surfaces that are pairwise (grossly) close
            stored, prev = [], 0
            bad = None
            for k, (s, i, sz) in enumerate(zip(seq, ids, sizes)):
                if sz == prev + 1:
                    stored.append(s)
                elif sz != prev:
                    bad = "stored-surface count jumped from %d to %d at call %d" % (prev, sz, k)
                    break
                if sz == prev or i != len(stored) - 1:
                    nmerge += 1
                prev = sz
                if not (0 <= i < len(stored)):
                    bad = "call %d returned id %d but only %d surfaces are stored" % (k, i, len(stored))
                    break
                if stored[i][0] != s[0] or (isinstance(s[1], int) and stored[i][1] != s[1]):
                    bad = "call %d: surface %s replaced by one of another class %s" % (k, s, stored[i])
                    break
                # chain search over stored surfaces
                seen, todo = set(), [s]
                found = False
                while todo and not found:
                    c = todo.pop()
                    for j, t in enumerate(stored):
                        if j in seen or t[0] != s[0]:
                            continue
                        if gross_close(tol, c, t):
                            if j == i:
                                found = True
                                break
                            seen.add(j)
                            todo.append(t)
                if not found:
                    bad = "call %d: returned surface %s is not chain-linked (within tolerance) to the inserted %s" % (k, stored[i], s)
                    break
            if bad:
                ctx.violation("dedup-changes-surface", "LocalSurfaceInserter: " + bad, rep)
                continue
            if m is None or int(m) != sizes[-1]:
                ctx.violation("correspondence", "LocalSurfaceInserter returned ids %s (sizes %s); the model %s" % (
                    ids, sizes, "does not allow them" if m is None else "stores %s surfaces" % m),
                    dict(rep, ids=ids, sizes=sizes, model=m), no_input=True)
        ctx.log("lsi: %d sequences, %d merged calls" % (len(cases), nmerge))
    return exprs, judge


# ------------------------------------------------------------------ grid hash
def run_gridhash(ctx, r, exe_run, n):
    ctx = Limited(ctx, "gridhash")
    cases = []
    for k in range(n):
        rel = r.choice([1.5e-8, 1e-6, 1e-5])
        gw = 0.01 * r.choice([1.0, 10.0, 0.1])
        eps = 2 * rel
        kbin = r.choice([0, 0, 1, -1, 7, 1000, -250, 654321])
        h1 = (kbin - 0.5) * gw + r.choice([-10, -3, -1.25, -0.8, -0.3, 0.0, 0.3, 0.8, 1.25, 3, 10]) * eps
        if r.random() < 0.2:
            h1 = r.choice([-1, 1]) * mag(r)
        h2 = h1 + r.choice([0, 0.5, -0.5, 0.99, -0.99, 1.5, -1.5, 10, -10, 1e5]) * eps
        cases.append((gw, eps, h1, h2))
    lines = ["gh %s %s %s %s" % tuple(hx(v) for v in c) for c in cases]
    outs = exe_run(lines)
    exprs = ["run_gh %s %s %s %s" % tuple(hexf(v) for v in c) for c in cases]
    def judge(mv):
        for c, out, m in zip(cases, outs, mv):
            gw, eps, h1, h2 = c
            rep = dict(kind="SurfaceGridHash", grid_scale=gw, tol=eps, h1=h1, h2=h2, harness_line=out)
            tok = out.split()
            if tok[0] != "gh" or len(tok) != 4:
                ctx.violation("crash", "SurfaceGridHash harness request failed: %s" % out, rep)
                continue
            got = (int(tok[1]), int(tok[2]), tok[3] == "1")
            mod = (int(m[0]), int(m[1]), bool(m[2]))
            ctx.case(("gh",) + c, nontrivial=got[0] == 2 or got[1] == 2)
            ctx.count("gh:%d%d%s" % got)
            if abs(h1 - h2) <= eps * (1 - 1e-9) and not got[2]:
                ctx.violation("gridhash-missed-bin", "SurfaceGridHash: hash points %r and %r are within tol %r of each other but "
                              "share no key" % (h1, h2, eps), rep)
            elif got != mod:
                ctx.violation("correspondence", "SurfaceGridHash keys: library %s, model %s" % (got, mod), dict(rep, model=list(mod)),
                              no_input=True)
    return exprs, judge


# ------------------------------------------------------------------ entry
def start(ctx, extra_src=(), incs=()):
    """generate, run the library side, and start the model evaluation (a thread that only waits for coqc
    processes); returns a handle for finish().  All random choices come from one generator seeded from ctx.rng."""
    import random
    import threading
    quick = ctx.tier == "quick"
    r = random.Random(ctx.rng.getrandbits(64))
    h = dict(parts=[], mv=None, err=None, thread=None)
    ok, log = ctx.coq_build(["C09/Run2.vo", "C09/Run3.vo"])
    if not ok:
        ctx.violation("model-broken", "the executable model coq/C09 (BZone.v / Dedup.v / Run2.v) no longer compiles",
                      {"log_tail": log[-2000:]}, no_input=True)
        return h
    exe = ctx.compile_harness([os.path.join(HERE, "harness", "zones_dedup.cc")] + list(extra_src), "zones_dedup",
                              libs=["orange", "geocel", "corecel"], extra=incs if extra_src else ())

    def exe_run(lines):
        rc, out = ctx.run_harness(exe, input="\n".join(lines) + "\n", timeout=600)
        res = [ln for ln in out.splitlines() if ln.strip()]
        if not res or res[-1] != "done" or len(res) - 1 != len(lines):
            res = res[:-1] if res and res[-1] == "done" else res
            res = res + ["error harness died (rc=%d) on this request" % rc] + ["error not run"] * len(lines)
            return res[:len(lines)]
        return res[:-1]

    k = 1 if quick else 8
    h["parts"] = [run_zones(ctx, r, exe_run, 300 * k), run_boxtf(ctx, r, exe_run, 100 * k), run_sse(ctx, r, exe_run, 450 * k),
                  run_lsi(ctx, r, exe_run, 120 * k), run_gridhash(ctx, r, exe_run, 200 * k)]
    exprs = [e for ex, _ in h["parts"] for e in ex]

    def work():
        try:
            # one batch for all sections: the fixed cost of a coqc process (loading the libraries) dominates
            h["mv"] = ctx.coq_eval("tie2", PRE2, exprs, chunk=len(exprs) // (3 if quick else 12) + 1, timeout=1500)
        except Exception as ex:        # noqa: reported by finish()
            h["err"] = ex
    h["thread"] = threading.Thread(target=work)
    h["thread"].start()
    return h


def finish(ctx, h):
    if h["thread"] is None:
        return
    h["thread"].join()
    if h["err"] is not None:
        raise h["err"]
    pos = 0
    for ex, judge in h["parts"]:
        judge(h["mv"][pos:pos + len(ex)])
        pos += len(ex)
    ctx.trusted += [
        "hand-written models coq/C09/BZone.v (BoundingBox / BoundingBoxUtils / BoundingZone) and coq/C09/Dedup.v "
        "(SoftSurfaceEqual, SurfaceHashPoint, SurfaceGridHash, LocalSurfaceInserter), tied by the exact differential of "
        "props/C09/tie2.py; not modelled: std::hash scrambling of grid bins (collisions only add candidates), Involute",
    ]
    ctx.coverage["bzone"] = ("calc_intersection / calc_union of random zones on a coordinate lattice incl. null, non-canonical "
                             "null, semi-infinite and infinite boxes, all four negation combinations; soundness oracle on 135 "
                             "sample points")
    ctx.coverage["dedup"] = ("SoftSurfaceEqual on all 9 modelled surface classes with data perturbed by 0 / 0.3 / 0.8 / 1.25 / 3 x "
                             "threshold at magnitudes 0 .. 2000 and 5 tolerances; inserter sequences with chains, exact duplicates "
                             "of merged surfaces, bin-boundary neighbours; grid-hash key structure")


def run_tie2(ctx, extra_src=(), incs=()):
    finish(ctx, start(ctx, extra_src, incs))
