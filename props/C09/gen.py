"""C09 generator: random object trees / nested units, with emitters for the
C++ harness (text) and for the Coq model (Gallina terms)."""
import math
from vlib import hexf

# ---------------------------------------------------------------------------
# small linear algebra (only used to PLACE probe points, never as an oracle)

def matmul(a, b):
    return [[sum(a[i][k] * b[k][j] for k in range(3)) for j in range(3)] for i in range(3)]


def matvec(a, v):
    return [sum(a[i][k] * v[k] for k in range(3)) for i in range(3)]


IDM = [[1.0, 0.0, 0.0], [0.0, 1.0, 0.0], [0.0, 0.0, 1.0]]


def rot_axis(ax, turn):
    q = round(turn * 4)
    if abs(turn * 4 - q) < 1e-15:       # exact quarter turns
        c, s = [(1.0, 0.0), (0.0, 1.0), (-1.0, 0.0), (0.0, -1.0)][q % 4]
    else:
        c, s = math.cos(2 * math.pi * turn), math.sin(2 * math.pi * turn)
    if ax == 0:
        return [[1.0, 0.0, 0.0], [0.0, c, -s], [0.0, s, c]]
    if ax == 1:
        return [[c, 0.0, s], [0.0, 1.0, 0.0], [-s, 0.0, c]]
    return [[c, -s, 0.0], [s, c, 0.0], [0.0, 0.0, 1.0]]


def tf_apply(tr, p):
    """daughter-to-parent"""
    if tr is None:
        return list(p)
    m, t = tr[0], tr[1]
    q = matvec(m, p)
    return [q[i] + t[i] for i in range(3)]


def tf_inv_apply(tr, p):
    """parent-to-daughter"""
    if tr is None:
        return list(p)
    m, t = tr[0], tr[1]
    q = [p[i] - t[i] for i in range(3)]
    return [sum(m[k][i] * q[k] for k in range(3)) for i in range(3)]


def tf_compose(a, b):
    """x -> a(b(x))"""
    if a is None:
        return b
    if b is None:
        return a
    return (matmul(a[0], b[0]), tf_apply(a, b[1]), "tf")


def rand_tf(r, spread, kind=None):
    """random transform: translation / rotation+translation / reflection"""
    kind = kind or r.choice(["tl", "tl", "rot", "rot", "rotq", "refl"])
    t = [r.uniform(-spread, spread) for _ in range(3)]
    if r.random() < 0.15:
        t[r.randrange(3)] = 0.0
    if kind == "tl":
        return (IDM, t, "tl")
    if kind == "rotq":
        m = IDM
        for _ in range(r.choice([1, 2])):
            m = matmul(rot_axis(r.randrange(3), r.choice([0.25, 0.5, 0.75])), m)
        return (m, t, "tf")
    m = IDM
    for _ in range(r.choice([1, 2, 3])):
        m = matmul(rot_axis(r.randrange(3), r.choice([r.random(), r.random(), 0.125, 1.0 / 12])), m)
    if kind == "refl":
        d = r.choice([[-1, 1, 1], [1, -1, 1], [1, 1, -1], [-1, -1, -1]])
        m = matmul(m, [[float(d[0]), 0.0, 0.0], [0.0, float(d[1]), 0.0], [0.0, 0.0, float(d[2])]])
    return (m, t, "tf")


# ---------------------------------------------------------------------------
# primitives: dict(k=kind, p=params..., rad=bounding radius about local origin)

def _u(r, lo, hi):
    return r.uniform(lo, hi)


def gen_prim(r, s=1.0, kinds=None):
    k = r.choice(kinds or ["box", "sphere", "cyl", "cone", "ellipsoid", "prism", "ppiped",
                           "trd", "trap", "genprism", "genprism", "box", "cyl", "cone"])
    if k == "box":
        h = [_u(r, 0.4, 2.0) * s for _ in range(3)]
        return dict(k=k, p=h, rad=math.sqrt(sum(x * x for x in h)), bb=h)
    if k == "sphere":
        a = _u(r, 0.5, 2.0) * s
        return dict(k=k, p=[a], rad=a, bb=[a, a, a])
    if k == "cyl":
        a, h = _u(r, 0.4, 2.0) * s, _u(r, 0.4, 2.0) * s
        return dict(k=k, p=[a, h], rad=math.hypot(a, h), bb=[a, a, h])
    if k == "cone":
        lo, hi, h = _u(r, 0.3, 2.0) * s, _u(r, 0.3, 2.0) * s, _u(r, 0.4, 2.0) * s
        c = r.random()
        if c < 0.15:
            lo = 0.0
        elif c < 0.3:
            hi = 0.0
        elif c < 0.38:
            hi = lo * (1 + r.choice([1e-11, -1e-11, 1e-9]))   # soft-equal: built as a cylinder
        elif c < 0.45:
            hi = lo * (1 + r.choice([1e-3, -1e-3]))
        m = max(lo, hi)
        return dict(k=k, p=[lo, hi, h], rad=math.hypot(m, h), bb=[m, m, h])
    if k == "ellipsoid":
        a = [_u(r, 0.4, 2.0) * s for _ in range(3)]
        if r.random() < 0.2:
            a = [a[0]] * 3
        elif r.random() < 0.2:
            a[1] = a[0]
        return dict(k=k, p=a, rad=max(a), bb=a)
    if k == "prism":
        n = r.choice([3, 4, 5, 6, 6, 7, 8, 12])
        a, h = _u(r, 0.4, 2.0) * s, _u(r, 0.4, 2.0) * s
        o = r.choice([0.0, 0.5, 0.25, r.random(), r.random()])
        if o >= 1.0:
            o = 0.0
        cr = a / math.cos(math.pi / n)
        return dict(k=k, n=n, p=[a, h, o], rad=math.hypot(cr, h), bb=[cr, cr, h])
    if k == "ppiped":
        h = [_u(r, 0.4, 2.0) * s for _ in range(3)]
        al = r.choice([0.0, 0.0, r.uniform(-0.15, 0.15), r.uniform(-0.2, 0.2)])
        th = r.choice([0.0, 0.0, r.uniform(0, 0.12), r.uniform(0, 0.2)])
        ph = r.choice([0.0, 0.0, 0.25, r.random(), r.random()])
        if ph >= 1.0:
            ph = 0.0
        ex = h[0] + h[1] * abs(math.tan(2 * math.pi * al)) + h[2] * math.tan(2 * math.pi * th)
        ey = h[1] + h[2] * math.tan(2 * math.pi * th)
        return dict(k=k, p=h + [al, th, ph], rad=math.sqrt(ex * ex + ey * ey + h[2] ** 2), bb=[ex, ey, h[2]])
    if k == "wedge":
        st = r.choice([0.0, 0.25, r.random(), r.random()])
        if st >= 1.0:
            st = 0.0
        it = r.choice([0.5, 0.25, r.uniform(0.02, 0.5), r.uniform(0.02, 0.5)])
        return dict(k=k, p=[st, it], rad=float("inf"), bb=None)
    if k == "trd":
        hz = _u(r, 0.4, 2.0) * s
        v = [_u(r, 0.3, 1.8) * s for _ in range(4)]
        if r.random() < 0.2:
            v[2], v[3] = v[0], v[1]
        m = max(v)
        return dict(k=k, p=[hz] + v, rad=math.sqrt(2 * m * m + hz * hz), bb=[max(v[0], v[2]), max(v[1], v[3]), hz])
    if k == "trap":
        hz = _u(r, 0.4, 2.0) * s
        th = r.choice([0.0, r.uniform(0, 0.1), r.uniform(0, 0.15)])
        ph = r.choice([0.0, r.random()])
        if ph >= 1.0:
            ph = 0.0
        faces = []
        ext = 0.0
        al = r.choice([0.0, r.uniform(-0.1, 0.1)])
        for i in range(2):
            hy = _u(r, 0.3, 1.5) * s
            hxlo = _u(r, 0.3, 1.5) * s
            hxhi = hxlo * r.choice([1.0, r.uniform(0.6, 1.4)])
            a_i = al if r.random() < 0.7 else r.choice([0.0, r.uniform(-0.1, 0.1)])
            faces.append([hy, hxlo, hxhi, a_i])
            ext = max(ext, hy, max(hxlo, hxhi) + hy * abs(math.tan(2 * math.pi * a_i)))
        if r.random() < 0.5:      # planar side faces: same shape ratios top and bottom
            f0 = faces[0]
            sc = r.uniform(0.6, 1.5)
            faces[1] = [f0[0] * sc, f0[1] * sc, f0[2] * sc, f0[3]]
            ext = max(ext, ext * sc)
        off = hz * math.tan(2 * math.pi * th)
        e = ext + off
        return dict(k=k, p=[hz, th, ph], faces=faces, rad=math.sqrt(2 * e * e + hz * hz), bb=[e, e, hz])
    if k == "genprism":
        hz = _u(r, 0.4, 2.0) * s
        n = r.choice([3, 4, 4, 5, 6])
        rad0 = _u(r, 0.6, 1.8) * s
        # convex polygon: points on a circle at sorted angles
        while True:
            ang = sorted(r.uniform(0, 1) for _ in range(n))
            gaps = [(ang[(i + 1) % n] - ang[i]) % 1.0 for i in range(n)]
            if min(gaps) > 0.08 and max(gaps) < 0.45:
                break
        lo = [[rad0 * math.cos(2 * math.pi * a), rad0 * math.sin(2 * math.pi * a)] for a in ang]
        mode = r.choice(["same", "scaled", "shift", "twist", "twist", "lin"])
        if mode == "same":
            hi = [list(p) for p in lo]
        elif mode == "scaled":
            f = r.uniform(0.5, 1.5)
            hi = [[f * p[0], f * p[1]] for p in lo]
        elif mode == "shift":
            f = r.uniform(0.6, 1.3)
            dx, dy = r.uniform(-0.5, 0.5) * s, r.uniform(-0.5, 0.5) * s
            hi = [[f * p[0] + dx, f * p[1] + dy] for p in lo]
        elif mode == "twist":
            tw = r.uniform(-0.1, 0.1)
            f = r.uniform(0.7, 1.3)
            c, sn = math.cos(2 * math.pi * tw), math.sin(2 * math.pi * tw)
            hi = [[f * (c * p[0] - sn * p[1]), f * (sn * p[0] + c * p[1])] for p in lo]
        else:   # general linear map close to identity (keeps convexity and orientation)
            a = [[1 + r.uniform(-0.3, 0.3), r.uniform(-0.3, 0.3)], [r.uniform(-0.3, 0.3), 1 + r.uniform(-0.3, 0.3)]]
            hi = [[a[0][0] * p[0] + a[0][1] * p[1], a[1][0] * p[0] + a[1][1] * p[1]] for p in lo]
        # degenerate -z or +z face (as G4GenericTrap allows): collapsed to a point (pyramid,
        # tetrahedron) or, for quadrilaterals / triangles, to a line (wedge / tent)
        c = r.random()
        if c < 0.34:
            which = r.choice(["lo", "hi"])
            src = hi if which == "lo" else lo      # the face that stays a proper polygon
            f = r.uniform(0.0, 0.6)
            if n in (3, 4) and r.random() < 0.5:
                mid = lambda a, b: [0.5 * f * (a[0] + b[0]), 0.5 * f * (a[1] + b[1])]
                if n == 4:
                    P, Q = mid(src[0], src[1]), mid(src[2], src[3])
                    col = [P, list(P), Q, list(Q)]
                else:
                    P, Q = mid(src[0], src[1]), [f * src[2][0], f * src[2][1]]
                    col = [P, list(P), Q]
            else:
                cx = r.uniform(-0.3, 0.3) * s
                cy = r.uniform(-0.3, 0.3) * s
                if r.random() < 0.3:
                    cx = cy = 0.0
                col = [[cx, cy] for _ in range(n)]
            if which == "lo":
                lo = col
            else:
                hi = col
        if r.random() < 0.4:      # clockwise input (the G4GenericTrap convention): the constructor reverses it
            lo = lo[::-1]
            hi = hi[::-1]
        e = max(max(abs(c_) for p in lo + hi for c_ in p), 1e-3)
        return dict(k=k, p=[hz], lo=lo, hi=hi, rad=math.sqrt(2 * e * e + hz * hz), bb=[e, e, hz])
    raise ValueError(k)


def prim_text(p):
    k = p["k"]
    f = lambda xs: " ".join(float(x).hex() for x in xs)
    if k == "prism":
        return "prism %d %s" % (p["n"], f(p["p"]))
    if k == "trap":
        return "trap %s %s %s" % (f(p["p"]), f(p["faces"][0]), f(p["faces"][1]))
    if k == "genprism":
        return "genprism %s %d %s %s" % (f(p["p"]), len(p["lo"]), f([c for q in p["lo"] for c in q]),
                                         f([c for q in p["hi"] for c in q]))
    return "%s %s" % (k, f(p["p"]))


def prim_coq(p):
    k = p["k"]
    f = lambda xs: " ".join(hexf(float(x)) for x in xs)
    pts = lambda l: "[" + "; ".join("(%s, %s)" % (hexf(q[0]), hexf(q[1])) for q in l) + "]"
    if k == "box":
        return "(PBox %s)" % f(p["p"])
    if k == "sphere":
        return "(PSphere %s)" % f(p["p"])
    if k == "cyl":
        return "(PCyl %s)" % f(p["p"])
    if k == "cone":
        return "(PCone %s)" % f(p["p"])
    if k == "ellipsoid":
        return "(PEllipsoid %s)" % f(p["p"])
    if k == "prism":
        return "(PPrism %d%%nat %s)" % (p["n"], f(p["p"]))
    if k == "ppiped":
        return "(PPpiped %s)" % f(p["p"])
    if k == "wedge":
        return "(PWedge %s)" % f(p["p"])
    if k == "trd":
        return "(from_trd %s)" % f(p["p"])
    if k == "trap":
        t4 = lambda a: "(%s, %s, %s, %s)" % tuple(hexf(float(x)) for x in a)
        return "(from_trap %s %s %s)" % (f(p["p"]), t4(p["faces"][0]), t4(p["faces"][1]))
    if k == "genprism":
        return "(mk_genprism %s %s %s)" % (f(p["p"]), pts(p["lo"]), pts(p["hi"]))
    raise ValueError(k)


# ---------------------------------------------------------------------------
# objects (tuples); every object carries no state: helper functions compute
# text, Coq term, and a list of (primitive, placement transform) for probes

def tf_text(tr):
    if tr is None:
        return "none"
    m, t, kind = tr
    f = lambda xs: " ".join(float(x).hex() for x in xs)
    if kind == "tl":
        return "tl " + f(t)
    return "tf %s %s" % (f([m[i][j] for i in range(3) for j in range(3)]), f(t))


def tf_coq(tr):
    m, t, kind = tr
    v = lambda a: "(V3 %s %s %s)" % tuple(hexf(float(x)) for x in a)
    if kind == "tl":
        return "(TF mat3_id %s)" % v(t)
    return "(TF (M3 %s %s %s) %s)" % (v(m[0]), v(m[1]), v(m[2]), v(t))


def ang_text(a):
    return "0" if a is None else "1 %s %s" % (float(a[0]).hex(), float(a[1]).hex())


def ang_coq(a):
    return "None" if a is None else "(Some (%s, %s))" % (hexf(a[0]), hexf(a[1]))


def fl_coq(xs):
    return "[" + "; ".join(hexf(float(x)) for x in xs) + "]"


def obj_text(o, env):
    k = o[0]
    if k == "prim":
        return prim_text(o[1])
    if k == "solid":
        _, pi, pe, a = o
        return "solid %s %s %s" % (prim_text(pi), "0" if pe is None else "1 " + prim_text(pe), ang_text(a))
    if k in ("polycone", "polyprism"):
        if k == "polycone":
            _, zs, ro, ri, a, orsolid = o
            head = "polycone"
        else:
            _, n, orient, zs, ro, ri, a, orsolid = o
            head = "polyprism %d %s" % (n, float(orient).hex())
        f = lambda xs: " ".join(float(x).hex() for x in xs)
        return "%s %d %s %s %s %s %d" % (head, len(zs), f(zs), f(ro), "0" if ri is None else "1 " + f(ri),
                                         ang_text(a), 1 if orsolid else 0)
    if k == "trans":
        return "trans %s %s" % (tf_text(o[1]), obj_text(o[2], env))
    if k == "neg":
        return "neg " + obj_text(o[1], env)
    if k in ("all", "any"):
        return "%s %d %s" % (k, len(o[1]), " ".join(obj_text(x, env) for x in o[1]))
    if k == "sub":
        return "sub %s %s" % (obj_text(o[1], env), obj_text(o[2], env))
    if k == "def":
        return "def %s %s" % (o[1], obj_text(o[2], env))
    if k == "ref":
        return "ref " + o[1]
    if k == "dint":
        return "dint %d" % o[1]
    if k == "bound":
        return "bound"
    raise ValueError(k)


def resolve(o, env):
    """expand def/ref/dint/bound into plain objects (for the Coq term)"""
    k = o[0]
    if k in ("prim", "solid", "polycone", "polyprism"):
        return o
    if k == "trans":
        return ("trans", o[1], resolve(o[2], env))
    if k == "neg":
        return ("neg", resolve(o[1], env))
    if k in ("all", "any"):
        return (k, [resolve(x, env) for x in o[1]])
    if k == "sub":
        return ("all", [resolve(o[1], env), ("neg", resolve(o[2], env))])
    if k == "def":
        env["defs"][o[1]] = resolve(o[2], env)
        return env["defs"][o[1]]
    if k == "ref":
        return env["defs"][o[1]]
    if k == "dint":
        du, tr = env["daughters"][o[1]]
        b = du["boundary_resolved"]
        return b if tr is None else ("trans", tr, b)
    if k == "bound":
        return env["boundary"]
    raise ValueError(k)


def obj_coq(o):
    """o must be resolved"""
    k = o[0]
    if k == "prim":
        return "(Shape %s)" % prim_coq(o[1])
    if k == "solid":
        _, pi, pe, a = o
        return "(Solid %s %s %s)" % (prim_coq(pi), "None" if pe is None else "(Some %s)" % prim_coq(pe), ang_coq(a))
    if k == "polycone":
        _, zs, ro, ri, a, _ = o
        return "(PolyCone %s %s %s %s)" % (fl_coq(zs), fl_coq(ro), "None" if ri is None else "(Some %s)" % fl_coq(ri), ang_coq(a))
    if k == "polyprism":
        _, n, orient, zs, ro, ri, a, _ = o
        return "(PolyPrism %d%%nat %s %s %s %s %s)" % (n, hexf(orient), fl_coq(zs), fl_coq(ro),
                                                     "None" if ri is None else "(Some %s)" % fl_coq(ri), ang_coq(a))
    if k == "trans":
        return "(Transformed %s %s)" % (obj_coq(o[2]), tf_coq(o[1]))
    if k == "neg":
        return "(Neg %s)" % obj_coq(o[1])
    if k in ("all", "any"):
        return "(%s [%s])" % ("All" if k == "all" else "Any", "; ".join(obj_coq(x) for x in o[1]))
    raise ValueError(k)


def placements(o, tr=None, out=None):
    """(local bounding half-widths, placement) of every primitive of a resolved object"""
    if out is None:
        out = []
    k = o[0]
    if k == "prim":
        if o[1].get("bb"):
            out.append((o[1]["bb"], tr, o[1]))
    elif k == "solid":
        if o[1].get("bb"):
            out.append((o[1]["bb"], tr, o[1]))
    elif k in ("polycone", "polyprism"):
        zs = o[1] if k == "polycone" else o[3]
        ro = o[2] if k == "polycone" else o[4]
        m = max(ro) * (1.0 if k == "polycone" else 1.5)
        zc = 0.5 * (zs[0] + zs[-1])
        out.append(([m, m, 0.5 * (zs[-1] - zs[0])], tf_compose(tr, (IDM, [0.0, 0.0, zc], "tl")), None))
    elif k == "trans":
        placements(o[2], tf_compose(tr, o[1]), out)
    elif k == "neg":
        placements(o[1], tr, out)
    elif k in ("all", "any"):
        for x in o[1]:
            placements(x, tr, out)
    return out


# ---------------------------------------------------------------------------
# random objects

def gen_angle(r):
    st = r.choice([0.0, 0.25, -0.125, r.uniform(-1, 1), r.uniform(0, 1)])
    it = r.choice([0.25, 0.5, 0.75, r.uniform(0.03, 0.97), r.uniform(0.03, 0.97)])
    return [st, it]


def gen_solid(r, s):
    kind = r.choice(["cone", "cyl", "prism", "sphere"])
    pi = gen_prim(r, s, [kind])
    pe = None
    if r.random() < 0.7:
        pe = dict(pi)
        f = r.uniform(0.3, 0.85)
        if kind == "sphere":
            pe["p"] = [pi["p"][0] * f]
        elif kind == "cyl":
            pe["p"] = [pi["p"][0] * f, pi["p"][1] * r.choice([1.0, 1.0, r.uniform(0.4, 1.0)])]
        elif kind == "cone":
            pe["p"] = [pi["p"][0] * f, pi["p"][1] * r.choice([f, r.uniform(0.3, 0.9)]), pi["p"][2]]
            if pe["p"][0] == 0 and pe["p"][1] == 0:
                pe = None
        else:
            pe["p"] = [pi["p"][0] * f, pi["p"][1] * r.choice([1.0, r.uniform(0.4, 1.0)]), pi["p"][2]]
    a = gen_angle(r) if (pe is None or r.random() < 0.5) else None
    return ("solid", pi, pe, a)


def gen_poly(r, s):
    nseg = r.choice([1, 2, 2, 3, 4])
    zs = [r.uniform(-2, 0) * s]
    for _ in range(nseg):
        zs.append(zs[-1] + r.choice([r.uniform(0.3, 1.5) * s, r.uniform(0.3, 1.5) * s, 0.0]))
    if zs[-1] - zs[0] < 0.2 * s:
        zs[-1] = zs[0] + 1.0 * s
    if zs[1] == zs[0]:
        zs[1] = zs[0] + 0.5 * (zs[-1] - zs[0]) if nseg > 1 else zs[-1]
        zs = sorted(zs)
    prismatic = r.random() < 0.35
    if prismatic:
        # PolyPrism segments need equal lo/hi radii: steps at zero-height segments only
        ro = []
        cur = r.uniform(0.5, 1.8) * s
        for i, z in enumerate(zs):
            if i > 0 and zs[i] == zs[i - 1]:
                cur = r.uniform(0.5, 1.8) * s
            ro.append(cur)
        ri = [x * 0.5 for x in ro] if r.random() < 0.4 else None
    else:
        ro = [r.uniform(0.4, 1.8) * s for _ in zs]
        for i in range(1, len(ro)):
            if r.random() < 0.3:
                ro[i] = ro[i - 1]
        ri = None
        if r.random() < 0.4:
            ri = [x * r.uniform(0.2, 0.8) for x in ro]
    a = gen_angle(r) if r.random() < 0.4 else None
    orsolid = r.random() < 0.5
    if prismatic:
        n = r.choice([3, 4, 6, 8])
        orient = r.choice([0.0, 0.5, r.random()])
        return ("polyprism", n, orient if orient < 1 else 0.0, zs, ro, ri, a, orsolid)
    return ("polycone", zs, ro, ri, a, orsolid)


def gen_leaf(r, s):
    c = r.random()
    if c < 0.62:
        return ("prim", gen_prim(r, s))
    if c < 0.82:
        return gen_solid(r, s)
    return gen_poly(r, s)


def gen_obj(r, depth, s, spread):
    """random bounded object near the origin (extent about 2 s + spread)"""
    if depth <= 0 or r.random() < 0.3:
        o = gen_leaf(r, s)
        if r.random() < 0.75:
            o = ("trans", rand_tf(r, spread), o)
        return o
    c = r.choice(["trans", "all", "any", "sub", "allneg", "wedgecut"])
    if c == "trans":
        return ("trans", rand_tf(r, spread), gen_obj(r, depth - 1, s, spread * 0.5))
    if c == "all":
        return ("all", [gen_obj(r, depth - 1, s * 1.3, spread * 0.4) for _ in range(r.choice([2, 2, 3]))])
    if c == "any":
        return ("any", [gen_obj(r, depth - 1, s, spread) for _ in range(r.choice([2, 2, 3]))])
    if c == "sub":
        return ("sub", gen_obj(r, depth - 1, s * 1.3, spread * 0.4), gen_obj(r, depth - 1, s * 0.8, spread * 0.5))
    if c == "allneg":
        return ("all", [gen_obj(r, depth - 1, s * 1.3, spread * 0.4),
                        ("neg", gen_obj(r, depth - 1, s * 0.7, spread * 0.5)),
                        ("neg", gen_obj(r, depth - 1, s * 0.7, spread * 0.5))])
    # a primitive cut by an InfWedge shape
    w = ("prim", gen_prim(r, s, ["wedge"]))
    if r.random() < 0.5:
        w = ("trans", rand_tf(r, 0.3 * s, r.choice(["tl", "rotq", "rot"])), w)
    return ("all", [gen_obj(r, depth - 1, s * 1.2, spread * 0.3), w])


# ---------------------------------------------------------------------------
# general-quadric coefficients under a daughter-to-parent transform x -> R x + t
# (a b c | d(xy) e(yz) f(zx) | g h i | j):  f'(x) = f(R^T (x - t))

def gq_transform(c, tr):
    if tr is None:
        return list(c)
    R, t = tr[0], tr[1]
    Q = [[c[0], c[3] / 2, c[5] / 2], [c[3] / 2, c[1], c[4] / 2], [c[5] / 2, c[4] / 2, c[2]]]
    g = [c[6], c[7], c[8]]
    RQ = matmul(R, Q)
    Rt = [[R[j][i] for j in range(3)] for i in range(3)]
    Q2 = matmul(RQ, Rt)
    g0 = matvec(R, g)
    Qt = matvec(Q2, t)
    g2 = [g0[i] - 2 * Qt[i] for i in range(3)]
    j2 = sum(t[i] * Qt[i] for i in range(3)) - sum(g0[i] * t[i] for i in range(3)) + c[9]
    return [Q2[0][0], Q2[1][1], Q2[2][2], 2 * Q2[0][1], 2 * Q2[1][2], 2 * Q2[0][2], g2[0], g2[1], g2[2], j2]
