"""C01 — transport conserves energy: Coq proofs (Properties_C01.v) + unit
differential of the float model against the real executors (harness/unit.cc) +
energy-ledger monitor on real Stepper runs (harness/loop.cc)."""
import os, sys
import vlib

HERE = os.path.dirname(os.path.abspath(__file__))
sys.path.insert(0, HERE)
import monitor as M
import unitdiff as U


def run(ctx):
    ctx.trusted += [
        "hand-written model coq/C01/LedgerModel.v tied by (a) unit differential against the real ElossApplier/MeanELoss/InteractionApplier/TrackingCutExecutor (props/C01/unitdiff.py, harness/unit.cc) and (b) the ledger monitor on real Stepper runs (props/C01/monitor.py, harness/loop.cc)",
        "the repo's own test fixtures SimpleTestBase/MockTestBase (libtestcel_celeritas) as problem definitions",
        "gap R vs binary64 rounding (DESIGN.md 3.1): the monitor allows 64*eps*sum|terms|",
    ]
    ctx.assumptions += [
        "every interaction conserves energy in the weight convention (interaction_conserves; C04 proves it per model) and hands over only valid secondaries",
        "an antiparticle that can be stopped by continuous loss has an at-rest process (else ElossApplier kills it without returning 2mc^2): hypothesis tevent_ok of the history theorems",
        "fluctuating-loss/MSC variants are modelled (fluct_eloss_cut) but not run in a cascade: no Urban data in this build",
    ]
    proofs_ok = ctx.coq_prove("Properties_C01.v")
    ok, _ = ctx.coq_build(["C01/Run.vo"])
    if not ok:
        ctx.violation("model-broken", "the executable model coq/C01 no longer compiles", getattr(ctx, "broken_proof", {}), no_input=True)
        return
    ctx.build_libs(M.LIBS)

    found_input = False
    # (a) unit differential
    found_input |= U.unit_differential(ctx)

    # (b) ledger monitor on real stepping loops
    exe = ctx.compile_harness([os.path.join(HERE, "harness", "loop.cc")], "loop", libs=M.LIBS, test_includes=True)
    specs = M.gen_specs(ctx.rng, ctx.tier) + M.gen_specs_extra(ctx.rng, ctx.tier) + M.gen_specs_sweep(ctx.rng, ctx.tier) + M.gen_specs_msc(ctx.rng, ctx.tier)
    rc, out = M.execute(ctx, exe, specs)
    runs = M.parse_runs(out, specs)
    if rc != 0 or len(runs) != len(specs) or any(r.end is None for r in runs):
        raise vlib.BuildError("loop harness failed rc=%d (%d/%d runs)" % (rc, len(runs), len(specs)), out[-3000:])
    tot = dict(events=0, tracks=0, complete_events=0, records=0, exc=0, antiparticle_kills=0, antiparticle_range_kills=0)
    nviol = 0
    for run_ in runs:
        s = run_.spec
        ctx.count("problem:%s/cut%d" % (s["problem"], s["cutmode"]))
        ctx.count("track_order:" + M.TRACK_ORDERS[s.get("track_order", 0)])
        ctx.count("slots:%d" % s["slots"])
        for _o in ("disable_integral_xs", "linear_loss_limit", "lowest", "min_range", "msc_emin", "msc_xs"):
            if s.get(_o):
                ctx.count("option:" + _o)
        ctx.count("capacity:%s" % ("ample" if s["capacity"] >= 4096 else "tight"))
        if run_.exc:
            tot["exc"] += 1
            ctx.count("run-threw:" + ("capacity" if "capacity" in run_.exc else "other"))
            if "capacity" not in run_.exc:
                ctx.notes.append("stepper threw: " + run_.exc[:300])
        viol, st = M.ledger_check(run_)
        for k in ("events", "tracks", "complete_events", "antiparticle_kills", "antiparticle_range_kills"):
            tot[k] += st[k]
        tot["records"] += len(run_.recs)
        key = (s["problem"], s["cutmode"], s["seed"], s["slots"], s["capacity"], s.get("track_order", 0), s.get("fixed_limit", 0))
        ctx.case(key, nontrivial=st["complete_events"] > 0 and len(run_.recs) > 0)
        ctx.sample(dict(problem=s["problem"], cutmode=s["cutmode"], slots=s["slots"], capacity=s["capacity"],
                        primaries=len(s["prims"]), records=len(run_.recs), deposit=st["deposit"],
                        escaped=st["escaped"], live=st["live"], threw=run_.exc))
        for kind, what, detail in viol[:2]:
            nviol += 1
            found_input = True
            if nviol <= 4:
                ctx.violation(kind, "%s [%s cut=%d slots=%d cap=%d track_order=%s]" % (what, s["problem"], s["cutmode"], s["slots"], s["capacity"], M.TRACK_ORDERS[s.get("track_order", 0)]),
                              dict(spec=dict(s), harness_input=M.spec_line(s), detail=detail))
    ctx.log("ledger monitor: %r" % tot)
    ctx.coverage["ledger_monitor"] = tot
    ctx.coverage["rule"] = ("unit cases = (executor, generated slot state and inputs) from VERIF_SEED; loop cases = (problem, cut mode, RNG seed, "
                            "slots, initializer capacity, primaries); a loop case is non-trivial when at least one event ran to completion and produced records")
    ctx.coverage["traces_validated_against_impl"] = tot["records"]
    if not proofs_ok and not found_input:
        ctx.violation("proof-broken", "Properties_C01.v no longer checks", ctx.broken_proof, no_input=True)
    elif not proofs_ok:
        ctx.notes.append("Properties_C01.v no longer checks: %r" % (ctx.broken_proof.get("errors"),))
