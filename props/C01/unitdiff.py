"""Unit differential of the float model (coq/C01/Run.v, coq/C05/Run.v) against
the real executors driven by harness/unit.cc.  Shared by C01 and C05."""
import math
import os
import vlib
from vlib import hexf

import monitor as M

HERE = os.path.dirname(os.path.abspath(__file__))
PRE01 = ("From Coq Require Import ZArith List Floats Bool.\n"
         "From Celer Require Import Base.Num Base.NumF C01.LedgerModel C01.Run.\n"
         "Import ListNotations.\nOpen Scope float_scope.\n")
PRE05 = ("From Coq Require Import ZArith List Floats Bool.\n"
         "From Celer Require Import Base.Num Base.NumF C01.LedgerModel C05.StepModel C05.Run.\n"
         "Import ListNotations.\nOpen Scope float_scope.\n")

P2_PART = {0: (0.0, False), 1: (1.0, False), 2: (1.0, True), 3: (0.5109989461, False), 4: (0.0, False)}
P5_PART = {0: (0.5109989461, False), 1: (0.5109989461, True), 2: (0.0, False)}
P1_PART = {0: (0.0, False), 1: (0.5, False), 2: (0.5, True)}


def fx(x):
    return float(x).hex()


def b(x):
    return "true" if x else "false"


def ulp_around(r, x):
    return r.choice([x, math.nextafter(x, 0.0), math.nextafter(x, math.inf)])


def zlit(z):
    return "(%d)%%Z" % z


# ---------------------------------------------------------------------------
# generators

def gen_c01(r, n):
    cases = []
    for i in range(n):
        k = ["mean", "elossmean", "eloss", "interact", "interact", "tcut", "eloss5"][i % 7]
        if k == "eloss5":
            # real positron / electron with the real annihilation process, brought to rest (or not) by the loss
            E = 10 ** r.uniform(-2, 0.9)
            Eset = r.choice([E, E, 10 ** r.uniform(-4, 0.9)])
            value = r.choice([Eset, Eset, Eset, Eset / 2, math.nextafter(Eset, 0.0), 0.0])
            cases.append((k, dict(dix=r.choice([0, 1]), pid=r.choice([1, 1, 1, 0]), E=E, Eset=Eset,
                                  dep0=r.choice([0.0, 10 ** r.uniform(-3, 1)]), value=value, pclass=r.choice([1, 2, 5]),
                                  applicable=True)))
            continue
        if k in ("mean", "elossmean"):
            lowest = r.choice([2.0 ** -10, 0.5, 2.0])
            pid = r.choice([1, 2, 3])
            emax = 9.0 if pid == 3 else 90.0
            c = r.random()
            if c < 0.35:
                E = ulp_around(r, lowest)
            elif c < 0.7:
                E = lowest * (1 + 10 ** r.uniform(-6, 0.5))
            else:
                E = 10 ** r.uniform(math.log10(max(lowest / 4, 2e-3)), math.log10(emax))
            E = min(max(E, 1.5e-3), emax)
            vol = r.choice([0, 1, 2])
            stepmode = r.choice([0, 1, 2, 2, 2])
            frac = r.choice([2.0 ** -r.randrange(1, 40), 0.5, 0.99, 1 - 2.0 ** -30, r.random(), 10 ** r.uniform(-6, 0)])
            pclass = r.choice([0, 1, 2, 5])
            if stepmode == 0 and pclass == 0:
                pclass = 1      # a boundary-limited step is never exactly the range
            cases.append((k, dict(lowest=lowest, pid=pid, E=E, vol=vol, stepmode=stepmode, frac=frac, pclass=pclass)))
        elif k == "eloss":
            pid = r.choice([1, 2, 3])
            E = 10 ** r.uniform(-2, 0.9)
            Eset = r.choice([E, E, E, 0.0, 10 ** r.uniform(-6, 0.9)])
            value = r.choice([0.0, Eset, Eset / 2, math.nextafter(Eset, 0.0), Eset * r.random()])
            dep0 = r.choice([0.0, 10 ** r.uniform(-3, 1)])
            pclass = r.choice([0, 1, 2, 5])
            if pclass == 0 and value == Eset:
                value = Eset / 2    # losing everything on a boundary step is excluded by the code's own assertion
            cases.append((k, dict(pid=pid, E=E, Eset=Eset, dep0=dep0, applicable=r.random() < 0.85, value=value, pclass=pclass)))
        elif k == "interact":
            cutmode = r.choice([1, 1, 1, 2])
            gcut, ecut, pcut = r.choice([(2.0 ** -4, 1.0, 0.5), (0.01, 1000.0, 0.01), (1.0, 2.0 ** -3, 4.0)])
            cuts = {0: gcut, 1: ecut, 2: pcut}
            pid = r.choice([0, 1, 2])
            E = 10 ** r.uniform(-1, 2)
            act = r.choice([0, 0, 0, 1, 1, 2, 3])
            nsec = r.choice([0, 1, 1, 2, 3, 5])
            secs = []
            for _ in range(nsec):
                sp = r.choice([0, 1, 2])
                c = r.random()
                if c < 0.5:
                    se = ulp_around(r, cuts[sp])
                elif c < 0.75:
                    se = cuts[sp] * 10 ** r.uniform(-3, 0)
                else:
                    se = cuts[sp] * 10 ** r.uniform(0, 1)
                secs.append((sp, se))
            iE = 0.0 if act == 1 else E * r.random()
            idep = r.choice([0.0, E * r.random() * 0.1])
            dep0 = r.choice([0.0, 10 ** r.uniform(-3, 0)])
            cases.append((k, dict(cutmode=cutmode, gcut=gcut, ecut=ecut, pcut=pcut, pid=pid, E=E, dep0=dep0,
                                  act=act, iE=iE, idep=idep, secs=secs)))
        else:
            gcut, ecut, pcut = (2.0 ** -4, 1.0, 0.5)
            cases.append((k, dict(cutmode=1, gcut=gcut, ecut=ecut, pcut=pcut, pid=r.choice([0, 1, 2, 2]),
                                  E=10 ** r.uniform(-3, 2), dep0=r.choice([0.0, 10 ** r.uniform(-3, 1)]))))
    return cases


def gen_msclimit(r):
    """the two Urban MSC true-path limiters at their case splits: limit collapsed to limit_min
    (range_factor*range_init and safety_factor*safety below it), physics step just below / at /
    just above limit_min and the limit, safety 0 / on a boundary / beyond the range"""
    lmin = 10 ** r.uniform(-6, -3)
    collapsed = r.random() < 0.55
    rf = 0.04
    ri = lmin * (r.uniform(1.0, 20.0) if collapsed else r.uniform(40.0, 4000.0))
    rng_ = max(ri * r.choice([0.5, 1.0, 1.0, 3.0]), lmin * 0.5)
    c = r.random()
    if collapsed:
        safety = r.choice([0.0, 0.0, lmin * r.uniform(0.0, 1.5), rng_ * 2])
    else:
        safety = r.choice([0.0, rng_ * r.uniform(0, 1), rng_ * 2, 10 ** r.uniform(-6, -1)])
    lim = max(max(rf * ri, 0.6 * safety) if safety < rng_ else rng_, lmin)
    base = r.choice([lmin, lim])
    phys = r.choice([base * r.uniform(0.05, 0.99), math.nextafter(base, 0.0), base, math.nextafter(base, math.inf),
                     base * r.uniform(1.01, 30.0), rng_])
    phys = max(phys, 2e-9)
    return dict(pid=r.choice([0, 1]), E=10 ** r.uniform(-2.7, -1.3), range=rng_, safety=safety,
                onb=int(r.random() < 0.25), phys=phys, preset=int(r.random() < 0.85), rf=rf, ri=ri, lmin=lmin,
                u1=r.uniform(0.01, 0.99), u2=r.uniform(0.01, 0.99))


def gen_statuscheck(r):
    """(order, prev, cur) for the real StatusCheckExecutor: every StepActionOrder, every status pair,
    every ordered pair of post-step action classes, along-step action kept / changed / missing"""
    order = r.choice([0, 1, 2, 3, 4, 4, 5, 6, 7, 7, 7, 8, 9, 9, 10, 11, 11, 11, 12, 13])
    ps = r.choice([0, 1, 2, 2, 3, 4])
    c = r.random()
    cs = ps if c < 0.4 else r.choice([0, 1, 2, 2, 3, 4, 4])
    pp = r.choice([-1, 0, 1, 2, 2, 3, 4, 5, 6])
    cp = pp if r.random() < 0.25 else r.choice([-1, 0, 0, 1, 2, 2, 3, 4, 5, 6, 6])
    inf = int(r.random() < (0.5 if cp < 0 else 0.1))
    pa = r.choice([-1, 0, 1, 1])
    ca = pa if r.random() < 0.7 else r.choice([-1, 0, 1])
    # params.orders[invalid id] is read out of bounds by the C++ when the new action is
    # invalid, the step infinite and the previous action valid: keep away from that read
    if cp < 0 and inf and pp >= 0 and order > 4 and order != 13 and cs != 0:
        inf = 0
    return dict(order=order, ps=ps, pp=pp, pa=pa, cs=cs, inf=inf, cp=cp, ca=ca)


def gen_c05(r, n):
    cases = []
    for i in range(n):
        k = ["steplimit", "update", "propagate", "msc", "ifail", "propagate", "physlimit", "physlimit", "statuscheck", "statuscheck", "errored", "msclimit", "msclimit"][i % 13]
        if k == "msclimit":
            cases.append((k, gen_msclimit(r)))
            continue
        if k == "errored":
            cases.append((k, dict(status=r.choice([1, 2, 2, 3]), pclass=r.choice([0, 0, 1, 2, 3, 4, 5]),
                                  step=r.choice([0.0, 10 ** r.uniform(-6, 2), math.inf]))))
            continue
        if k == "statuscheck":
            cases.append((k, gen_statuscheck(r)))
            continue
        if k == "physlimit":
            pid = r.choice([0, 1, 1, 2, 2, 3, 3, 4])
            emax = {0: 50.0, 1: 9.0, 2: 9.0, 3: 9.0, 4: 50.0}[pid]
            E = 10 ** r.uniform(-2, math.log10(emax))
            c = r.random()
            if c < 0.3:
                Eset = 0.0                                   # stopped
            elif c < 0.4:
                Eset = 10 ** r.uniform(-300, -20)            # tiny but moving
            elif c < 0.5:
                Eset = {0: 1e-6, 1: 1e-3, 2: 1e-3, 3: 1e-5, 4: 1e-6}[pid] * r.uniform(1.0, 2.0)
            else:
                Eset = E
            cases.append((k, dict(fixed=r.choice([0.0, 0.0, 0.25, 10 ** r.uniform(-4, 1)]), pid=pid, E=E, Eset=Eset,
                                  vol=r.choice([0, 1, 2]), mfpmode=r.choice([0, 0, 1, 2, 3]),
                                  mfpval=r.choice([10 ** r.uniform(-6, 2), 1.0]))))
        elif k == "propagate":
            step0 = r.choice([10 ** r.uniform(-6, 3), 0.25, math.inf])
            c = r.random()
            base = step0 if math.isfinite(step0) else 1.0
            if c < 0.35:
                dist, boundary = base, True            # boundary exactly AT the limit
            elif c < 0.55:
                dist, boundary = base * r.random(), True
            elif c < 0.65:
                dist, boundary = math.nextafter(base, 0.0), True
            elif c < 0.85:
                dist, boundary = (step0 if math.isfinite(step0) else 3.0), False   # not limited by geometry
            else:
                dist, boundary = base * r.uniform(1e-6, 1.0), False   # bumped / propagation-limited
            if not math.isfinite(step0) and not boundary:
                dist = 10 ** r.uniform(-3, 3)
            cases.append((k, dict(pclass=r.choice([1, 2, 5]), step0=step0, dist=dist, boundary=boundary,
                                  can_loop=r.random() < 0.3)))
        elif k == "msc":
            seq = []
            for _ in range(r.choice([2, 3, 5])):
                phys = 10 ** r.uniform(-4, 1)
                app = r.random() < 0.55
                t = phys * r.uniform(0.05, 1.0)
                g = t * r.uniform(0.3, 1.0)
                seq.append((phys, app, t, g))
            if all(a for _, a, _, _ in seq):
                seq[-1] = (seq[-1][0], False, seq[-1][2], seq[-1][3])
            cases.append((k, dict(seq=seq)))
        elif k == "ifail":
            cases.append((k, dict(cutmode=1, gcut=2.0 ** -4, ecut=1.0, pcut=0.5, pid=r.choice([0, 0, 1, 2]),
                                  E=10 ** r.uniform(-1, 2), dep0=0.0, act=3, iE=0.0, idep=0.0, secs=[])))
        elif k == "steplimit":
            s0 = r.choice([math.inf, 10 ** r.uniform(-6, 3), 0.0])
            seq = []
            cur = s0
            for _ in range(r.choice([1, 2, 4, 7])):
                c = r.random()
                base = cur if math.isfinite(cur) else 1.0
                if c < 0.3:
                    s = cur if math.isfinite(cur) else 10 ** r.uniform(-3, 3)     # equal: must NOT limit
                elif c < 0.5:
                    s = math.nextafter(base, 0.0)
                elif c < 0.6:
                    s = math.nextafter(base, math.inf)
                elif c < 0.7:
                    s = 0.0
                else:
                    s = base * 10 ** r.uniform(-2, 1)
                seq.append((s, r.choice([0, 1, 2, 3, 4, 5])))
                cur = min(cur, s)
            cases.append((k, dict(s0=s0, c0=r.choice([1, 2, 5]), seq=seq)))
        else:
            pid = r.choice([0, 1, 2, 3, 4])
            E = 10 ** r.uniform(-2, 0.9)
            Eset = r.choice([E, E, 0.0, 10 ** r.uniform(-8, 0.9), 10 ** r.uniform(-300, -20)])
            status = r.choice([2, 2, 2, 3, 4])
            step = r.choice([0.0, 10 ** r.uniform(-8, 2)]) if Eset == 0.0 else 10 ** r.uniform(-8, 2)
            pclass = r.choice([0, 1, 2, 2, 5])
            mfp = 10 ** r.uniform(-1, 1) + 1e3   # keeps mfp - step*xs positive (assertion in TrackUpdater)
            cases.append((k, dict(pid=pid, E=E, Eset=Eset, status=status, step=step, pclass=pclass,
                                  mfp=mfp, time0=r.choice([0.0, 10 ** r.uniform(-12, -6)]))))
    return cases


# ---------------------------------------------------------------------------
# harness lines

def harness_line(k, c):
    if k in ("mean", "elossmean"):
        return "%s %s %d %s %d %d %s %d" % (k, fx(c["lowest"]), c["pid"], fx(c["E"]), c["vol"], c["stepmode"], fx(c["frac"]), c["pclass"])
    if k == "eloss":
        return "eloss %d %s %s %s %d %s %d" % (c["pid"], fx(c["E"]), fx(c["Eset"]), fx(c["dep0"]), int(c["applicable"]), fx(c["value"]), c["pclass"])
    if k == "eloss5":
        return "eloss5 %d %d %s %s %s %s %d" % (c["dix"], c["pid"], fx(c["E"]), fx(c["Eset"]), fx(c["dep0"]), fx(c["value"]), c["pclass"])
    if k in ("interact", "ifail"):
        return "interact %d %s %s %s %d %s %s %d %s %s %d %s" % (
            c["cutmode"], fx(c["gcut"]), fx(c["ecut"]), fx(c["pcut"]), c["pid"], fx(c["E"]), fx(c["dep0"]),
            c["act"], fx(c["iE"]), fx(c["idep"]), len(c["secs"]), " ".join("%d %s" % (p, fx(e)) for p, e in c["secs"]))
    if k == "tcut":
        return "tcut %d %s %s %s %d %s %s" % (c["cutmode"], fx(c["gcut"]), fx(c["ecut"]), fx(c["pcut"]), c["pid"], fx(c["E"]), fx(c["dep0"]))
    if k == "physlimit":
        return "physlimit %s %d %s %s %d %d %s" % (fx(c["fixed"]), c["pid"], fx(c["E"]), fx(c["Eset"]), c["vol"], c["mfpmode"], fx(c["mfpval"]))
    if k == "propagate":
        return "propagate %d %s %s %d %d" % (c["pclass"], fx(c["step0"]), fx(c["dist"]), int(c["boundary"]), int(c["can_loop"]))
    if k == "msc":
        return "msc %d %s" % (len(c["seq"]), " ".join("%s %d %s %s" % (fx(p_), int(a), fx(t), fx(g)) for p_, a, t, g in c["seq"]))
    if k == "errored":
        return "errored %d %d %s" % (c["status"], c["pclass"], fx(c["step"]))
    if k == "msclimit":
        return "msclimit %d %s %s %s %d %s %d %s %s %s %s %s" % (
            c["pid"], fx(c["E"]), fx(c["range"]), fx(c["safety"]), c["onb"], fx(c["phys"]), c["preset"],
            fx(c["rf"]), fx(c["ri"]), fx(c["lmin"]), fx(c["u1"]), fx(c["u2"]))
    if k == "statuscheck":
        return "statuscheck %d %d %d %d %d %d %d %d" % (c["order"], c["ps"], c["pp"], c["pa"], c["cs"], c["inf"], c["cp"], c["ca"])
    if k == "steplimit":
        return "steplimit %s %d %d %s" % (fx(c["s0"]), c["c0"], len(c["seq"]), " ".join("%s %d" % (fx(s), a) for s, a in c["seq"]))
    if k == "update":
        return "update %d %s %s %d %s %d %s %s" % (c["pid"], fx(c["E"]), fx(c["Eset"]), c["status"], fx(c["step"]), c["pclass"], fx(c["mfp"]), fx(c["time0"]))
    raise ValueError(k)


def parse_out(line):
    t = line.split()
    if t[0] != "ok":
        return None
    vals = []
    for x in t[1:]:
        if x.startswith(("0x", "-0x")) or x in ("inf", "-inf", "nan"):
            vals.append(M.fh(x))
        else:
            vals.append(int(x))
    return vals


# ---------------------------------------------------------------------------
# model expressions + comparison (needs the harness output for table values)

def model_expr(k, c, o):
    """Gallina expression for the case given the implementation's reported inputs"""
    if k == "mean":
        res, step, rng_, rate, inv, lll, low = o
        return "run_mean %s %s %s %s %s %s %s %s" % (b(c["pclass"] != 0), hexf(low), hexf(c["E"]), hexf(step), hexf(rng_), hexf(rate), hexf(inv), hexf(lll))
    if k == "elossmean":
        E1, dd, st, pc, step, rng_, rate, inv, lll, low, at_rest = o
        m, anti = P2_PART[c["pid"]]
        return "run_elossmean %s %s %s %s %s %s %s %s %s %s %s" % (
            hexf(c["E"]), hexf(m), b(anti), zlit(c["pclass"]), b(at_rest), hexf(low), hexf(step), hexf(rng_), hexf(rate), hexf(inv), hexf(lll))
    if k == "eloss":
        m, anti = P2_PART[c["pid"]]
        at_rest = o[4]
        return "run_eloss %s %s %s %s %s %s %s %s" % (hexf(c["Eset"]), hexf(m), b(anti), hexf(c["dep0"]), zlit(c["pclass"]),
                                                     b(c["applicable"]), b(at_rest), hexf(c["value"]))
    if k == "eloss5":
        m, anti = P5_PART[c["pid"]]
        return "run_eloss %s %s %s %s %s %s %s %s" % (hexf(c["Eset"]), hexf(m), b(anti), hexf(c["dep0"]), zlit(c["pclass"]),
                                                     b(True), b(o[4]), hexf(c["value"]))
    if k == "interact":
        m, anti = P1_PART[c["pid"]]
        secs = "[" + "; ".join("(%s, %s)" % (zlit(p), hexf(e)) for p, e in c["secs"]) + "]"
        return "run_interact %s %s %s %s %s %s %s %s %s %s %s %s %s" % (
            b(c["cutmode"] == 1), hexf(c["gcut"]), hexf(c["ecut"]), hexf(c["pcut"]), hexf(0.5), hexf(c["E"]), hexf(m), b(anti),
            hexf(c["dep0"]), zlit(c["act"]), hexf(c["iE"]), hexf(c["idep"]), secs)
    if k == "tcut":
        m, anti = P1_PART[c["pid"]]
        return "run_tcut %s %s %s %s" % (hexf(c["E"]), hexf(m), b(anti), hexf(c["dep0"]))
    if k == "ifail":
        return "run_ifail %s %s" % (b(VARIANT["fixed"]), hexf(o[5]))
    if k == "physlimit":
        step, pc, mfp, xs, he, es, np_, ar = o
        return "run_physlimit %s %s %s %s %s %s %s" % (b(c["Eset"] == 0.0), hexf(mfp), hexf(xs), b(he), hexf(es), hexf(c["fixed"]), b(np_))
    if k == "propagate":
        return "run_propagate %s %s %s %s" % (zlit(c["pclass"]), hexf(c["step0"]), hexf(c["dist"]), b(c["boundary"]))
    if k == "msc":
        return "run_msc [%s]" % "; ".join("(%s, %s, %s, %s)" % (hexf(p_), b(a), hexf(t), hexf(g)) for p_, a, t, g in c["seq"])
    if k == "errored":
        return "run_errored %s %s %s" % (zlit(c["status"]), zlit(c["pclass"]), hexf(c["step"]))
    if k == "msclimit":
        r1, rf1, ri1, lm1, n1, r2, rf2, ri2, lm2, n2, sf, usp = o
        us = "[%s; %s]" % (hexf(c["u1"]), hexf(c["u2"]))
        return "(run_msclimit %s %s %s %s %s %s %s %s, run_msclimit_min %s %s %s %s)" % (
            hexf(c["phys"]), hexf(c["range"]), hexf(c["safety"]), hexf(rf1), hexf(ri1), hexf(sf), hexf(lm1), us,
            hexf(c["phys"]), hexf(ri2), hexf(lm2), us)
    if k == "statuscheck":
        ids = [o[1 + 2 * j] for j in range(9)]
        tbl = "[" + "; ".join("(%s, %s)" % (zlit(o[1 + 2 * j]), zlit(o[2 + 2 * j])) for j in range(9)) + "]"
        pid = lambda cl: -1 if cl < 0 else ids[cl]
        aid = lambda cl: -1 if cl < 0 else ids[7 + cl]
        return "run_statuscheck %s %s %s %s %s %s %s %s %s" % (
            tbl, zlit(c["order"]), zlit(c["ps"]), zlit(pid(c["pp"])), zlit(aid(c["pa"])), zlit(c["cs"]), b(c["inf"]),
            zlit(pid(c["cp"])), zlit(aid(c["ca"])))
    if k == "steplimit":
        seq = "[" + "; ".join("(%s, %s)" % (hexf(s), zlit(a)) for s, a in c["seq"]) + "]"
        return "run_steplimit %s %s %s" % (hexf(c["s0"]), zlit(c["c0"]), seq)
    if k == "update":
        t0, t1, speed, mfp1, xs, dn, mass = o
        return "run_update %s %s %s %s %s %s %s %s" % (zlit(c["status"]), hexf(speed), hexf(c["step"]), hexf(t0), zlit(c["pclass"]),
                                                      hexf(c["mfp"]), hexf(xs), hexf(c["Eset"]))
    raise ValueError(k)


def impl_view(k, c, o):
    """the part of the implementation's output that the model predicts"""
    if k == "mean":
        return [o[0]]
    if k == "elossmean":
        return list(o[0:4])
    if k in ("eloss", "eloss5"):
        return list(o[0:4])
    if k == "interact":
        E1, dep, st, pc, step1, step0, n = o[0:7]
        secs = [[bool(o[7 + 2 * i]), o[8 + 2 * i]] for i in range(n)]
        failed = (pc == 4)     # post action = physics-failure (either variant of the branch)
        return [E1, dep, st, failed, secs]
    if k == "tcut":
        return list(o[0:3])
    if k == "ifail":
        return [o[4], o[3]]
    if k == "physlimit":
        return [o[0], o[1]]
    if k == "propagate":
        return [o[0], o[1]]
    if k == "msc":
        return [[bool(o[3 * i]), o[3 * i + 1], o[3 * i + 2]] for i in range(len(c["seq"]))]
    if k == "errored":
        return [o[0], o[1], o[2]]
    if k == "msclimit":
        return [o[0], o[4], [o[5], o[9]]]    # Coq prints ((a, b), (c, d)) as (a, b, (c, d))
    if k == "statuscheck":
        return [o[0]]
    if k == "steplimit":
        n = len(c["seq"])
        return [[bool(o[3 * i]), o[3 * i + 1], o[3 * i + 2]] for i in range(n)]
    if k == "update":
        t0, t1, speed, mfp1, xs, dn, mass = o
        return [t1, mfp1, dn]
    raise ValueError(k)


def norm(v):
    if isinstance(v, tuple):
        return [norm(x) for x in v]
    if isinstance(v, list):
        return [norm(x) for x in v]
    return v


def oracle(k, c, o):
    """the property's own statement applied to the implementation's output"""
    if k == "mean":
        res = o[0]
        if not (0 <= res <= c["E"]):
            return "calc_eloss returned %r outside [0, E=%r]" % (res, c["E"])
        low = o[6]
        if c["pclass"] != 0 and res != c["E"] and not (c["E"] - res > low):
            return "track left alive at or below the tracking cut: E - eloss = %r <= %r" % (c["E"] - res, low)
        if c["stepmode"] == 0 and o[1] == o[2] and o[3] * o[1] >= c["E"] * o[5] and res != c["E"]:
            return "range-limited step deposits %r, not all of E=%r" % (res, c["E"])
    if k == "eloss5":
        m, anti = P5_PART[c["pid"]]
        if anti and not o[4]:
            return ("the positron of a problem that contains the positron-annihilation process (valid at rest) is built "
                    "with has_at_rest = false (disable_integral_xs=%d)" % c["dix"])
    if k in ("eloss", "eloss5"):
        m, anti = (P5_PART if k == "eloss5" else P2_PART)[c["pid"]]
        if anti and c["Eset"] > 0 and o[0] == 0.0 and o[2] == 4:
            # hypothesis tevent_ok of the history theorems: an antiparticle stopped by continuous loss is
            # removed only through an at-rest process; killed on the spot its 2mc^2 is neither deposited nor emitted
            return ("energy leak: antiparticle stopped by the continuous loss was killed (post-step class %d, has_at_rest=%d): "
                    "its 2mc^2 = %r is neither deposited (deposit grew by %r = kinetic energy only) nor emitted"
                    % (o[3], o[4], 2 * m, o[1] - c["dep0"]))
    if k in ("eloss", "eloss5", "elossmean"):
        E0 = c["Eset"] if k in ("eloss", "eloss5") else c["E"]
        E1 = o[0]
        dd = (o[1] - c["dep0"]) if k in ("eloss", "eloss5") else o[1]
        tol = 8 * M.EPS * (abs(E0) + abs(o[1]))
        if abs(E0 - (E1 + dd)) > tol:
            return "eloss step not balanced: E %r -> %r but deposit grew by %r" % (E0, E1, dd)
    if k == "interact":
        E1, dep, st, pc, step1, step0, n = o[0:7]
        if c["act"] in (0, 1):
            m, anti = P1_PART[c["pid"]]
            w = lambda p, e: e + (2 * P1_PART[p][0] if P1_PART[p][1] else 0.0)
            secs_in = sum(w(p, e) for p, e in c["secs"])
            secs_out = sum(w(c["secs"][i][0], o[8 + 2 * i]) for i in range(n) if o[7 + 2 * i])
            lhs = c["idep"] + secs_in
            rhs = (dep - c["dep0"]) + secs_out
            tol = 16 * M.EPS * (abs(lhs) + abs(rhs) + abs(dep) + abs(c["dep0"])) * (n + 1)
            if abs(lhs - rhs) > tol:
                return "production cut not balanced: interaction hands over %r (local + secondaries incl. 2mc^2), applier accounts for %r" % (lhs, rhs)
            for i in range(n):
                p, e = c["secs"][i]
                cut = {0: c["gcut"], 1: c["ecut"], 2: c["pcut"]}[p]
                if c["cutmode"] == 1 and e >= cut and not o[7 + 2 * i]:
                    return "secondary at or above its production cut was removed (E=%r cut=%r)" % (e, cut)
    if k == "tcut":
        m, anti = P1_PART[c["pid"]]
        w0 = c["E"] + (2 * m if anti else 0.0)
        if abs((o[1] - c["dep0"]) - w0) > 8 * M.EPS * (abs(o[1]) + abs(c["dep0"]) + w0) or o[0] != 0.0 or o[2] != 4:
            return "tracking cut: deposit grew by %r, expected E (+2mc^2) = %r; E'=%r status=%r" % (o[1] - c["dep0"], w0, o[0], o[2])
    if k == "physlimit":
        step, pc, mfp, xs, he, es, np_, ar = o
        if c["Eset"] == 0.0 and (step != 0.0 or pc != 2):
            return ("stopped particle (at-rest process: %s) got step limit %r with action class %r instead of a zero step "
                    "handed to the discrete (at-rest) action" % (bool(ar), step, pc))
        if c["Eset"] > 0 and xs > 0 and step > mfp / xs:
            return "physics step limit %r exceeds the interaction length mfp/xs = %r" % (step, mfp / xs)
        if c["Eset"] > 0 and not (step > 0):
            return "moving particle got a non-positive step limit %r" % step
    if k == "propagate":
        if c["boundary"] and o[1] != 0:
            return "propagator reported a boundary at distance %r (step limit %r) but the post-step action is not the boundary action" % (c["dist"], c["step0"])
        if o[0] > c["step0"]:
            return "propagation lengthened the step: %r -> %r" % (c["step0"], o[0])
    if k == "msc":
        for i, (phys, app, t, g) in enumerate(c["seq"]):
            called, geo, fin = o[3 * i], o[3 * i + 1], o[3 * i + 2]
            if not app and (called or fin != phys):
                return "MSC not applicable on step %d (physics limit %r) but apply_step was called / step length became %r" % (i, phys, fin)
            if fin > phys:
                return "step %d longer than its pre-step limit after MSC: %r > %r" % (i, fin, phys)
    if k == "msclimit":
        for name, rr, lm in (("UrbanMscSafetyStepLimit", o[0], o[3]), ("UrbanMscMinimalStepLimit", o[5], o[8])):
            if rr > c["phys"]:
                return ("%s returned a true path %r LONGER than the physics step limit %r (limit_min %r)"
                        % (name, rr, c["phys"], lm))
            if rr < min(lm, c["phys"]):
                return "%s returned %r below min(limit_min %r, physics step %r)" % (name, rr, lm, c["phys"])
        if o[11] != 0:
            return None
    if k == "errored":
        if o[0] != 3 or o[1] != 3 or o[3] != 0:
            return ("apply_errored left status=%d post-step class=%d along-step set=%d; expected errored (3), tracking cut (3), "
                    "no along-step action" % (o[0], o[1], o[3]))
    if k == "statuscheck":
        # registry facts the acceptance theorem (table_ok) relies on
        ords = [o[2 + 2 * j] for j in range(9)]
        want = {0: 11, 1: 14, 2: 9, 3: 11, 4: 14, 5: 14, 6: 11, 7: 7, 8: 7}
        bad = [(j, ords[j]) for j in want if ords[j] != want[j]]
        if bad:
            return ("action registry orders differ from the ones the StatusChecker acceptance theorem assumes "
                    "(class index, StepActionOrder): %r" % bad)
        # the checker must not reject a transition of a conforming step (same status, same actions)
        if (c["ps"], c["pp"], c["pa"]) == (c["cs"], c["cp"], c["ca"]) and c["cs"] in (2, 4) and c["cp"] >= 0 and c["ca"] >= 0 \
                and 4 < c["order"] < 13 and o[0] != 0:
            return "StatusCheckExecutor rejected an unchanged conforming state with code %d" % o[0]
    if k == "steplimit":
        cur = c["s0"]
        for i, (s, a) in enumerate(c["seq"]):
            new = o[3 * i + 1]
            if new > cur:
                return "step_limit raised the limit from %r to %r" % (cur, new)
            if s < cur and new != s:
                return "step_limit ignored a smaller limit %r (kept %r)" % (s, new)
            if not (s < cur) and (o[3 * i] or new != cur):
                return "step_limit changed state for a non-smaller limit %r (was %r)" % (s, cur)
            cur = new
    if k == "update":
        t0, t1, speed, mfp1, xs, dn, mass = o
        if t1 < t0:
            return "time decreased over a step: %r -> %r" % (t0, t1)
        if c["status"] == 2 and dn != 1:
            return "step counter not incremented"
    return None


VARIANT = {"fixed": False}


def detect_variant(ctx, todo):
    """which allocation-failure branch does the tree implement? decided by the
    real InteractionApplier on the generated failure cases"""
    kept = [o for k, c, o in todo if k == "ifail" and o[5] > 0]
    if not kept:
        return
    nfixed = sum(1 for o in kept if o[4] == o[5])
    nold = sum(1 for o in kept if o[4] == 0.0)
    VARIANT["fixed"] = nfixed > nold
    ctx.coverage["failure_branch_variant"] = ("repaired: post_step_action(failure), step length kept" if VARIANT["fixed"]
                                              else "old: step_limit({0, failure}) (finding F5)")
    ctx.coverage["failure_branch_cases"] = dict(kept=len(kept), step_kept=nfixed, step_zeroed=nold)


def run_cases(ctx, exe, cases, pre, tag):
    """returns True if a concrete failing input was reported"""
    inp = "".join(harness_line(k, c) + "\n" for k, c in cases)
    rc, out = ctx.run_harness(exe, input=inp, timeout=900, env={"CELER_LOG": "critical", "CELER_LOG_LOCAL": "critical"})
    lines = [l for l in out.splitlines() if l.startswith(("ok", "err"))]
    if rc != 0 or len(lines) != len(cases):
        raise vlib.BuildError("unit harness failed rc=%d (%d/%d lines)" % (rc, len(lines), len(cases)), out[-3000:])
    todo = []
    for (k, c), line in zip(cases, lines):
        o = parse_out(line)
        ctx.count("unit:" + k)
        if o is None:
            ctx.count("unit-skipped:" + line.split()[1][:30])
            ctx.case((k, c), nontrivial=False)
            continue
        todo.append((k, c, o))
    detect_variant(ctx, todo)
    exprs = [model_expr(k, c, o) for k, c, o in todo]
    mvals = ctx.coq_eval(tag, pre, exprs, chunk=max(100, len(exprs) // 6 + 1)) if exprs else []
    found = False
    ndis = 0
    for (k, c, o), mv in zip(todo, mvals):
        ctx.case((k, c), nontrivial=True)
        iv = impl_view(k, c, o)
        mv = norm(mv)
        if not isinstance(mv, list):
            mv = [mv]
        ctx.sample(dict(kind=k, case=c, impl=iv, model=mv), limit=8)
        why = oracle(k, c, o)
        agree = vlib.close(iv, mv, rtol=1e-12, atol=0.0)
        if why:
            found = True
            ndis += 1
            if ndis <= 4:
                ctx.violation("unit-oracle", "%s: %s" % (k, why),
                              dict(kind=k, case=c, harness_line=harness_line(k, c), impl_output=o, model=mv))
        elif not agree:
            ndis += 1
            if ndis <= 4:
                ctx.violation("correspondence", "model and implementation differ for %s" % k,
                              dict(kind=k, case=c, harness_line=harness_line(k, c), impl=iv, model=mv,
                                   theorem="the Coq theorems are about a model that no longer matches the code"),
                              no_input=True)
    return found


def build_exe(ctx):
    return ctx.compile_harness([os.path.join(HERE, "harness", "unit.cc")], "unit", libs=M.LIBS, test_includes=True)


def unit_differential(ctx):
    exe = build_exe(ctx)
    n = 600 if ctx.tier == "quick" else 20000
    cases = gen_c01(ctx.rng, n)
    return run_cases(ctx, exe, cases, PRE01, "unit01")


def unit_differential_c05(ctx):
    exe = build_exe(ctx)
    n = 720 if ctx.tier == "quick" else 12000
    cases = gen_c05(ctx.rng, n)
    return run_cases(ctx, exe, cases, PRE05, "unit05")
