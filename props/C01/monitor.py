"""Shared by C01 and C05: run generation for the stepping-loop harness
(harness/loop.cc), parsing of its step records, the C01 energy-ledger oracle and
the C05 step-stream oracle.  All randomness comes from the rng passed in."""
import math
import os

EPS = 2.0 ** -52
LIBS = ["testcel_celeritas", "testcel_harness", "testcel_core", "testcel_geocel",
        "celeritas", "orange", "geocel", "corecel"]
HERE = os.path.dirname(os.path.abspath(__file__))
C_CGS = 2.99792458e10   # cm/s (celeritas CGS native units)


def fh(x):
    if isinstance(x, str):
        return {"nan": float("nan"), "inf": float("inf"), "-inf": float("-inf")}.get(x) if x in ("nan", "inf", "-inf") else float.fromhex(x)
    return float(x)


class Rec:
    __slots__ = ("it", "slot", "event", "track", "parent", "nsteps", "action", "particle",
                 "step", "edep", "pre", "post", "vmid", "vpost", "vnudge", "status", "limit", "prestatus")


class Point:
    __slots__ = ("t", "pos", "dir", "vol", "E")


def _point(tok):
    p = Point()
    p.t = fh(tok[0])
    p.pos = (fh(tok[1]), fh(tok[2]), fh(tok[3]))
    p.dir = (fh(tok[4]), fh(tok[5]), fh(tok[6]))
    p.vol = int(tok[7])
    p.E = fh(tok[8])
    return p


class Run:
    def __init__(self, spec):
        self.spec = spec
        self.parts = {}      # id -> (label, mass, anti)
        self.actions = {}    # id -> label
        self.recs = []
        self.live = []       # (slot, event, track, particle, E, status)
        self.exc = None
        self.kills = []
        self.end = None
        self.model_actions = (0, 0)

    def act(self, label):
        for k, v in self.actions.items():
            if v == label:
                return k
        return None

    def weight(self, pid, E):
        _, m, anti = self.parts[pid]
        return E + 2 * m if anti else E


def parse_runs(out, specs):
    runs = []
    cur = None
    it = iter(specs)
    for line in out.splitlines():
        if not line:
            continue
        tag = line[0]
        if line.startswith("BEGIN"):
            cur = Run(next(it))
            runs.append(cur)
        elif tag == "S":
            t = line.split()
            r = Rec()
            r.it, r.slot, r.event, r.track, r.parent, r.nsteps, r.action, r.particle = (int(x) for x in t[1:9])
            r.step = fh(t[9]); r.edep = fh(t[10])
            r.pre = _point(t[11:20]); r.post = _point(t[20:29])
            r.vmid, r.vpost, r.vnudge, r.status = int(t[29]), int(t[30]), int(t[31]), int(t[32])
            r.limit = fh(t[33]) if len(t) > 33 else float("nan")
            r.prestatus = int(t[34]) if len(t) > 34 else -1
            cur.recs.append(r)
        elif line.startswith("PART"):
            t = line.split()
            cur.parts[int(t[1])] = (t[2], fh(t[3]), t[4] == "1")
        elif line.startswith("ACT"):
            t = line.split()
            cur.actions[int(t[1])] = t[2]
        elif line.startswith("MODELACT"):
            t = line.split()
            cur.model_actions = (int(t[1]), int(t[2]))
        elif line.startswith("LIVE"):
            t = line.split()
            cur.live.append((int(t[1]), int(t[2]), int(t[3]), int(t[4]), fh(t[5]), int(t[6])))
        elif line.startswith("K "):
            cur.kills.append(int(line.split()[1]))
        elif line.startswith("EXC"):
            cur.exc = line[4:]
        elif line.startswith("END"):
            t = line.split()
            cur.end = (int(t[1]), int(t[2]), int(t[3]))
    return runs


# ---------------------------------------------------------------------------
# run generation

def unit(r):
    while True:
        v = [r.gauss(0, 1) for _ in range(3)]
        n = math.sqrt(sum(x * x for x in v))
        if n > 1e-3:
            return [x / n for x in v]


def gen_specs(rng, tier, stack_small=False):
    """list of dict(problem, cutmode, ecut, seed, slots, capacity, stack, kill_at,
    max_iters, prims=[(pid,E,pos,dir,evt)])"""
    specs = []
    nrep = 1 if tier == "quick" else 6
    slot_choices = [1, 2, 7, 64]
    for rep in range(nrep):
        for slots in slot_choices:
            for tight in (True, False):
                # ---- P1: Compton, gammas (+ direct electrons) in two boxes
                for cutmode, ecut in ((0, 1000.0), (1, 1000.0), (1, rng.choice([0.5, 2.0, 10.0]))):
                    nev = rng.choice([1, 2, 3])
                    prims = []
                    nprim = rng.choice([2, 4, 6]) if slots < 64 else rng.choice([8, 16])
                    for i in range(nprim):
                        evt = i % nev
                        c = rng.random()
                        if c < 0.5:
                            pos = [-22.0, 0.0, 0.0]; d = [1.0, 0.0, 0.0]
                            E = rng.choice([100.0, 10 ** rng.uniform(0, 3)])
                        elif c < 0.9:
                            pos = [rng.uniform(-4.9, 4.9) for _ in range(3)]; d = unit(rng)
                            E = 10 ** rng.uniform(-1, 3.5)
                        else:
                            pos = [rng.uniform(-4.9, 4.9) for _ in range(3)]; d = unit(rng)
                            E = 10 ** rng.uniform(-1, 2)
                        pid = 1 if (c >= 0.9) else 0
                        prims.append((pid, E, pos, d, evt))
                    if rng.random() < 0.3:
                        # a primary that starts outside the world: errored at
                        # initialisation, energy deposited by the tracking cut
                        prims.append((0, 10 ** rng.uniform(-1, 2), [1001.0, 0.0, 0.0], [1.0, 0.0, 0.0], 0))
                    cap = max(len(prims) + rng.choice([0, 1, 3]), 2) if tight else 4096
                    kill = rng.choice([-1, -1, -1, 2, 5, 11])
                    specs.append(dict(problem="P1", cutmode=cutmode, ecut=ecut, seed=rng.randrange(1, 10 ** 6),
                                      slots=slots, capacity=cap, stack=1.0, kill_at=kill,
                                      max_iters=20000, prims=prims))
                # ---- P2: mock physics with continuous loss in three spheres (radii 1, 3, 6).
                # The mock celeriton/anti-celeriton are outside the fixture's valid domain as
                # soon as they interact or stop (has_at_rest = true but no model at E = 0, and
                # process "meows" has a cross section but no model above 10 MeV:
                # select_discrete_interaction then reads an invalid model id).  They are kept
                # only for the antiparticle bookkeeping (escape / tracking cut with 2mc^2):
                # started in the near-vacuum world, flying outwards, 1.5..9.5 MeV.
                nev = rng.choice([1, 2])
                prims = []
                nprim = rng.choice([3, 5, 8]) if slots < 64 else 16
                for i in range(nprim):
                    pid = rng.choice([0, 1, 1, 2, 2, 3, 3, 4])
                    u = unit(rng)
                    if pid in (1, 2):
                        rad = rng.uniform(6.5, 50.0)
                        pos = [rad * x for x in u]
                        d = list(u)
                        E = rng.uniform(1.5, 9.5)
                    else:
                        rad = rng.choice([0.5, 2.0, 4.0, 8.0]) * rng.uniform(0.2, 0.95)
                        pos = [rad * x for x in u]
                        d = unit(rng)
                        lo, hi = {0: (-3, 1.9), 3: (-3, 0.9), 4: (-2, 2)}[pid]
                        E = 10 ** rng.uniform(lo, hi)
                    prims.append((pid, E, pos, d, i % nev))
                if rng.random() < 0.6:
                    # an antiparticle that starts outside the world: errored at initialisation,
                    # the tracking cut must deposit E + 2mc^2
                    prims.append((2, rng.uniform(1.5, 9.5), [1001.0, 0.0, 0.0], [1.0, 0.0, 0.0], 0))
                cap = max(len(prims), 2) if tight else 4096
                kill = rng.choice([-1, 1, 2, 3, 6])
                specs.append(dict(problem="P2", cutmode=0, ecut=1000.0, seed=rng.randrange(1, 10 ** 6),
                                  slots=slots, capacity=cap, stack=1.0, kill_at=kill,
                                  max_iters=2000, prims=prims))
    return specs


TRACK_ORDERS = {0: "none", 1: "init_charge", 2: "reindex_shuffle", 3: "reindex_status",
                4: "reindex_particle_type", 5: "reindex_along_step_action",
                6: "reindex_step_limit_action", 7: "reindex_both_action"}


def gen_specs_extra(rng, tier):
    """configurations aimed at classes of defect the basic runs cannot see:
    - P3 (pair production: parents ABSORBED with two surviving secondaries) and P1 under
      every track order (init_charge partitioning, re-indexing orders)
    - P2 with a fixed step limiter commensurate with the geometry, so that the physics
      limit chosen in pre-step equals the distance to the next boundary exactly
    - P4: real Urban MSC along-step whose applicability ends part-way through a track"""
    specs = []
    nrep = 1 if tier == "quick" else 5
    for rep in range(nrep):
        # ---- P3 x track orders
        orders = [1, 1, 0, 2, 3, 4, 5, 6, 7]
        for k, order in enumerate(orders):
            slots = [16, 7, 2, 64, 16, 7, 16, 64, 7][k]
            prims = []
            nprim = rng.choice([8, 16, 24])
            nev = rng.choice([1, 2])
            for i in range(nprim):
                pos = [rng.uniform(-4.5, 4.5) for _ in range(3)]
                E = rng.choice([10.0, 10 ** rng.uniform(0.5, 2.5)])
                prims.append((0, E, pos, unit(rng), i % nev))
            cutmode = rng.choice([2, 2, 1])
            specs.append(dict(problem="P3", cutmode=cutmode, ecut=rng.choice([0.5, 2.0]), seed=rng.randrange(1, 10 ** 6),
                              slots=slots, capacity=4096, stack=3.0, kill_at=-1, max_iters=20000,
                              track_order=order, prims=prims))
        # ---- P1 (parents survive) under non-default orders
        for order in (1, rng.choice([2, 3, 4]), rng.choice([5, 6, 7])):
            prims = [(0, 10 ** rng.uniform(0.5, 2.5), [rng.uniform(-4.5, 4.5) for _ in range(3)], unit(rng), 0)
                     for _ in range(6)]
            specs.append(dict(problem="P1", cutmode=rng.choice([0, 1]), ecut=2.0, seed=rng.randrange(1, 10 ** 6),
                              slots=rng.choice([2, 7, 16]), capacity=4096, stack=3.0, kill_at=-1, max_iters=20000,
                              track_order=order, prims=prims))
        # ---- P2 with fixed step limiter 0.25 cm: electrons on the axes starting a whole
        # number of limiter steps away from a sphere (radii 1, 3, 6)
        for order in (0, 1):
            prims = []
            for i in range(10):
                ax = rng.randrange(3)
                sgn = rng.choice([-1.0, 1.0])
                zone = rng.choice(["inner", "outer", "outer", "world"])
                if zone == "inner":      # 0.5 MeV/cm: any energy survives
                    x0 = 0.25 * rng.randrange(0, 4); d_out = True
                    E = rng.uniform(2.0, 9.0)
                elif zone == "outer":    # 5 MeV/cm: stay fixed-step limited (0.2*range > 0.25)
                    nst = rng.choice([1, 2, 3])
                    d_out = rng.random() < 0.7
                    x0 = 6.0 - 0.25 * nst if d_out else 3.0 + 0.25 * nst
                    E = rng.uniform(8.5, 9.8)
                else:                    # world: towards the r=6 sphere
                    x0 = 6.0 + 0.25 * rng.randrange(1, 8); d_out = False
                    E = rng.uniform(2.0, 9.0)
                pos = [0.0, 0.0, 0.0]; pos[ax] = sgn * x0
                d = [0.0, 0.0, 0.0]; d[ax] = sgn * (1.0 if d_out else -1.0)
                prims.append((3, E, pos, d, 0))
            specs.append(dict(problem="P2", cutmode=0, ecut=1000.0, seed=rng.randrange(1, 10 ** 6),
                              slots=rng.choice([4, 16]), capacity=4096, stack=1.0, kill_at=-1, max_iters=4000,
                              track_order=order, fixed_limit=0.25, prims=prims))   # <= ~400 limiter steps per track across the world
        # ---- P4: Urban MSC, electrons/positrons slowing down below the MSC table
        for order in (0, 1, rng.choice([3, 5, 6])):
            prims = []
            for i in range(8):
                pid = rng.choice([0, 0, 1])
                pos = [rng.uniform(-3.0, 3.0) for _ in range(3)]
                E = rng.choice([1.0, 10 ** rng.uniform(-0.7, 0.5)])
                prims.append((pid, E, pos, unit(rng), i % 2))
            specs.append(dict(problem="P4", cutmode=0, ecut=1000.0, seed=rng.randrange(1, 10 ** 6),
                              slots=rng.choice([2, 4, 16]), capacity=4096, stack=1.0, kill_at=-1, max_iters=400,
                              track_order=order, msc=True, prims=prims))
        # ---- P5: positrons (and electrons) slowing down to rest with the real annihilation
        # process; identical parallel positrons stop in the same iteration, so with a starved
        # secondary stack some annihilations fail and the stopped, still alive positron has to
        # retry at rest in a zero-length step
        for stack, slots, order in ((3.0, 4, 0), (0.5, 4, 0), (0.25, 8, 1), (1.0, 2, rng.choice([3, 5, 6]))):
            n = 2 * slots if slots <= 4 else slots
            E = rng.choice([1.0, 0.5, 2.0])
            dz = rng.choice([1.0, -1.0])
            prims = [(1, E, [-3.0 + 6.0 * i / n, rng.uniform(-2, 2), 0.0], [0.0, 0.0, dz], 0) for i in range(n)]
            prims += [(0, 10 ** rng.uniform(-0.5, 0.3), [rng.uniform(-3, 3) for _ in range(3)], unit(rng), 0)
                      for _ in range(2)]
            specs.append(dict(problem="P5", cutmode=0, ecut=1000.0, seed=rng.randrange(1, 10 ** 6),
                              slots=slots, capacity=4096, stack=stack, kill_at=-1, max_iters=600,
                              track_order=order, anti_at_rest=True, prims=prims))
    return specs


def gen_specs_msc(rng, tier):
    """P4 (real Urban MSC) in the regime where the MSC true-path limit collapses to its per-volume
    minimum: MSC table down to 1 keV with a small cross section (transport MFP >= range), electrons /
    positrons of a few keV started within ~limit_min of the inner box's faces (or deep inside),
    and a physics limit (fixed step limiter / small min_range) shorter than that minimum: the
    stream clause "step <= pre-step limit" then covers the limiter's early-return ordering"""
    specs = []
    nrep = 1 if tier == "quick" else 4
    for rep in range(nrep):
        for k in range(4):
            xs = rng.choice([5e-3, 2e-3, 1e-2])
            fixed = [3e-4, 1e-4, 0.0, 5e-4][k]
            prims = []
            for i in range(10):
                pid = rng.choice([0, 0, 1])
                E = 10 ** rng.uniform(-2.6, -1.6)            # 2.5 .. 25 keV
                ax = rng.randrange(3)
                sgn = rng.choice([-1.0, 1.0])
                pos = [rng.uniform(-4.0, 4.0) for _ in range(3)]
                c = rng.random()
                if c < 0.7:                                   # hugging a face of the inner box (|x| = 5)
                    pos[ax] = sgn * (5.0 - 10 ** rng.uniform(-6, -3))
                d = unit(rng)
                if c < 0.35:                                  # ... flying along / away from it
                    d[ax] = -sgn * abs(d[ax]) * rng.choice([1.0, 0.05])
                    nrm = math.sqrt(sum(x * x for x in d)); d = [x / nrm for x in d]
                prims.append((pid, E, pos, d, i % 2))
            sp = dict(problem="P4", cutmode=0, ecut=1000.0, seed=rng.randrange(1, 10 ** 6), slots=rng.choice([4, 16]),
                      capacity=4096, stack=1.0, kill_at=-1, max_iters=400, track_order=rng.choice([0, 1]), msc=True,
                      truncated_ok=True, msc_emin=1e-3, msc_xs=xs, prims=prims)
            if fixed > 0:
                sp["fixed_limit"] = fixed
            else:
                sp["min_range"] = 1e-4
            specs.append(sp)
    return specs


def gen_specs_sweep(rng, tier):
    """the property quantifies over every configuration: the loop problems again under a small
    sweep of PhysicsOptions (one cheap run per option setting): disable_integral_xs,
    linear_loss_limit, lowest_electron_energy, min_range, fixed_step_limiter,
    secondary_stack_factor"""
    specs = []
    nrep = 1 if tier == "quick" else 4
    sweeps = [dict(disable_integral_xs=1), dict(linear_loss_limit=rng.choice([0.05, 0.2, 0.001])),
              dict(lowest=rng.choice([0.01, 0.05, 1e-4])), dict(min_range=rng.choice([1e-2, 0.1, 1e-4])),
              dict(fixed_limit=rng.choice([0.05, 0.5])),
              dict(disable_integral_xs=1, lowest=0.01, linear_loss_limit=0.05, stack=rng.choice([0.5, 1.0]))]
    for rep in range(nrep):
        for k, opt in enumerate(sweeps):
            # ---- P5: positrons stop and must annihilate at rest under every option setting
            slots = rng.choice([2, 4, 8])
            n = 2 * slots
            E = rng.choice([1.0, 0.5, 2.0])
            dz = rng.choice([1.0, -1.0])
            prims = [(1, E, [-3.0 + 6.0 * i / n, rng.uniform(-2, 2), 0.0], [0.0, 0.0, dz], i % 2) for i in range(n)]
            prims += [(0, 10 ** rng.uniform(-0.5, 0.3), [rng.uniform(-3, 3) for _ in range(3)], unit(rng), 0)
                      for _ in range(2)]
            sp = dict(problem="P5", cutmode=0, ecut=1000.0, seed=rng.randrange(1, 10 ** 6), slots=slots,
                      capacity=4096, stack=3.0, kill_at=-1, max_iters=3000 if "fixed_limit" in opt else 600,
                      track_order=rng.choice([0, 1]), anti_at_rest=True, prims=prims)
            sp.update(opt)
            if sp["stack"] * sp["slots"] < 4:
                # an annihilation needs room for its two gammas, otherwise it can never succeed and the
                # stopped positron retries for ever (not a defect: the stack is simply too small)
                sp["slots"] = 8
            specs.append(sp)
            # ---- P3 (Compton + pair production) under the same option
            if k in (0, 1, 2, 5):
                prims = [(0, rng.choice([10.0, 10 ** rng.uniform(0.5, 2.5)]), [rng.uniform(-4.5, 4.5) for _ in range(3)],
                          unit(rng), i % 2) for i in range(8)]
                sp = dict(problem="P3", cutmode=rng.choice([2, 1]), ecut=rng.choice([0.5, 2.0]),
                          seed=rng.randrange(1, 10 ** 6), slots=rng.choice([7, 16]), capacity=4096, stack=3.0,
                          kill_at=-1, max_iters=20000, track_order=rng.choice([0, 1]), prims=prims)
                sp.update(opt)
                specs.append(sp)
            # ---- P2 (mock continuous loss, range kills, boundaries) under the same option
            if k in (0, 1, 3):
                prims = []
                for i in range(6):
                    pid = rng.choice([0, 3, 3, 4])
                    u = unit(rng)
                    rad = rng.choice([0.5, 2.0, 4.0, 8.0]) * rng.uniform(0.2, 0.95)
                    lo, hi = {0: (-3, 1.9), 3: (-3, 0.9), 4: (-2, 2)}[pid]
                    prims.append((pid, 10 ** rng.uniform(lo, hi), [rad * x for x in u], unit(rng), 0))
                sp = dict(problem="P2", cutmode=0, ecut=1000.0, seed=rng.randrange(1, 10 ** 6), slots=rng.choice([2, 7]),
                          capacity=4096, stack=1.0, kill_at=-1, max_iters=2000, prims=prims)
                sp.update(opt)
                specs.append(sp)
    return specs


def spec_line(s):
    f = lambda x: float(x).hex()
    p = []
    for pid, E, pos, d, evt in s["prims"]:
        p.append("%d %s %s %s %d" % (pid, f(E), " ".join(f(x) for x in pos), " ".join(f(x) for x in d), evt))
    return "run %s %d %s %d %d %d %s %d %d %d %s %d %s %s %s %s %s %d %s\n" % (
        s["problem"], s["cutmode"], f(s["ecut"]), s["seed"], s["slots"], s["capacity"], f(s["stack"]),
        s["kill_at"], s["max_iters"], s.get("track_order", 0), f(s.get("fixed_limit", 0.0)),
        int(s.get("disable_integral_xs", 0)), f(s.get("linear_loss_limit", 0.0)), f(s.get("lowest", 0.0)),
        f(s.get("min_range", 0.0)), f(s.get("msc_emin", 0.0)), f(s.get("msc_xs", 0.0)),
        len(s["prims"]), " ".join(p))


def spec_key(s):
    return dict((k, v) for k, v in s.items())


def execute(ctx, exe, specs, timeout=900):
    inp = "".join(spec_line(s) for s in specs)
    rc, out = ctx.run_harness(exe, input=inp, timeout=timeout, env={"CELER_LOG": "critical", "CELER_LOG_LOCAL": "critical"})
    return rc, out


def rec_dict(run, r):
    pt = lambda p: dict(t=p.t, pos=list(p.pos), dir=list(p.dir), vol=p.vol, E=p.E)
    return dict(iter=r.it, slot=r.slot, event=r.event, track=r.track, parent=r.parent, nsteps=r.nsteps,
                action=run.actions.get(r.action, r.action), particle=run.parts.get(r.particle, ("?",))[0],
                step=r.step, edep=r.edep, pre=pt(r.pre), post=pt(r.post),
                located=dict(mid=r.vmid, post=r.vpost, nudged=r.vnudge), status=r.status,
                limit_after_pre_step=r.limit, status_after_pre_step=r.prestatus)


# ---------------------------------------------------------------------------
# C01 oracle: event and track ledgers

def tracks_of(run):
    tr = {}
    for r in run.recs:
        tr.setdefault((r.event, r.track), []).append(r)
    for k in tr:
        tr[k].sort(key=lambda r: r.it)
    return tr


def ledger_check(run):
    """returns (list of violations (kind, what, detail), stats)"""
    viol = []
    stats = dict(events=0, tracks=0, complete_events=0, deposit=0.0, escaped=0.0, live=0.0,
                 antiparticle_kills=0, cut_secondary_runs=0, antiparticle_range_kills=0)
    bnd = run.act("geo-boundary")
    tcut = run.act("tracking-cut")
    erange = run.act("eloss-range")
    tr = tracks_of(run)
    complete = run.exc is None and run.end is not None and run.end[2] == 0
    live_by = {}
    for (slot, ev, tk, pid, E, st) in run.live:
        live_by[(ev, tk)] = (pid, E, st)
    events = sorted({p[4] for p in run.spec["prims"]})
    children = {}
    for (ev, tk), rs in tr.items():
        if rs[0].parent >= 0:
            children.setdefault((ev, rs[0].parent), []).append((ev, tk))

    def final_weight(key, rs):
        """weight still carried by the track after its last record"""
        last = rs[-1]
        if key in live_by and last.status == 2:
            pid, E, st = live_by[key]
            return "live", run.weight(pid, E)
        if last.action == bnd and last.post.vol < 0 and last.status == 4:
            return "escaped", run.weight(last.particle, last.post.E)
        if last.action == erange and last.status == 4 and run.parts[last.particle][2]:
            # an antiparticle stopped by continuous loss in a problem that gives it no
            # at-rest process (P4's mock slowing-down): ElossApplier kills it and its 2mc^2
            # is never deposited -- exactly the case excluded by hypothesis tevent_ok of
            # the history theorems; booked separately instead of being called a leak
            if run.spec.get("anti_at_rest"):
                # the PROBLEM DEFINITION gives this antiparticle a process that is valid at rest
                # (P5: real e+ annihilation): whatever the options, a stopped antiparticle must
                # not be removed without its 2mc^2 being deposited or emitted -> a leak
                stats["antiparticle_range_kills_with_at_rest_process"] = \
                    stats.get("antiparticle_range_kills_with_at_rest_process", 0) + 1
                return "dead", 0.0
            stats["antiparticle_range_kills"] += 1
            return "dead-no-at-rest", 2 * run.parts[last.particle][1]
        return "dead", 0.0

    # per event
    for ev in events:
        stats["events"] += 1
        prim = [p for p in run.spec["prims"] if p[4] == ev]
        win = sum(run.weight(p[0], p[1]) for p in prim)
        dep = esc = liv = 0.0
        scale = win
        for (e2, tk), rs in tr.items():
            if e2 != ev:
                continue
            for r in rs:
                dep += r.edep
                scale += abs(r.edep)
            kind, w = final_weight((e2, tk), rs)
            if kind == "escaped":
                esc += w
            elif kind in ("live", "dead-no-at-rest"):
                liv += w
            scale += abs(w)
        stats["deposit"] += dep; stats["escaped"] += esc; stats["live"] += liv
        if not complete:
            continue
        # tracks not yet seen (never initialised) cannot exist in a complete run
        stats["complete_events"] += 1
        tol = 64 * EPS * scale + 1e-300
        if abs(win - (dep + esc + liv)) > tol:
            viol.append(("event-balance",
                         "event %d: primaries carry %.17g but deposits %.17g + escaped %.17g + live %.17g = %.17g (diff %.3g, tol %.3g)"
                         % (ev, win, dep, esc, liv, dep + esc + liv, win - (dep + esc + liv), tol),
                         dict(event=ev, primaries=win, deposited=dep, escaped=esc, live=liv)))
    # per track
    for key, rs in tr.items():
        stats["tracks"] += 1
        first = rs[0]
        w0 = run.weight(first.particle, first.pre.E)
        dep = sum(r.edep for r in rs)
        kind, wf = final_weight(key, rs)
        ch = 0.0
        ok_children = True
        for ck in children.get(key, []):
            c0 = tr[ck][0]
            if c0.nsteps != 1:
                ok_children = False
            ch += run.weight(c0.particle, c0.pre.E)
        if run.parts[first.particle][2] and rs[-1].action == tcut:
            stats["antiparticle_kills"] += 1
        if not complete and kind == "dead" and not ok_children:
            continue
        if not complete:
            # children may still be queued: only an inequality-free check is possible
            continue
        scale = abs(w0) + abs(dep) + abs(wf) + abs(ch)
        tol = 64 * EPS * scale * max(1, len(rs)) ** 0.5 + 1e-300
        if abs(w0 - (dep + ch + wf)) > tol:
            viol.append(("track-balance",
                         "event %d track %d (%s): born with %.17g, deposited %.17g, children born with %.17g, final(%s) %.17g (diff %.3g)"
                         % (key[0], key[1], run.parts[first.particle][0], w0, dep, ch, kind, wf, w0 - (dep + ch + wf)),
                         dict(event=key[0], track=key[1], records=[rec_dict(run, r) for r in rs[:3] + rs[-3:]])))
        # per record sanity of C01: deposits are non-negative and never exceed what the step had
        for r in rs:
            if not (r.edep >= 0):
                viol.append(("negative-deposit", "event %d track %d step %d deposit %r" % (key[0], key[1], r.nsteps, r.edep),
                             dict(record=rec_dict(run, r))))
                break
    return viol, stats


# ---------------------------------------------------------------------------
# C05 oracle: step-stream clauses on consecutive records of one track

def dist(a, b):
    return math.sqrt(sum((x - y) ** 2 for x, y in zip(a, b)))


F5_SIGNATURE = "alloc-failure-step-length-zero"
ROTATE_MSC_SIGNATURE = "rotate-small-sintheta-msc-displacement-beyond-true-path"


def stream_check(run):
    """returns (violations [(kind, what, detail, signature)], stats)"""
    viol = []
    st = dict(records=0, pairs=0, boundary_steps=0, volume_changes=0, zero_steps=0,
              zero_steps_stopped=0, failure_records=0, failure_zero_with_displacement=0,
              located=0, max_disp_excess=0.0, boundary_at_limit=0, steps_below_msc_table=0)
    msc = bool(run.spec.get("msc"))
    bnd = run.act("geo-boundary")
    tcut = run.act("tracking-cut")
    fail = run.act("physics-failure")
    tr = tracks_of(run)
    rej = run.act("physics-integral-rejected")
    m0, m1 = run.model_actions

    def at_rest_action(a):
        """post-step actions a zero-length step may end with: a discrete interaction model,
        or the outcome of an attempted one (allocation failure / integral rejection)"""
        return (m0 <= a < m1) or a == fail or a == rej

    def add(kind, what, recs, sig=None):
        viol.append((kind, what, dict(records=[rec_dict(run, r) for r in recs]), sig))

    for key, rs in tr.items():
        for k, r in enumerate(rs):
            st["records"] += 1
            name = "event %d track %d step %d" % (key[0], key[1], r.nsteps)
            # errored before the step (failed initialisation / kill_active) or within it
            # (geometry failure -> apply_errored): the step ends in the tracking cut
            errored = (r.prestatus == 3) or (r.action == tcut)
            # --- within one record
            if r.post.t < r.pre.t:
                add("time-decreased", "%s: time %r -> %r" % (name, r.pre.t, r.post.t), [r])
            if r.post.E > r.pre.E:
                add("energy-increased", "%s: kinetic energy %r -> %r" % (name, r.pre.E, r.post.E), [r])
            if not (r.step >= 0):
                add("negative-step", "%s: step length %r" % (name, r.step), [r])
            d = dist(r.pre.pos, r.post.pos)
            scale = max(1.0, max(abs(x) for x in r.pre.pos + r.post.pos))
            if r.action == fail:
                st["failure_records"] += 1
            if r.step == 0 and not errored:
                st["zero_steps"] += 1
                if r.pre.E == 0:
                    st["zero_steps_stopped"] += 1
                    # a stopped particle's zero-length step exists only to interact at rest
                    if m1 > m0 and not at_rest_action(r.action):
                        add("zero-step-not-at-rest-interaction",
                            "%s: zero-length step of a stopped particle ends with action %s, not with a discrete (at-rest) interaction"
                            % (name, run.actions.get(r.action, r.action)), [r])
                    if k > 0 and rs[k - 1].step == 0 and not (rs[k - 1].action == fail or rs[k - 1].action == rej):
                        add("consecutive-zero-steps", "%s: second zero-length step in a row (previous ended with %s)"
                            % (name, run.actions.get(rs[k - 1].action, rs[k - 1].action)), [rs[k - 1], r])
                else:
                    sig = F5_SIGNATURE if r.action == fail else None
                    if sig and d > 0:
                        st["failure_zero_with_displacement"] += 1
                    add("zero-step-not-stopped",
                        "%s: step length 0 reported for a moving particle (E=%r, action %s, displacement %r)"
                        % (name, r.pre.E, run.actions.get(r.action), d), [r], sig)
            if not errored and r.step > 0 or d > 0:
                excess = d - r.step
                st["max_disp_excess"] = max(st["max_disp_excess"], excess)
                if excess > 16 * EPS * scale + 4 * EPS * r.step:
                    sig = F5_SIGNATURE if (r.action == fail and r.step == 0) else None
                    # known defect of rotate() (ArrayUtils.hh) seen through the Urban MSC lateral displacement:
                    # for a pre-step direction within 0.005 rad of +-z with y < 0 the middle branch drops the
                    # sign of rot[Y], the "lateral" displacement is then not perpendicular to the step direction
                    # and the end point lies up to 2*sin(theta)*r_lateral beyond the true path length
                    if sig is None and msc and r.step > 0:
                        dz = r.pre.dir[2]
                        sth = math.sqrt(max(0.0, 1.0 - dz * dz))
                        if 0 < sth < 0.005 and r.pre.dir[1] < 0 and excess <= 1e-4 * r.step:
                            sig = ROTATE_MSC_SIGNATURE
                    if not (sig and r.pre.E != 0 and r.step == 0):   # already reported above
                        add("step-shorter-than-displacement",
                            "%s: step length %r < displacement %r" % (name, r.step, d), [r], sig)
            if r.action == bnd and r.step == r.limit:
                st["boundary_at_limit"] += 1
            if msc and r.pre.E < 0.1:
                st["steps_below_msc_table"] += 1
            if not errored and r.limit == r.limit and r.step > r.limit * (1 + 1e-12):
                add("step-exceeds-limit", "%s: step length %r > physics limit %r chosen in pre-step" % (name, r.step, r.limit), [r])
            if r.status < 2 or (r.prestatus >= 0 and r.status < r.prestatus):
                add("status-reverted", "%s: status after pre-step %d, after the step %d" % (name, r.prestatus, r.status), [r])
            # volume only changes on boundary steps
            if r.action == bnd:
                st["boundary_steps"] += 1
            if r.pre.vol != r.post.vol:
                st["volume_changes"] += 1
                if r.action != bnd and not errored:
                    add("volume-changed-without-boundary", "%s: volume %d -> %d with action %s"
                        % (name, r.pre.vol, r.post.vol, run.actions.get(r.action)), [r])
            # reported volume contains reported position (fresh initialisation)
            if not errored and r.step > 1e-5:
                st["located"] += 1
                # (with MSC the post point is laterally displaced: the chord midpoint need
                # not lie in the pre-step volume, so only the end points are located)
                if not msc and r.vmid >= -1 and r.vmid != r.pre.vol:
                    add("pre-volume-wrong", "%s: step midpoint is in volume %d, reported pre-step volume %d" % (name, r.vmid, r.pre.vol), [r])
                if r.action != bnd and r.vpost >= -1 and r.vpost != r.post.vol:
                    add("post-volume-wrong", "%s: post point is in volume %d, reported %d" % (name, r.vpost, r.post.vol), [r])
                if r.action == bnd and r.vnudge >= -1 and r.vnudge != r.post.vol:
                    add("post-volume-wrong", "%s: just beyond the boundary is volume %d, reported %d" % (name, r.vnudge, r.post.vol), [r])
            # --- consecutive records
            if k + 1 < len(rs):
                n = rs[k + 1]
                st["pairs"] += 1
                if r.status != 2:
                    add("stepped-after-death", "%s: status %d but the track has a later record" % (name, r.status), [r, n])
                    continue
                nerr = (n.prestatus == 3)
                if (n.pre.t != r.post.t or n.pre.pos != r.post.pos or n.pre.vol != r.post.vol or n.pre.E != r.post.E):
                    add("steps-do-not-join", "%s: post (t=%r pos=%r vol=%d E=%r) != next pre (t=%r pos=%r vol=%d E=%r)"
                        % (name, r.post.t, r.post.pos, r.post.vol, r.post.E, n.pre.t, n.pre.pos, n.pre.vol, n.pre.E), [r, n])
                if n.it != r.it + 1:
                    add("iteration-gap", "%s: recorded in iteration %d then %d" % (name, r.it, n.it), [r, n])
                if not nerr and n.nsteps != r.nsteps + 1:
                    add("step-count", "%s: step counter %d then %d" % (name, r.nsteps, n.nsteps), [r, n])
    # the event must drain: nothing may still be alive or queued when the loop stopped
    # (iteration budget max_iters; kill_active runs end by construction)
    if run.exc is None and run.end is not None and (run.end[1] > 0 or run.end[2] > 0) \
            and not run.spec.get("truncated_ok"):   # (runs with a deliberately tiny fixed step are cut off by the budget)
        stuck = [dict(slot=sl, event=ev, track=tk, particle=run.parts.get(pid, ("?",))[0], E=E, status=stt)
                 for (sl, ev, tk, pid, E, stt) in run.live][:8]
        lastrecs = []
        for (sl, ev, tk, pid, E, stt) in run.live[:2]:
            lastrecs += tr.get((ev, tk), [])[-3:]
        viol.append(("event-did-not-drain",
                     "after %d iterations %d tracks are still alive and %d queued (stuck: %s)"
                     % (run.end[0], run.end[1], run.end[2], ", ".join("ev %d trk %d %s E=%r" % (x["event"], x["track"], x["particle"], x["E"]) for x in stuck[:4])),
                     dict(live=stuck, records=[rec_dict(run, r) for r in lastrecs]), None))
    return viol, st
