// C01/C05 unit-correspondence harness: drives the REAL executors
//   detail::MeanELoss::calc_eloss, detail::ElossApplier<EH>, InteractionApplier<F>,
//   detail::TrackingCutExecutor, SimTrackView::step_limit, detail::TimeUpdater,
//   detail::TrackUpdater
// (all header code, compiled here from the source tree) on one track slot of a
// real CoreState whose particle/sim/physics state was brought to generated
// values through the public views.
//
// stdin: one case per line, first token = kind (see the branches of main).
// stdout: one line per case, "ok v..." (doubles as hex) or "err <what>".
#include "../../../harness/common.hh"

#include <map>

#include "corecel/cont/Span.hh"
#include "corecel/math/Algorithms.hh"
#include "celeritas/geo/GeoTrackView.hh"
#include "celeritas/global/CoreState.hh"
#include "celeritas/global/CoreTrackView.hh"
#include "celeritas/global/alongstep/detail/ElossApplier.hh"
#include "celeritas/global/alongstep/detail/MeanELoss.hh"
#include "celeritas/global/alongstep/detail/MscApplier.hh"
#include "celeritas/global/alongstep/detail/MscStepLimitApplier.hh"
#include "celeritas/global/alongstep/detail/PropagationApplier.hh"
#include "celeritas/global/alongstep/detail/TimeUpdater.hh"
#include "celeritas/global/alongstep/detail/TrackUpdater.hh"
#include "celeritas/grid/EnergyLossCalculator.hh"
#include "celeritas/grid/InverseRangeCalculator.hh"
#include "celeritas/phys/InteractionApplier.hh"
#include "celeritas/phys/PhysicsStepUtils.hh"
#include "celeritas/phys/Primary.hh"
#include "celeritas/phys/detail/TrackingCutExecutor.hh"
#include "celeritas/track/SimTrackView.hh"
#include "corecel/sys/ActionInterface.hh"
#include "celeritas/track/StatusChecker.hh"
#include "celeritas/track/StatusCheckData.hh"
#include "celeritas/track/detail/StatusCheckExecutor.hh"

#include "celeritas/em/msc/detail/UrbanMscHelper.hh"
#include "celeritas/em/msc/detail/UrbanMscMinimalStepLimit.hh"
#include "celeritas/em/msc/detail/UrbanMscSafetyStepLimit.hh"

#include "problems.hh"

using namespace celeritas;
using verif::hex;
using verif::rd;

namespace
{
//! energy-loss helper returning a scripted value (ElossApplier's EH concept)
struct ScriptedEloss
{
    using Energy = ParticleTrackView::Energy;
    bool applicable;
    real_type value;
    bool* seen_apply_cut;
    real_type* seen_step;

    bool is_applicable(CoreTrackView const&) const { return applicable; }
    Energy calc_eloss(CoreTrackView const&, real_type step, bool apply_cut)
    {
        *seen_apply_cut = apply_cut;
        *seen_step = step;
        return Energy{value};
    }
};

//! propagator returning a scripted result (PropagationApplier's MP concept)
struct ScriptedPropagator
{
    Propagation result;
    bool can_loop;
    Propagation operator()(real_type) { return result; }
    bool tracks_can_loop() const { return can_loop; }
};

//! MSC helper with scripted answers (MscStepLimitApplier / MscApplier's MH concept):
//! limit_step stores (true, geom) and shortens the step to the geometrical path,
//! apply_step restores the stored true path, like UrbanMsc does
struct ScriptedMsc
{
    bool applicable;
    real_type true_path;
    real_type geom_path;
    int* applied;

    bool is_applicable(CoreTrackView const&, real_type) const
    {
        return applicable;
    }
    void limit_step(CoreTrackView const& track)
    {
        MscStep m;
        m.true_path = true_path;
        m.geom_path = geom_path;
        track.make_physics_step_view().msc_step(m);
        track.make_sim_view().step_length(geom_path);
    }
    void apply_step(CoreTrackView const& track)
    {
        ++*applied;
        track.make_sim_view().step_length(
            track.make_physics_step_view().msc_step().true_path);
    }
};

template<class P>
struct Fixture
{
    std::unique_ptr<P> prob;
    std::shared_ptr<CoreParams const> core;

    explicit Fixture(verif::ProblemConfig c) : prob(new P(c))
    {
        core = prob->core();
    }

    void execute(std::string const& label, CoreState<MemSpace::host>& state)
    {
        auto const& areg = *core->action_reg();
        auto id = areg.find_action(label);
        CELER_VALIDATE(id, << "no action " << label);
        auto const* act = dynamic_cast<CoreStepActionInterface const*>(
            areg.action(id).get());
        CELER_VALIDATE(act, << "not a step action " << label);
        act->step(*core, state);
    }

    //! one-slot state with a track brought through initialize-tracks and pre-step
    std::unique_ptr<CoreState<MemSpace::host>>
    make_state(ParticleId pid, real_type energy, Real3 pos, Real3 dir)
    {
        auto state = std::make_unique<CoreState<MemSpace::host>>(
            *core, StreamId{0}, 1);
        Primary p;
        p.particle_id = pid;
        p.energy = units::MevEnergy{energy};
        p.position = pos;
        p.direction = dir;
        p.time = 0;
        p.event_id = EventId{0};
        std::vector<Primary> prims{p};
        prob->insert_primaries(*state, make_span(prims));
        this->execute("extend-from-primaries", *state);
        this->execute("initialize-tracks", *state);
        this->execute("pre-step", *state);
        return state;
    }
};

int paction_class(CoreTrackView const& track, ActionId a)
{
    auto phys = track.make_physics_view();
    if (!a)
        return -1;
    if (a == track.boundary_action())
        return 0;
    if (a == phys.scalars().range_action())
        return 1;
    if (a == phys.scalars().discrete_action())
        return 2;
    if (a == track.tracking_cut_action())
        return 3;
    if (a == phys.scalars().failure_action())
        return 4;
    return 5;
}

ActionId class_action(CoreTrackView const& track, int c)
{
    auto phys = track.make_physics_view();
    switch (c)
    {
        case 0:
            return track.boundary_action();
        case 1:
            return phys.scalars().range_action();
        case 2:
            return phys.scalars().discrete_action();
        case 3:
            return track.tracking_cut_action();
        case 4:
            return phys.scalars().failure_action();
        default:
            return track.propagation_limit_action();
    }
}

std::map<std::string, std::unique_ptr<Fixture<verif::P2>>> p2_cache;
std::map<std::string, std::unique_ptr<Fixture<verif::P1>>> p1_cache;

Fixture<verif::P2>& get_p2(real_type lowest, real_type fixed_limit = 0)
{
    std::string key = hex(lowest) + hex(fixed_limit);
    auto& f = p2_cache[key];
    if (!f)
    {
        verif::ProblemConfig c;
        c.lowest = lowest;
        c.fixed_limit = fixed_limit;
        f.reset(new Fixture<verif::P2>(c));
    }
    return *f;
}

Fixture<verif::P1>&
get_p1(int cutmode, real_type gcut, real_type ecut, real_type pcut)
{
    std::string key = std::to_string(cutmode) + hex(gcut) + hex(ecut)
                      + hex(pcut);
    auto& f = p1_cache[key];
    if (!f)
    {
        verif::ProblemConfig c;
        c.cutmode = cutmode;
        c.gcut = gcut;
        c.ecut = ecut;
        c.pcut = pcut;
        c.with_positron = true;
        f.reset(new Fixture<verif::P1>(c));
    }
    return *f;
}

// positions inside the volumes of three-spheres (radii 1, 3, 6)
Real3 p2_pos(int vol)
{
    switch (vol)
    {
        case 0:
            return {0.25, 0.1, 0};
        case 1:
            return {0, 2.0, 0.1};
        case 2:
            return {0.2, 0, 4.5};
        default:
            return {20, 1, 2};
    }
}
}  // namespace

int main()
{
    std::string line;
    while (std::getline(std::cin, line))
    {
        if (line.empty())
            continue;
        std::istringstream is(line);
        std::string kind;
        is >> kind;
        std::ostringstream os;
        try
        {
            if (kind == "mean" || kind == "elossmean")
            {
                // mean <lowest> <pid> <E> <vol> <stepmode> <frac> <post class>
                real_type lowest = rd(is);
                unsigned pid;
                is >> pid;
                real_type E = rd(is);
                int vol, stepmode;
                is >> vol >> stepmode;
                real_type frac = rd(is);
                int pclass;
                is >> pclass;
                auto& fx = get_p2(lowest);
                auto state = fx.make_state(
                    ParticleId{pid}, E, p2_pos(vol), {0, 0, 1});
                CoreTrackView track(
                    fx.core->host_ref(), state->ref(), ThreadId{0});
                auto phys = track.make_physics_view();
                auto particle = track.make_particle_view();
                auto sim = track.make_sim_view();
                if (!phys.eloss_ppid())
                {
                    std::cout << "err no-eloss-process\n";
                    continue;
                }
                real_type range = phys.dedx_range();
                real_type step = stepmode == 0   ? range
                                 : stepmode == 1 ? std::nextafter(range, 0.0)
                                                 : frac * range;
                if (!(step > 0))
                    step = range;
                sim.reset_step_limit({step, class_action(track, pclass)});
                bool apply_cut = (pclass != 0);
                // ingredients of the model, read through the same calculators
                using VGT = ValueGridType;
                auto ppid = phys.eloss_ppid();
                real_type rate = phys.make_calculator<EnergyLossCalculator>(
                    phys.value_grid(VGT::energy_loss, ppid))(particle.energy());
                real_type inv = 0;
                if (step < range)
                {
                    inv = value_as<units::MevEnergy>(
                        phys.make_calculator<InverseRangeCalculator>(
                            phys.value_grid(VGT::range, ppid))(range - step));
                }
                real_type lll = phys.scalars().linear_loss_limit;
                real_type low = phys.scalars().lowest_electron_energy.value();
                bool at_rest = phys.has_at_rest();
                if (kind == "mean")
                {
                    detail::MeanELoss me;
                    real_type res = me.calc_eloss(track, step, apply_cut).value();
                    os << "ok " << hex(res) << ' ' << hex(step) << ' '
                       << hex(range) << ' ' << hex(rate) << ' ' << hex(inv)
                       << ' ' << hex(lll) << ' ' << hex(low);
                }
                else
                {
                    auto pstep = track.make_physics_step_view();
                    real_type dep0 = pstep.energy_deposition().value();
                    detail::ElossApplier<detail::MeanELoss> apply{
                        detail::MeanELoss{}};
                    apply(track);
                    os << "ok " << hex(particle.energy().value()) << ' '
                       << hex(pstep.energy_deposition().value() - dep0) << ' '
                       << static_cast<int>(sim.status()) << ' '
                       << paction_class(track, sim.post_step_action()) << ' '
                       << hex(step) << ' ' << hex(range) << ' ' << hex(rate)
                       << ' ' << hex(inv) << ' ' << hex(lll) << ' ' << hex(low)
                       << ' ' << at_rest;
                }
            }
            else if (kind == "eloss")
            {
                // eloss <pid> <E> <Eset> <dep0> <applicable> <value> <post class>
                unsigned pid;
                is >> pid;
                real_type E = rd(is);
                real_type Eset = rd(is);
                real_type dep0 = rd(is);
                int applicable;
                is >> applicable;
                real_type value = rd(is);
                int pclass;
                is >> pclass;
                auto& fx = get_p2(0.001);
                auto state
                    = fx.make_state(ParticleId{pid}, E, p2_pos(0), {0, 0, 1});
                CoreTrackView track(
                    fx.core->host_ref(), state->ref(), ThreadId{0});
                auto particle = track.make_particle_view();
                auto sim = track.make_sim_view();
                auto phys = track.make_physics_view();
                auto pstep = track.make_physics_step_view();
                particle.energy(units::MevEnergy{Eset});
                pstep.reset_energy_deposition();
                pstep.deposit_energy(units::MevEnergy{dep0});
                sim.reset_step_limit({0.125, class_action(track, pclass)});
                bool seen_cut = false;
                real_type seen_step = -1;
                detail::ElossApplier<ScriptedEloss> apply{ScriptedEloss{
                    applicable != 0, value, &seen_cut, &seen_step}};
                apply(track);
                os << "ok " << hex(particle.energy().value()) << ' '
                   << hex(pstep.energy_deposition().value()) << ' '
                   << static_cast<int>(sim.status()) << ' '
                   << paction_class(track, sim.post_step_action()) << ' '
                   << phys.has_at_rest() << ' ' << seen_cut << ' '
                   << hex(seen_step);
            }
            else if (kind == "eloss5")
            {
                // eloss5 <disable_integral_xs> <pid> <E> <Eset> <dep0> <value> <post class>
                // ElossApplier{scripted} on P5: real e-/e+ with the REAL annihilation process
                // (valid at rest) under both settings of PhysicsOptions::disable_integral_xs
                int dix;
                unsigned pid;
                is >> dix >> pid;
                real_type E = rd(is);
                real_type Eset = rd(is);
                real_type dep0 = rd(is);
                real_type value = rd(is);
                int pclass;
                is >> pclass;
                static std::unique_ptr<Fixture<verif::P5>> p5[2];
                if (!p5[dix != 0])
                {
                    verif::ProblemConfig c;
                    c.disable_integral_xs = (dix != 0);
                    p5[dix != 0].reset(new Fixture<verif::P5>(c));
                }
                auto& fx = *p5[dix != 0];
                auto state = fx.make_state(
                    ParticleId{pid}, E, {0.5, 0.25, -1}, {0, 0, 1});
                CoreTrackView track(
                    fx.core->host_ref(), state->ref(), ThreadId{0});
                auto particle = track.make_particle_view();
                auto sim = track.make_sim_view();
                auto phys = track.make_physics_view();
                auto pstep = track.make_physics_step_view();
                particle.energy(units::MevEnergy{Eset});
                pstep.reset_energy_deposition();
                pstep.deposit_energy(units::MevEnergy{dep0});
                sim.reset_step_limit({0.125, class_action(track, pclass)});
                bool seen_cut = false;
                real_type seen_step = -1;
                detail::ElossApplier<ScriptedEloss> apply{
                    ScriptedEloss{true, value, &seen_cut, &seen_step}};
                apply(track);
                os << "ok " << hex(particle.energy().value()) << ' '
                   << hex(pstep.energy_deposition().value()) << ' '
                   << static_cast<int>(sim.status()) << ' '
                   << paction_class(track, sim.post_step_action()) << ' '
                   << phys.has_at_rest() << ' ' << seen_cut << ' '
                   << hex(seen_step);
            }
            else if (kind == "interact" || kind == "tcut")
            {
                // interact <cutmode> <gcut> <ecut> <pcut> <pid> <E> <dep0>
                //          <action 0..3> <iE> <idep> <nsec> {pid E}*
                int cutmode;
                is >> cutmode;
                real_type gcut = rd(is), ecut = rd(is), pcut = rd(is);
                unsigned pid;
                is >> pid;
                real_type E = rd(is);
                real_type dep0 = rd(is);
                auto& fx = get_p1(cutmode, gcut, ecut, pcut);
                auto state = fx.make_state(
                    ParticleId{pid}, E, {0.5, 0.25, -1}, {0, 0, 1});
                CoreTrackView track(
                    fx.core->host_ref(), state->ref(), ThreadId{0});
                auto particle = track.make_particle_view();
                auto sim = track.make_sim_view();
                auto pstep = track.make_physics_step_view();
                pstep.reset_energy_deposition();
                pstep.deposit_energy(units::MevEnergy{dep0});
                if (kind == "tcut")
                {
                    detail::TrackingCutExecutor exec;
                    exec(track);
                    os << "ok " << hex(particle.energy().value()) << ' '
                       << hex(pstep.energy_deposition().value()) << ' '
                       << static_cast<int>(sim.status()) << ' '
                       << hex(particle.mass().value()) << ' '
                       << particle.is_antiparticle();
                }
                else
                {
                    int action;
                    is >> action;
                    real_type iE = rd(is), idep = rd(is);
                    size_type nsec;
                    is >> nsec;
                    std::vector<Secondary> secs(nsec);
                    for (auto& s : secs)
                    {
                        unsigned sp;
                        is >> sp;
                        s.particle_id = ParticleId{sp};
                        s.energy = units::MevEnergy{rd(is)};
                        s.direction = {1, 0, 0};
                    }
                    Interaction result;
                    result.energy = units::MevEnergy{iE};
                    result.direction = {0, 1, 0};
                    result.energy_deposition = units::MevEnergy{idep};
                    result.action = static_cast<Interaction::Action>(action);
                    result.secondaries = make_span(secs);
                    real_type step0 = sim.step_length();
                    auto f = [&result](CoreTrackView const&) { return result; };
                    InteractionApplier<decltype(f)> apply{std::move(f)};
                    apply(track);
                    os << "ok " << hex(particle.energy().value()) << ' '
                       << hex(pstep.energy_deposition().value()) << ' '
                       << static_cast<int>(sim.status()) << ' '
                       << paction_class(track, sim.post_step_action()) << ' '
                       << hex(sim.step_length()) << ' ' << hex(step0) << ' '
                       << pstep.secondaries().size();
                    for (auto const& s : pstep.secondaries())
                    {
                        os << ' ' << (s ? 1 : 0) << ' ' << hex(s.energy.value());
                    }
                }
            }
            else if (kind == "statuscheck")
            {
                // statuscheck <order> <prev status> <prev post class> <prev along>
                //             <cur status> <cur step inf> <cur post class> <cur along>
                // classes: -1 invalid, 0 boundary, 1 range, 2 discrete, 3 tracking cut,
                // 4 failure, 5 propagation limit, 6 first model; along: -1 invalid,
                // 0 neutral, 1 user
                int order, ps, pp, pa, cs, inf, cp, ca;
                is >> order >> ps >> pp >> pa >> cs >> inf >> cp >> ca;
                auto& fx = get_p1(0, 0.01, 1000, 0.01);
                auto state = fx.make_state(
                    ParticleId{0}, 1.0, {0.5, 0.25, -1}, {0, 0, 1});
                CoreTrackView track(
                    fx.core->host_ref(), state->ref(), ThreadId{0});
                auto sim = track.make_sim_view();
                auto phys = track.make_physics_view();
                auto post_id = [&](int c) {
                    if (c < 0)
                        return ActionId{};
                    if (c == 6)
                        return phys.model_to_action(ModelId{0});
                    return class_action(track, c);
                };
                auto along_id = [&](int c) {
                    if (c < 0)
                        return ActionId{};
                    return c == 0 ? track.core_scalars().along_step_neutral_action
                                  : track.core_scalars().along_step_user_action;
                };
                // the REAL order table (StatusChecker::begin_run_impl, libceleritas)
                StatusChecker chk(ActionId{0}, AuxId{0});
                chk.begin_run(*fx.core, *state);
                StatusCheckStateData<Ownership::value, MemSpace::host> sv;
                resize(&sv, chk.host_ref(), StreamId{0}, 1);
                StatusCheckStateData<Ownership::reference, MemSpace::host> sref;
                sref = sv;
                sref.action = fx.core->action_reg()->find_action("pre-step");
                sref.order = static_cast<StepActionOrder>(order);
                sref.status[TrackSlotId{0}] = static_cast<TrackStatus>(ps);
                sref.post_step_action[TrackSlotId{0}] = post_id(pp);
                sref.along_step_action[TrackSlotId{0}] = along_id(pa);
                sim.status(static_cast<TrackStatus>(cs));
                sim.reset_step_limit(StepLimit{
                    inf ? std::numeric_limits<real_type>::infinity() : 1.5,
                    post_id(cp)});
                sim.along_step_action(along_id(ca));
                int code = 0;
                try
                {
                    detail::StatusCheckExecutor{chk.host_ref(), sref}(track);
                }
                catch (std::exception const& e)
                {
                    std::string m = e.what();
                    code = m.find("improperly reverted") != std::string::npos ? 1
                           : m.find("cannot be 'initializing'") != std::string::npos
                               ? 2
                           : m.find("missing post-step") != std::string::npos ? 3
                           : m.find("missing along-step") != std::string::npos ? 4
                           : m.find("cannot yet change") != std::string::npos ? 5
                           : m.find("out of order") != std::string::npos   ? 6
                                                                           : 99;
                }
                os << "ok " << code;
                auto put = [&](ActionId a) {
                    os << ' ' << static_cast<int>(a.unchecked_get()) << ' '
                       << static_cast<int>(chk.host_ref().orders[a]);
                };
                for (int c = 0; c <= 6; ++c)
                    put(post_id(c));
                put(along_id(0));
                put(along_id(1));
            }
            else if (kind == "errored")
            {
                // errored <status> <post class> <step>: CoreTrackView::apply_errored
                int st, pc;
                is >> st >> pc;
                real_type step = rd(is);
                auto& fx = get_p1(0, 0.01, 1000, 0.01);
                auto state = fx.make_state(
                    ParticleId{0}, 1.0, {0.5, 0.25, -1}, {0, 0, 1});
                CoreTrackView track(
                    fx.core->host_ref(), state->ref(), ThreadId{0});
                auto sim = track.make_sim_view();
                sim.status(static_cast<TrackStatus>(st));
                sim.reset_step_limit(StepLimit{step, class_action(track, pc)});
                track.apply_errored();
                os << "ok " << static_cast<int>(sim.status()) << ' '
                   << paction_class(track, sim.post_step_action()) << ' '
                   << hex(sim.step_length()) << ' '
                   << (sim.along_step_action() ? 1 : 0);
            }
            else if (kind == "msclimit")
            {
                // msclimit <pid> <E> <range> <safety> <on_boundary> <phys_step>
                //          <preset> <rf> <ri> <lmin> <u1> <u2>
                // the REAL UrbanMscSafetyStepLimit and UrbanMscMinimalStepLimit functors
                // (constructor + operator()) on a real P4 slot, random numbers replayed
                unsigned pid;
                is >> pid;
                real_type E = rd(is), range = rd(is), safety = rd(is);
                int onb;
                is >> onb;
                real_type phys_step = rd(is);
                int preset;
                is >> preset;
                MscRange mr;
                mr.range_factor = rd(is);
                mr.range_init = rd(is);
                mr.limit_min = rd(is);
                real_type u1 = rd(is), u2 = rd(is);
                static std::unique_ptr<Fixture<verif::P4>> p4;
                static std::shared_ptr<UrbanMscParams> msc;
                if (!p4)
                {
                    verif::ProblemConfig c;
                    c.msc_emin = 1e-3;
                    c.msc_xs = 5e-3;
                    p4.reset(new Fixture<verif::P4>(c));
                    msc = verif::make_urban_msc(
                        *p4->core->particle(), *p4->core->material(), c);
                }
                auto state = p4->make_state(
                    ParticleId{pid}, 1.0, {0.5, 0.25, -1}, {0, 0, 1});
                CoreTrackView track(
                    p4->core->host_ref(), state->ref(), ThreadId{0});
                auto particle = track.make_particle_view();
                auto phys = track.make_physics_view();
                particle.energy(units::MevEnergy{E});
                phys.dedx_range(range);
                os << "ok";
                for (int which = 0; which < 2; ++which)
                {
                    phys.msc_range(preset ? mr : MscRange{});
                    celeritas::detail::UrbanMscHelper helper(
                        msc->host_ref(), particle, phys);
                    verif::ReplayEngine rng({u1, u2});
                    real_type r;
                    if (which == 0)
                    {
                        celeritas::detail::UrbanMscSafetyStepLimit calc(
                            msc->host_ref(),
                            helper,
                            particle.energy(),
                            &phys,
                            phys.material_id(),
                            onb != 0,
                            safety,
                            phys_step);
                        r = calc(rng);
                    }
                    else
                    {
                        celeritas::detail::UrbanMscMinimalStepLimit calc(
                            msc->host_ref(), helper, &phys, onb != 0, phys_step);
                        r = calc(rng);
                    }
                    auto const& after = phys.msc_range();
                    os << ' ' << hex(r) << ' ' << hex(after.range_factor) << ' '
                       << hex(after.range_init) << ' ' << hex(after.limit_min)
                       << ' ' << rng.consumed();
                }
                os << ' ' << hex(phys.scalars().safety_factor) << ' '
                   << (phys.scalars().step_limit_algorithm
                               == MscStepLimitAlgorithm::safety_plus
                           ? 1
                           : 0);
            }
            else if (kind == "steplimit")
            {
                // steplimit <s0> <c0> <n> {s c}*
                real_type s0 = rd(is);
                int c0;
                is >> c0;
                size_type n;
                is >> n;
                auto& fx = get_p1(0, 0.01, 1000, 0.01);
                auto state = fx.make_state(
                    ParticleId{0}, 1.0, {0.5, 0.25, -1}, {0, 0, 1});
                CoreTrackView track(
                    fx.core->host_ref(), state->ref(), ThreadId{0});
                auto sim = track.make_sim_view();
                sim.reset_step_limit({s0, class_action(track, c0)});
                os << "ok";
                for (size_type i = 0; i < n; ++i)
                {
                    real_type s = rd(is);
                    int c;
                    is >> c;
                    bool lim = sim.step_limit({s, class_action(track, c)});
                    os << ' ' << lim << ' ' << hex(sim.step_length()) << ' '
                       << paction_class(track, sim.post_step_action());
                }
            }
            else if (kind == "physlimit")
            {
                // physlimit <fixed_limit> <pid> <E> <Eset> <vol> <mfpmode> <mfpval>
                real_type fixed_limit = rd(is);
                unsigned pid;
                is >> pid;
                real_type E = rd(is);
                real_type Eset = rd(is);
                int vol, mfpmode;
                is >> vol >> mfpmode;
                real_type mfpval = rd(is);
                auto& fx = get_p2(0.001, fixed_limit);
                auto state = fx.make_state(
                    ParticleId{pid}, E, p2_pos(vol), {0, 0, 1});
                CoreTrackView track(
                    fx.core->host_ref(), state->ref(), ThreadId{0});
                auto particle = track.make_particle_view();
                auto phys = track.make_physics_view();
                auto pstep = track.make_physics_step_view();
                auto mat = track.make_material_view();
                particle.energy(units::MevEnergy{Eset});
                phys.interaction_mfp(mfpval);
                StepLimit lim = calc_physics_step_limit(mat, particle, phys, pstep);
                bool has_eloss = static_cast<bool>(phys.eloss_ppid());
                real_type eloss_step
                    = has_eloss ? phys.range_to_step(phys.dedx_range()) : 0;
                real_type xs = pstep.macro_xs();
                real_type mfp = mfpval;
                if (mfpmode > 0 && has_eloss && xs > 0 && Eset > 0)
                {
                    // aim at the tie eloss_step == mfp / xs
                    mfp = eloss_step * xs;
                    if (mfpmode == 2)
                        mfp = std::nextafter(mfp, 1e300);
                    if (mfpmode == 3)
                        mfp = std::nextafter(mfp, 0.0);
                    phys.interaction_mfp(mfp);
                    lim = calc_physics_step_limit(mat, particle, phys, pstep);
                    eloss_step = phys.range_to_step(phys.dedx_range());
                    xs = pstep.macro_xs();
                }
                os << "ok " << hex(lim.step) << ' '
                   << paction_class(track, lim.action) << ' ' << hex(mfp) << ' '
                   << hex(xs) << ' ' << has_eloss << ' ' << hex(eloss_step)
                   << ' ' << (phys.num_particle_processes() == 0) << ' '
                   << phys.has_at_rest();
            }
            else if (kind == "propagate")
            {
                // propagate <pclass0> <step0> <dist> <boundary> <can_loop>
                int pclass;
                is >> pclass;
                real_type step0 = rd(is);
                real_type dist = rd(is);
                int boundary, can_loop;
                is >> boundary >> can_loop;
                auto& fx = get_p2(0.001);
                auto state
                    = fx.make_state(ParticleId{3}, 2.0, p2_pos(0), {0, 0, 1});
                CoreTrackView track(
                    fx.core->host_ref(), state->ref(), ThreadId{0});
                auto sim = track.make_sim_view();
                sim.reset_step_limit({step0, class_action(track, pclass)});
                Propagation p;
                p.distance = dist;
                p.boundary = boundary != 0;
                p.looping = false;
                auto mp = [&](CoreTrackView const&) {
                    return ScriptedPropagator{p, can_loop != 0};
                };
                detail::PropagationApplier<decltype(mp)> apply{std::move(mp)};
                apply(track);
                os << "ok " << hex(sim.step_length()) << ' '
                   << paction_class(track, sim.post_step_action()) << ' '
                   << static_cast<int>(sim.status());
            }
            else if (kind == "msc")
            {
                // msc <n> { phys_step applicable true geom }*
                size_type n;
                is >> n;
                auto& fx = get_p2(0.001);
                auto state
                    = fx.make_state(ParticleId{3}, 2.0, p2_pos(0), {0, 0, 1});
                CoreTrackView track(
                    fx.core->host_ref(), state->ref(), ThreadId{0});
                auto sim = track.make_sim_view();
                {
                    MscStep zero;
                    zero.true_path = 0;
                    zero.geom_path = 0;
                    track.make_physics_step_view().msc_step(zero);
                }
                os << "ok";
                for (size_type i = 0; i < n; ++i)
                {
                    real_type phys = rd(is);
                    int applicable;
                    is >> applicable;
                    real_type tp = rd(is), gp = rd(is);
                    sim.reset_step_limit({phys, class_action(track, 2)});
                    int applied = 0;
                    ScriptedMsc msc{applicable != 0, tp, gp, &applied};
                    detail::MscStepLimitApplier<ScriptedMsc&>{msc}(track);
                    real_type geo_step = sim.step_length();
                    detail::MscApplier<ScriptedMsc&>{msc}(track);
                    os << ' ' << applied << ' ' << hex(geo_step) << ' '
                       << hex(sim.step_length());
                }
            }
            else if (kind == "update")
            {
                // update <pid> <E> <Eset> <status> <step> <pclass> <mfp> <time0>
                unsigned pid;
                is >> pid;
                real_type E = rd(is);
                real_type Eset = rd(is);
                int status;
                is >> status;
                real_type step = rd(is);
                int pclass;
                is >> pclass;
                real_type mfp = rd(is);
                real_type time0 = rd(is);
                auto& fx = get_p2(0.001);
                auto state
                    = fx.make_state(ParticleId{pid}, E, p2_pos(2), {0, 0, 1});
                CoreTrackView track(
                    fx.core->host_ref(), state->ref(), ThreadId{0});
                auto particle = track.make_particle_view();
                auto sim = track.make_sim_view();
                auto phys = track.make_physics_view();
                auto pstep = track.make_physics_step_view();
                particle.energy(units::MevEnergy{Eset});
                sim.reset_step_limit({step, class_action(track, pclass)});
                sim.status(static_cast<TrackStatus>(status));
                phys.interaction_mfp(mfp);
                sim.add_time(time0);
                real_type t0 = sim.time();
                size_type n0 = sim.num_steps();
                real_type speed = native_value_from(particle.speed());
                detail::TimeUpdater{}(track);
                real_type t1 = sim.time();
                detail::TrackUpdater{}(track);
                os << "ok " << hex(t0) << ' ' << hex(t1) << ' ' << hex(speed)
                   << ' ' << hex(phys.interaction_mfp()) << ' '
                   << hex(pstep.macro_xs()) << ' ' << (sim.num_steps() - n0)
                   << ' ' << hex(particle.mass().value());
            }
            else
            {
                os << "err unknown-kind";
            }
        }
        catch (std::exception const& e)
        {
            std::string m = e.what();
            for (auto& c : m)
                if (c == '\n')
                    c = ' ';
            os.str("");
            os << "err " << m.substr(0, 300);
        }
        std::cout << os.str() << '\n';
    }
    return 0;
}
