// Problem definitions shared by the C01/C05 harnesses: the repo's own test
// problems (SimpleTestBase = Compton in two boxes, MockTestBase = mock physics
// in three spheres) with the knobs the checks vary exposed through the
// fixtures' virtual hooks (no repo code is changed or copied).
#pragma once
#include <memory>
#include <string>

#include "corecel/sys/ActionRegistry.hh"
#include "celeritas/MockTestBase.hh"
#include "celeritas/SimpleTestBase.hh"
#include "celeritas/Constants.hh"
#include "celeritas/Quantities.hh"
#include "celeritas/global/CoreParams.hh"
#include "celeritas/mat/MaterialParams.hh"
#include "celeritas/phys/CutoffParams.hh"
#include "celeritas/phys/PDGNumber.hh"
#include "celeritas/phys/ParticleParams.hh"
#include "celeritas/phys/PhysicsParams.hh"
#include "celeritas/track/TrackInitParams.hh"

namespace verif
{
using namespace celeritas;

struct ProblemConfig
{
    size_type init_capacity{4096};
    real_type stack_factor{1.0};
    // 0: the fixture's own cutoffs (post-interaction cut off)
    // 1: apply_post_interaction with gamma cut 0.01 MeV, electron cut ecut
    int cutmode{0};
    // 2: as 1 but apply_post_interaction = false
    real_type ecut{1000};
    real_type gcut{0.01};
    real_type pcut{0.01};
    bool with_positron{false};
    real_type lowest{0.001};  // lowest_electron_energy (P2)
};

//! SimpleTestBase (P1): Compton-only, gammas/electrons, two boxes
class P1 : public test::SimpleTestBase
{
  public:
    explicit P1(ProblemConfig c) : cfg_(c) {}
    void TestBody() override {}
    using test::SimpleTestBase::core;

  protected:
    real_type secondary_stack_factor() const override
    {
        return cfg_.stack_factor;
    }
    SPConstTrackInit build_init() override
    {
        TrackInitParams::Input input;
        input.capacity = cfg_.init_capacity;
        input.max_events = 4096;
        input.track_order = TrackOrder::none;
        return std::make_shared<TrackInitParams>(input);
    }
    SPConstCutoff build_cutoff() override
    {
        if (cfg_.cutmode == 0)
            return test::SimpleTestBase::build_cutoff();
        using namespace ::celeritas::units;
        CutoffParams::Input input;
        input.materials = this->material();
        input.particles = this->particle();
        input.cutoffs = {
            {pdg::gamma(),
             {{MevEnergy{cfg_.gcut}, 0.1 * millimeter},
              {MevEnergy{cfg_.gcut}, 100 * centimeter}}},
            {pdg::electron(),
             {{MevEnergy{cfg_.ecut}, 1000 * centimeter},
              {MevEnergy{cfg_.ecut}, 1000 * centimeter}}},
        };
        if (cfg_.with_positron)
        {
            input.cutoffs.insert(
                {pdg::positron(),
                 {{MevEnergy{cfg_.pcut}, 0.1 * millimeter},
                  {MevEnergy{cfg_.pcut}, 100 * centimeter}}});
        }
        input.apply_post_interaction = (cfg_.cutmode == 1);
        return std::make_shared<CutoffParams>(std::move(input));
    }
    SPConstParticle build_particle() override
    {
        if (!cfg_.with_positron)
            return test::SimpleTestBase::build_particle();
        using namespace constants;
        using namespace ::celeritas::units;
        ParticleParams::Input defs;
        defs.push_back({"gamma",
                        pdg::gamma(),
                        zero_quantity(),
                        zero_quantity(),
                        stable_decay_constant});
        defs.push_back({"electron",
                        pdg::electron(),
                        MevMass{0.5},
                        ElementaryCharge{-1},
                        stable_decay_constant});
        defs.push_back({"positron",
                        pdg::positron(),
                        MevMass{0.5},
                        ElementaryCharge{1},
                        stable_decay_constant});
        return std::make_shared<ParticleParams>(std::move(defs));
    }

  private:
    ProblemConfig cfg_;
};

//! MockTestBase (P2): mock processes with continuous loss, three spheres
class P2 : public test::MockTestBase
{
  public:
    explicit P2(ProblemConfig c) : cfg_(c) {}
    void TestBody() override {}
    using test::MockTestBase::core;

  protected:
    SPConstTrackInit build_init() override
    {
        TrackInitParams::Input input;
        input.capacity = cfg_.init_capacity;
        input.max_events = 4096;
        input.track_order = TrackOrder::none;
        return std::make_shared<TrackInitParams>(input);
    }
    PhysicsOptions build_physics_options() const override
    {
        PhysicsOptions o;
        o.secondary_stack_factor = cfg_.stack_factor;
        o.lowest_electron_energy = units::MevEnergy{cfg_.lowest};
        return o;
    }

  private:
    ProblemConfig cfg_;
};

}  // namespace verif
