// Problem definitions shared by the C01/C05 harnesses: the repo's own test
// problems (SimpleTestBase = Compton in two boxes, MockTestBase = mock physics
// in three spheres) with the knobs the checks vary exposed through the
// fixtures' virtual hooks (no repo code is changed or copied).
#pragma once
#include <memory>
#include <string>

#include "corecel/sys/ActionRegistry.hh"
#include "celeritas/MockTestBase.hh"
#include "celeritas/SimpleTestBase.hh"
#include "celeritas/Constants.hh"
#include "celeritas/Quantities.hh"
#include "celeritas/global/CoreParams.hh"
#include "celeritas/mat/MaterialParams.hh"
#include "celeritas/phys/CutoffParams.hh"
#include "celeritas/phys/PDGNumber.hh"
#include "celeritas/phys/ParticleParams.hh"
#include "celeritas/phys/PhysicsParams.hh"
#include "celeritas/track/TrackInitParams.hh"
#include "celeritas/track/SimParams.hh"
#include "celeritas/em/params/UrbanMscParams.hh"
#include "celeritas/em/process/ComptonProcess.hh"
#include "celeritas/em/process/EPlusAnnihilationProcess.hh"
#include "celeritas/em/process/GammaConversionProcess.hh"
#include "celeritas/geo/GeoMaterialParams.hh"
#include "celeritas/global/alongstep/AlongStepGeneralLinearAction.hh"
#include "celeritas/io/ImportModel.hh"
#include "celeritas/io/ImportProcess.hh"
#include "celeritas/io/detail/ImportDataConverter.hh"
#include "celeritas/phys/ImportedProcessAdapter.hh"
#include "celeritas/phys/MockProcess.hh"

namespace verif
{
using namespace celeritas;

struct ProblemConfig
{
    size_type init_capacity{4096};
    real_type stack_factor{1.0};
    // 0: the fixture's own cutoffs (post-interaction cut off)
    // 1: apply_post_interaction with gamma cut 0.01 MeV, electron cut ecut
    int cutmode{0};
    // 2: as 1 but apply_post_interaction = false
    real_type ecut{1000};
    real_type gcut{0.01};
    real_type pcut{0.01};
    bool with_positron{false};
    real_type lowest{0.001};  // lowest_electron_energy (P2)
    int track_order{0};  // TrackOrder enum value
    real_type fixed_limit{0};  // PhysicsParamsOptions::fixed_step_limiter
    // option sweep ("every configuration"): <= 0 keeps the problem's default
    bool disable_integral_xs{false};
    real_type linear_loss_limit{0};
    real_type lowest_sweep{0};  // lowest_electron_energy (P3/P4/P5)
    real_type min_range{0};
    real_type msc_emin{0};  // lower end of P4's Urban MSC table [MeV] (default 0.1)
    real_type msc_xs{0};  // P4's scaled MSC cross section xs*E^2 [MeV^2/cm] (default 5)

    //! apply the swept options on top of a problem's own settings
    template<class O>
    void apply(O& o) const
    {
        o.disable_integral_xs = disable_integral_xs;
        if (linear_loss_limit > 0)
            o.linear_loss_limit = linear_loss_limit;
        if (lowest_sweep > 0)
            o.lowest_electron_energy = units::MevEnergy{lowest_sweep};
        if (min_range > 0)
            o.min_range = min_range;
        if (fixed_limit > 0)
            o.fixed_step_limiter = fixed_limit;
    }
};

//! SimpleTestBase (P1): Compton-only, gammas/electrons, two boxes
class P1 : public test::SimpleTestBase
{
  public:
    explicit P1(ProblemConfig c) : cfg_(c) {}
    void TestBody() override {}
    using test::SimpleTestBase::core;
    using test::SimpleTestBase::action_reg;

  protected:
    real_type secondary_stack_factor() const override
    {
        return cfg_.stack_factor;
    }
    SPConstTrackInit build_init() override
    {
        TrackInitParams::Input input;
        input.capacity = cfg_.init_capacity;
        input.max_events = 4096;
        input.track_order = static_cast<TrackOrder>(cfg_.track_order);
        return std::make_shared<TrackInitParams>(input);
    }
    SPConstCutoff build_cutoff() override
    {
        if (cfg_.cutmode == 0)
            return test::SimpleTestBase::build_cutoff();
        using namespace ::celeritas::units;
        CutoffParams::Input input;
        input.materials = this->material();
        input.particles = this->particle();
        input.cutoffs = {
            {pdg::gamma(),
             {{MevEnergy{cfg_.gcut}, 0.1 * millimeter},
              {MevEnergy{cfg_.gcut}, 100 * centimeter}}},
            {pdg::electron(),
             {{MevEnergy{cfg_.ecut}, 1000 * centimeter},
              {MevEnergy{cfg_.ecut}, 1000 * centimeter}}},
        };
        if (cfg_.with_positron)
        {
            input.cutoffs.insert(
                {pdg::positron(),
                 {{MevEnergy{cfg_.pcut}, 0.1 * millimeter},
                  {MevEnergy{cfg_.pcut}, 100 * centimeter}}});
        }
        input.apply_post_interaction = (cfg_.cutmode == 1);
        return std::make_shared<CutoffParams>(std::move(input));
    }
    SPConstParticle build_particle() override
    {
        if (!cfg_.with_positron)
            return test::SimpleTestBase::build_particle();
        using namespace constants;
        using namespace ::celeritas::units;
        ParticleParams::Input defs;
        defs.push_back({"gamma",
                        pdg::gamma(),
                        zero_quantity(),
                        zero_quantity(),
                        stable_decay_constant});
        defs.push_back({"electron",
                        pdg::electron(),
                        MevMass{0.5},
                        ElementaryCharge{-1},
                        stable_decay_constant});
        defs.push_back({"positron",
                        pdg::positron(),
                        MevMass{0.5},
                        ElementaryCharge{1},
                        stable_decay_constant});
        return std::make_shared<ParticleParams>(std::move(defs));
    }

  private:
    ProblemConfig cfg_;
};

//! MockTestBase (P2): mock processes with continuous loss, three spheres
class P2 : public test::MockTestBase
{
  public:
    explicit P2(ProblemConfig c) : cfg_(c) {}
    void TestBody() override {}
    using test::MockTestBase::core;

  protected:
    SPConstTrackInit build_init() override
    {
        TrackInitParams::Input input;
        input.capacity = cfg_.init_capacity;
        input.max_events = 4096;
        input.track_order = static_cast<TrackOrder>(cfg_.track_order);
        return std::make_shared<TrackInitParams>(input);
    }
    PhysicsOptions build_physics_options() const override
    {
        PhysicsOptions o;
        o.secondary_stack_factor = cfg_.stack_factor;
        o.lowest_electron_energy = units::MevEnergy{cfg_.lowest};
        o.fixed_step_limiter = cfg_.fixed_limit;
        {
            real_type keep = o.lowest_electron_energy.value();
            cfg_.apply(o);
            if (!(cfg_.lowest_sweep > 0))
                o.lowest_electron_energy = units::MevEnergy{keep};
        }
        return o;
    }

  private:
    ProblemConfig cfg_;
};

//! P3: SimpleTestBase + positron + Bethe-Heitler pair production with hand-written
//! tables: gammas are ABSORBED with two surviving secondaries (e-, e+ stream out)
class P3 : public P1
{
  public:
    explicit P3(ProblemConfig c) : P1(with_pos(c)), cfg3_(c)
    {
    }

  protected:
    static ProblemConfig with_pos(ProblemConfig c)
    {
        c.with_positron = true;
        if (c.cutmode == 0)
            c.cutmode = 2;
        return c;
    }
    SPConstPhysics build_physics() override
    {
        constexpr double electron_mass = 0.5;
        PhysicsParams::Input input;
        input.options.secondary_stack_factor = cfg3_.stack_factor;
        cfg3_.apply(input.options);
        auto const num_mat = this->material()->size();

        ImportProcess compton;
        compton.particle_pdg = pdg::gamma().get();
        compton.secondary_pdg = pdg::electron().get();
        compton.process_type = ImportProcessType::electromagnetic;
        compton.process_class = ImportProcessClass::compton;
        {
            ImportModel m;
            m.model_class = ImportModelClass::klein_nishina;
            m.materials.resize(num_mat);
            for (auto& imm : m.materials)
                imm.energy = {1e-4, 1e8};
            compton.models.push_back(std::move(m));
        }
        {
            ImportPhysicsTable lambda;
            lambda.table_type = ImportTableType::lambda;
            lambda.x_units = ImportUnits::mev;
            lambda.y_units = ImportUnits::len_inv;
            lambda.physics_vectors = {
                {ImportPhysicsVectorType::log, {1e-4, 1.0}, {1e1, 1e0}},
                {ImportPhysicsVectorType::log, {1e-4, 1.0}, {1e-10, 1e-10}},
            };
            compton.tables.push_back(std::move(lambda));
        }
        {
            ImportPhysicsTable lambdap;
            lambdap.table_type = ImportTableType::lambda_prim;
            lambdap.x_units = ImportUnits::mev;
            lambdap.y_units = ImportUnits::len_mev_inv;
            lambdap.physics_vectors = {
                {ImportPhysicsVectorType::log, {1.0, 1e4, 1e8}, {1e0, 1e-2, 1e-4}},
                {ImportPhysicsVectorType::log,
                 {1.0, 1e4, 1e8},
                 {1e-10, 1e-10, 1e-10}},
            };
            compton.tables.push_back(std::move(lambdap));
        }
        ImportProcess conv;
        conv.particle_pdg = pdg::gamma().get();
        conv.secondary_pdg = pdg::electron().get();
        conv.process_type = ImportProcessType::electromagnetic;
        conv.process_class = ImportProcessClass::conversion;
        {
            ImportModel m;
            m.model_class = ImportModelClass::bethe_heitler_lpm;
            m.materials.resize(num_mat);
            for (auto& imm : m.materials)
                imm.energy = {2 * electron_mass, 1e8};
            conv.models.push_back(std::move(m));
        }
        {
            ImportPhysicsTable lambda;
            lambda.table_type = ImportTableType::lambda;
            lambda.x_units = ImportUnits::mev;
            lambda.y_units = ImportUnits::len_inv;
            // zero at the threshold: below the grid the calculator clamps to the first
            // value, and a gamma under 2 m_e c^2 must never select conversion (no model
            // applies there: select_discrete_interaction would read an invalid model id)
            lambda.physics_vectors = {
                {ImportPhysicsVectorType::log,
                 {2 * electron_mass, 2.5 * electron_mass, 1e8},
                 {0, 0.3, 0.3}},
                {ImportPhysicsVectorType::log,
                 {2 * electron_mass, 2.5 * electron_mass, 1e8},
                 {0, 1e-10, 1e-10}},
            };
            conv.tables.push_back(std::move(lambda));
        }
        {
            celeritas::detail::ImportDataConverter convert{
                celeritas::UnitSystem::cgs};
            convert(&compton);
            convert(&conv);
        }
        auto process_data = std::make_shared<ImportedProcesses>(
            std::vector<ImportProcess>{std::move(compton), std::move(conv)});
        input.particles = this->particle();
        input.materials = this->material();
        GammaConversionProcess::Options conv_opts;
        conv_opts.enable_lpm = false;
        input.processes = {
            std::make_shared<ComptonProcess>(input.particles, process_data),
            std::make_shared<GammaConversionProcess>(
                input.particles, process_data, conv_opts),
        };
        input.action_registry = this->action_reg().get();
        return std::make_shared<PhysicsParams>(std::move(input));
    }

  private:
    ProblemConfig cfg3_;
};

//! the Urban MSC data of P4 (also built by the unit harness to drive the limiter functors)
inline std::shared_ptr<UrbanMscParams>
make_urban_msc(ParticleParams const& particles,
               MaterialParams const& materials,
               ProblemConfig const& cfg_)
{
        std::vector<ImportMscModel> msc_models;
        for (auto pdg : {pdg::electron(), pdg::positron()})
        {
            ImportMscModel m;
            m.particle_pdg = pdg.get();
            m.model_class = ImportModelClass::urban_msc;
            m.xs_table.table_type = ImportTableType::msc_xs;
            m.xs_table.x_units = ImportUnits::mev;
            m.xs_table.y_units = ImportUnits::mev_2_per_cm;
            for (double scale : {1.0, 1e-4})
            {
                ImportPhysicsVector v;
                v.vector_type = ImportPhysicsVectorType::log;
                v.x = {cfg_.msc_emin > 0 ? cfg_.msc_emin : 0.1, 1, 10, 100};
                {
                    double y0 = cfg_.msc_xs > 0 ? cfg_.msc_xs : 5;
                    v.y = {y0 * scale, y0 * scale, y0 * scale, y0 * scale};
                }
                m.xs_table.physics_vectors.push_back(v);
            }
            msc_models.push_back(std::move(m));
        }
        auto msc = std::make_shared<UrbanMscParams>(
            particles, materials, msc_models);
        return msc;
}

//! P4: e-/e+ slowing down (mock continuous loss) in two-boxes with the REAL
//! AlongStepGeneralLinearAction + UrbanMsc, MSC table on [0.1, 100] MeV so that MSC
//! stops being applicable part-way through a track's life
class P4 : virtual public test::GlobalGeoTestBase, public test::OnlyCoreTestBase
{
  public:
    explicit P4(ProblemConfig c) : cfg_(c) {}
    void TestBody() override {}

  protected:
    std::string_view geometry_basename() const override { return "two-boxes"; }
    SPConstMaterial build_material() override
    {
        using namespace units;
        MaterialParams::Input inp;
        inp.elements = {{AtomicNumber{13}, AmuMass{27}, {}, "Al"}};
        inp.materials = {{native_value_from(InvCcDensity{1e21}),
                          293.0,
                          MatterState::solid,
                          {{ElementId{0}, 1.0}},
                          "Al"},
                         {native_value_from(InvCcDensity{1e17}),
                          293.0,
                          MatterState::gas,
                          {{ElementId{0}, 1.0}},
                          "thin-Al"}};
        return std::make_shared<MaterialParams>(std::move(inp));
    }
    SPConstGeoMaterial build_geomaterial() override
    {
        GeoMaterialParams::Input input;
        input.geometry = this->geometry();
        input.materials = this->material();
        input.volume_to_mat = {MaterialId{0}, MaterialId{1}, MaterialId{}};
        input.volume_labels
            = {Label{"inner"}, Label{"world"}, Label{"[EXTERIOR]"}};
        return std::make_shared<GeoMaterialParams>(std::move(input));
    }
    SPConstParticle build_particle() override
    {
        using namespace constants;
        using namespace units;
        ParticleParams::Input defs;
        defs.push_back({"electron",
                        pdg::electron(),
                        MevMass{0.5109989461},
                        ElementaryCharge{-1},
                        stable_decay_constant});
        defs.push_back({"positron",
                        pdg::positron(),
                        MevMass{0.5109989461},
                        ElementaryCharge{1},
                        stable_decay_constant});
        defs.push_back({"gamma",
                        pdg::gamma(),
                        zero_quantity(),
                        zero_quantity(),
                        stable_decay_constant});
        return std::make_shared<ParticleParams>(std::move(defs));
    }
    SPConstCutoff build_cutoff() override
    {
        CutoffParams::Input input;
        input.materials = this->material();
        input.particles = this->particle();
        input.cutoffs = {};
        return std::make_shared<CutoffParams>(std::move(input));
    }
    SPConstPhysics build_physics() override
    {
        using Barn = test::MockProcess::BarnMicroXs;
        PhysicsParams::Input physics_inp;
        physics_inp.materials = this->material();
        physics_inp.particles = this->particle();
        physics_inp.action_registry = this->action_reg().get();
        physics_inp.options.min_range = 1e-3 * units::centimeter;
        physics_inp.options.secondary_stack_factor = cfg_.stack_factor;
        cfg_.apply(physics_inp.options);
        auto make_applic = [this](PDGNumber pdg) {
            Applicability result;
            result.particle = this->particle()->find(pdg);
            result.lower = units::MevEnergy{1e-5};
            result.upper = units::MevEnergy{100};
            return result;
        };
        test::MockProcess::Input inp;
        inp.materials = this->material();
        inp.interact = [](ActionId) {};
        inp.label = "slowing-down";
        inp.use_integral_xs = false;
        inp.applic = {make_applic(pdg::electron())};
        inp.xs = {Barn{0}, Barn{1e-6}, Barn{1e-6}};
        inp.energy_loss = test::MevCmSqLossDens{2e-21};
        physics_inp.processes.push_back(
            std::make_shared<test::MockProcess>(inp));
        inp.label = "slowing-down-plus";
        inp.applic = {make_applic(pdg::positron())};
        physics_inp.processes.push_back(
            std::make_shared<test::MockProcess>(inp));
        return std::make_shared<PhysicsParams>(std::move(physics_inp));
    }
    SPConstSim build_sim() override
    {
        SimParams::Input input;
        input.particles = this->particle();
        return std::make_shared<SimParams>(input);
    }
    SPConstTrackInit build_init() override
    {
        TrackInitParams::Input input;
        input.capacity = cfg_.init_capacity;
        input.max_events = 4096;
        input.track_order = static_cast<TrackOrder>(cfg_.track_order);
        return std::make_shared<TrackInitParams>(input);
    }
    SPConstWentzelOKVI build_wentzel() override { return nullptr; }
    SPConstAction build_along_step() override
    {
        auto msc = make_urban_msc(*this->particle(), *this->material(), cfg_);
        auto& action_reg = *this->action_reg();
        auto result = std::make_shared<AlongStepGeneralLinearAction>(
            action_reg.next_id(), nullptr, msc);
        action_reg.insert(result);
        return result;
    }

  protected:
    ProblemConfig cfg_;
};

//! P5: as P4 without MSC, plus the REAL positron annihilation process (valid at rest):
//! positrons slow down (pure continuous loss), stop and annihilate at rest; with a
//! starved secondary stack a stopped positron can survive a failed annihilation and
//! must retry it in a zero-length step
class P5 : public P4
{
  public:
    explicit P5(ProblemConfig c) : P4(c) {}

  protected:
    SPConstPhysics build_physics() override
    {
        using Barn = test::MockProcess::BarnMicroXs;
        PhysicsParams::Input physics_inp;
        physics_inp.materials = this->material();
        physics_inp.particles = this->particle();
        physics_inp.action_registry = this->action_reg().get();
        physics_inp.options.min_range = 1e-3 * units::centimeter;
        physics_inp.options.secondary_stack_factor = cfg_.stack_factor;
        cfg_.apply(physics_inp.options);
        auto make_applic = [this](PDGNumber pdg) {
            Applicability result;
            result.particle = this->particle()->find(pdg);
            result.lower = units::MevEnergy{1e-5};
            result.upper = units::MevEnergy{100};
            return result;
        };
        test::MockProcess::Input inp;
        inp.materials = this->material();
        inp.interact = [](ActionId) {};
        inp.label = "slowing-down";
        inp.use_integral_xs = false;
        inp.applic = {make_applic(pdg::electron())};
        inp.xs = {Barn{0}, Barn{1e-6}, Barn{1e-6}};
        inp.energy_loss = test::MevCmSqLossDens{2e-21};
        physics_inp.processes.push_back(
            std::make_shared<test::MockProcess>(inp));
        // positron: continuous loss only (no discrete mock model to be selected)
        inp.label = "slowing-down-plus";
        inp.applic = {make_applic(pdg::positron())};
        inp.xs = {};
        physics_inp.processes.push_back(
            std::make_shared<test::MockProcess>(inp));
        EPlusAnnihilationProcess::Options aopts;
        physics_inp.processes.push_back(
            std::make_shared<EPlusAnnihilationProcess>(this->particle(), aopts));
        return std::make_shared<PhysicsParams>(std::move(physics_inp));
    }
    SPConstAction build_along_step() override
    {
        auto& action_reg = *this->action_reg();
        auto result = std::make_shared<AlongStepGeneralLinearAction>(
            action_reg.next_id(), nullptr, nullptr);
        action_reg.insert(result);
        return result;
    }
};

}  // namespace verif
