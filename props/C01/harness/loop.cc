// C01/C05 stepping-loop harness: runs the REAL celeritas::Stepper on the
// repo's own test problems and prints every step record gathered through the
// public StepInterface (StepSelection::all()).
//
// stdin, one run per line:
//   run <P1|P2> <cutmode> <ecut> <seed> <slots> <capacity> <stack_factor>
//       <kill_at_iter(-1=never)> <max_iters> <track_order> <fixed_step_limiter>
//       <disable_integral_xs> <linear_loss_limit> <lowest_electron_energy> <min_range> <msc_emin> <msc_xs>  (<=0: default)
//       <nprim> { pid E x y z dx dy dz evt }*
// stdout per run:
//   BEGIN <echo>
//   PART <id> <label> <mass> <anti>
//   ACT  <id> <label>            (boundary / tracking-cut / failure... by label)
//   MODELACT <first> <end>       (action ids of the discrete interaction models)
//   S <iter> <slot> <event> <track> <parent> <nsteps> <action> <particle>
//     <steplen> <edep>  <t0 x0 y0 z0 dx0 dy0 dz0 vol0 E0>  <t1 ... E1>
//     <vol_mid> <vol_post> <vol_nudged> <status after the step>
//     <step limit right after pre-step> <status right after pre-step>   (read by an own
//      user_pre action from sim.step_length / sim.status; "nan"/-1 if not recorded)
//   (vol_* = independent point location by a fresh geometry initialisation at
//    the step midpoint, the post point (-3: on a boundary, not located) and the
//    post point nudged 1e-6 along the direction; -1 outside, -2 failed)
//   LIVE <slot> <event> <track> <particle> <E>   (slots still alive at the end)
//   K <iter>                     (kill_active was called before this iteration)
//   EXC <message>                (stepper threw)
//   END <iters> <alive> <queued>
#include "../../../harness/common.hh"

#include "corecel/data/CollectionStateStore.hh"
#include "corecel/io/Logger.hh"
#include "geocel/Types.hh"
#include "celeritas/geo/GeoData.hh"
#include "celeritas/geo/GeoParams.hh"
#include "celeritas/geo/GeoTrackView.hh"
#include "corecel/sys/ActionInterface.hh"
#include "celeritas/global/ActionInterface.hh"
#include "celeritas/global/CoreState.hh"
#include "celeritas/global/Stepper.hh"
#include "celeritas/phys/ParticleView.hh"
#include "celeritas/phys/Primary.hh"
#include "celeritas/user/StepCollector.hh"
#include "celeritas/user/StepInterface.hh"

#include "problems.hh"

using namespace celeritas;
using verif::hex;

namespace
{
//! What an own action at StepActionOrder::user_pre sees: the physics limit
struct PreData
{
    std::vector<double> limit;
    std::vector<int> status;
};

class PreRecorder final : public CoreStepActionInterface, public ConcreteAction
{
  public:
    PreRecorder(ActionId id, std::shared_ptr<PreData> d)
        : ConcreteAction{id, "verif-pre-recorder"}, data_(std::move(d))
    {
    }
    void step(CoreParams const&, CoreStateHost& state) const final
    {
        auto const& sim = state.ref().sim;
        data_->limit.assign(state.size(), std::nan(""));
        data_->status.assign(state.size(), -1);
        for (auto tid : range(TrackSlotId{state.size()}))
        {
            data_->limit[tid.get()] = sim.step_length[tid];
            data_->status[tid.get()] = static_cast<int>(sim.status[tid]);
        }
    }
    void step(CoreParams const&, CoreStateDevice&) const final {}
    StepActionOrder order() const final { return StepActionOrder::user_pre; }

  private:
    std::shared_ptr<PreData> data_;
};

class Collector final : public StepInterface
{
  public:
    using GeoStore = CollectionStateStore<GeoStateData, MemSpace::host>;

    Collector(std::shared_ptr<GeoParams const> geo) : geo_(std::move(geo))
    {
        gstate_ = GeoStore(geo_->host_ref(), 1);
    }
    Filters filters() const final { return {}; }
    StepSelection selection() const final { return StepSelection::all(); }
    void process_steps(DeviceStepState) final {}

    int locate(Real3 const& pos, Real3 const& dir)
    {
        GeoTrackView g(geo_->host_ref(), gstate_.ref(), TrackSlotId{0});
        g = GeoTrackInitializer{pos, dir};
        if (g.failed())
            return -2;
        if (g.is_outside())
            return -1;
        return static_cast<int>(g.volume_id().get());
    }

    void process_steps(HostStepState state) final
    {
        auto const& d = state.steps.data;
        auto const& pre = d.points[StepPoint::pre];
        auto const& post = d.points[StepPoint::post];
        for (auto tid : range(TrackSlotId{d.size()}))
        {
            TrackId track = d.track_id[tid];
            if (!track)
                continue;
            auto id = [](auto const& v) {
                return v ? static_cast<long>(v.unchecked_get()) : -1l;
            };
            std::ostringstream os;
            os << "S " << iter << ' ' << tid.get() << ' '
               << id(d.event_id[tid]) << ' ' << id(track) << ' '
               << id(d.parent_id[tid]) << ' ' << d.track_step_count[tid] << ' '
               << id(d.action_id[tid]) << ' ' << id(d.particle[tid]) << ' '
               << hex(d.step_length[tid]) << ' '
               << hex(d.energy_deposition[tid].value());
            for (auto const* p : {&pre, &post})
            {
                os << ' ' << hex(p->time[tid]);
                for (int i = 0; i < 3; ++i)
                    os << ' ' << hex(p->pos[tid][i]);
                for (int i = 0; i < 3; ++i)
                    os << ' ' << hex(p->dir[tid][i]);
                os << ' ' << id(p->volume_id[tid]) << ' '
                   << hex(p->energy[tid].value());
            }
            // independent point location (fresh initialisation)
            Real3 const& a = pre.pos[tid];
            Real3 const& b = post.pos[tid];
            Real3 mid{(a[0] + b[0]) / 2, (a[1] + b[1]) / 2, (a[2] + b[2]) / 2};
            Real3 const& pd = post.dir[tid];
            Real3 nudged{b[0] + 1e-6 * pd[0],
                         b[1] + 1e-6 * pd[1],
                         b[2] + 1e-6 * pd[2]};
            bool on_bnd = (d.action_id[tid] == boundary_action);
            os << ' ' << locate(mid, pre.dir[tid]) << ' '
               << (on_bnd ? -3 : locate(b, pd)) << ' ' << locate(nudged, pd);
            os << ' '
               << (status ? static_cast<int>((*status)[tid]) : -1);
            if (pre_data && tid.get() < pre_data->limit.size())
            {
                os << ' ' << hex(pre_data->limit[tid.get()]) << ' '
                   << pre_data->status[tid.get()];
            }
            else
            {
                os << " nan -1";
            }
            std::cout << os.str() << '\n';
        }
    }

    long iter{0};
    ActionId boundary_action;
    std::shared_ptr<PreData> pre_data;
    StateCollection<TrackStatus, Ownership::reference, MemSpace::host> const* status{
        nullptr};

  private:
    std::shared_ptr<GeoParams const> geo_;
    GeoStore gstate_;
};

std::string nested_what(std::exception const& e)
{
    std::string m = e.what();
    try
    {
        std::rethrow_if_nested(e);
    }
    catch (std::exception const& inner)
    {
        m += " <- " + nested_what(inner);
    }
    catch (...)
    {
    }
    for (auto& c : m)
        if (c == '\n')
            c = ' ';
    return m;
}

template<class P>
void run_problem(P& prob,
                 std::vector<Primary> prims,
                 unsigned seed,
                 size_type slots,
                 long kill_at,
                 long max_iters)
{
    auto core = prob.core();
    // tables for the monitor
    auto const& pp = *core->particle();
    for (auto pid : range(ParticleId{pp.size()}))
    {
        auto pv = pp.get(pid);
        std::cout << "PART " << pid.get() << ' ' << pp.id_to_label(pid) << ' '
                  << hex(pv.mass().value()) << ' ' << pv.is_antiparticle()
                  << '\n';
    }
    auto const& ar = *core->action_reg();
    for (auto aid : range(ActionId{ar.num_actions()}))
    {
        std::cout << "ACT " << aid.get() << ' ' << ar.id_to_label(aid) << '\n';
    }

    {
        auto const& sc = core->physics()->host_ref().scalars;
        std::cout << "MODELACT " << sc.model_to_action << ' '
                  << sc.model_to_action + sc.num_models << '\n';
    }

    auto coll = std::make_shared<Collector>(core->geometry());
    StepCollector::make_and_insert(*core, {coll});
    coll->pre_data = std::make_shared<PreData>();
    {
        auto& areg = *prob.action_reg();
        areg.insert(
            std::make_shared<PreRecorder>(areg.next_id(), coll->pre_data));
    }

    StepperInput si;
    si.params = core;
    si.stream_id = StreamId{0};
    si.num_track_slots = slots;
    Stepper<MemSpace::host> step(si);
    step.reseed(UniqueEventId{seed});
    coll->boundary_action = core->host_ref().scalars.boundary_action;
    coll->status = &step.state_ref().sim.status;

    long iters = 0;
    StepperResult counts;
    try
    {
        coll->iter = iters;
        counts = step(make_span(prims));
        ++iters;
        while (counts && iters < max_iters)
        {
            if (iters == kill_at)
            {
                std::cout << "K " << iters << '\n';
                step.kill_active();
            }
            coll->iter = iters;
            counts = step();
            ++iters;
        }
    }
    catch (std::exception const& e)
    {
        std::cout << "EXC " << nested_what(e) << '\n';
    }
    {
        auto const& st = step.state_ref();
        for (auto tid : range(TrackSlotId{st.size()}))
        {
            if (st.sim.status[tid] == TrackStatus::inactive)
                continue;
            std::cout << "LIVE " << tid.get() << ' '
                      << st.sim.event_ids[tid].unchecked_get() << ' '
                      << st.sim.track_ids[tid].unchecked_get() << ' '
                      << st.particles.particle_id[tid].unchecked_get() << ' '
                      << hex(st.particles.particle_energy[tid]) << ' '
                      << static_cast<int>(st.sim.status[tid]) << '\n';
        }
    }
    std::cout << "END " << iters << ' ' << counts.alive << ' ' << counts.queued
              << '\n';
}
}  // namespace

int main()
{
    std::string line;
    while (std::getline(std::cin, line))
    {
        if (line.empty())
            continue;
        std::istringstream is(line);
        std::string cmd, prob;
        is >> cmd >> prob;
        verif::ProblemConfig cfg;
        unsigned seed;
        size_type slots;
        long kill_at, max_iters;
        size_type nprim;
        is >> cfg.cutmode;
        cfg.ecut = verif::rd(is);
        is >> seed >> slots >> cfg.init_capacity;
        cfg.stack_factor = verif::rd(is);
        is >> kill_at >> max_iters >> cfg.track_order;
        cfg.fixed_limit = verif::rd(is);
        {
            int dix;
            is >> dix;
            cfg.disable_integral_xs = (dix != 0);
            cfg.linear_loss_limit = verif::rd(is);
            cfg.lowest_sweep = verif::rd(is);
            cfg.min_range = verif::rd(is);
            cfg.msc_emin = verif::rd(is);
            cfg.msc_xs = verif::rd(is);
        }
        is >> nprim;
        std::vector<Primary> prims(nprim);
        for (auto& p : prims)
        {
            unsigned pid, evt;
            is >> pid;
            p.particle_id = ParticleId{pid};
            p.energy = units::MevEnergy{verif::rd(is)};
            for (int i = 0; i < 3; ++i)
                p.position[i] = verif::rd(is);
            for (int i = 0; i < 3; ++i)
                p.direction[i] = verif::rd(is);
            is >> evt;
            p.event_id = EventId{evt};
            p.time = 0;
        }
        std::cout << "BEGIN " << line.substr(0, 120) << '\n';
        try
        {
            if (prob == "P1")
            {
                verif::P1 p(cfg);
                run_problem(p, prims, seed, slots, kill_at, max_iters);
            }
            else if (prob == "P2")
            {
                verif::P2 p(cfg);
                run_problem(p, prims, seed, slots, kill_at, max_iters);
            }
            else if (prob == "P3")
            {
                verif::P3 p(cfg);
                run_problem(p, prims, seed, slots, kill_at, max_iters);
            }
            else if (prob == "P5")
            {
                verif::P5 p(cfg);
                run_problem(p, prims, seed, slots, kill_at, max_iters);
            }
            else if (prob == "P4")
            {
                verif::P4 p(cfg);
                run_problem(p, prims, seed, slots, kill_at, max_iters);
            }
            else
            {
                std::cout << "EXC unknown problem\nEND 0 0 0\n";
            }
        }
        catch (std::exception const& e)
        {
            std::string m = e.what();
            for (auto& c : m)
                if (c == '\n')
                    c = ' ';
            std::cout << "EXC setup: " << m << "\nEND 0 0 0\n";
        }
        std::cout.flush();
    }
    return 0;
}
