"""C06 -- tie of the re-indexing model (coq/C06/Reindex.v) to the real host functions.

harness/reindex.cc runs fill_sequence, shuffle_track_slots, sort_tracks,
count_tracks_per_action and backfill_action_count on generated status / action /
particle arrays; the outputs are compared EXACTLY with the model
(coq/C06/ReindexRun.v): permutation-ness, sortedness, the (unique) sorted key
sequence, the offsets table; the property oracle (every thread of action a lies
in [offsets[a], offsets[a+1]), ranges monotone and inside [0, n], offsets = prefix
sums of the counts when all ids are valid) is applied to the C++ outputs.
A few source shapes the model relies on (launch loops, thread->slot map,
conditional executor, get_action_range) are checked by regular expressions.
"""
import os
import re

import vlib

HERE = os.path.dirname(os.path.abspath(__file__))
PRE = ("From Coq Require Import List Bool Arith NArith.\n"
       "From Celer Require Import C06.Reindex C06.ReindexRun C06.Reseed.\n"
       "Import ListNotations.\n")
ORDERS = {"status": "reindex_status", "particle": "reindex_particle_type",
          "along": "reindex_along_step_action", "post": "reindex_step_limit_action"}


def cq_nat_list(l):
    return "[" + "; ".join(str(x) for x in l) + "]"


def cq_aid(x):
    return "None" if x is None or x < 0 else "(Some %d)" % x


def cq_aid_list(l):
    return "[" + "; ".join(cq_aid(x) for x in l) + "]"


def cq_state(c):
    return "(mk_state %s %s %s %s)" % (cq_nat_list(c["status"]), cq_aid_list(c["along"]),
                                      cq_aid_list(c["post"]), cq_aid_list(c["particle"]))


def ints(l):
    return " ".join(str(-1 if x is None else x) for x in l)


def norm_opt(l):
    """python view of a list of ids: -1 -> None"""
    return [None if x < 0 else x for x in l]


# ---------------------------------------------------------------------------
# source shapes

SHAPES = [
    ("src/celeritas/global/ActionLauncher.hh",
     r"for \(size_type i = 0, size = state\.size\(\); i != size; \+\+i\)\s*\{\s*CELER_TRY_HANDLE_CONTEXT\(\s*execute_thread\(ThreadId\{i\}\)",
     "launch_core: sequential loop over ALL threads 0..size-1 calling execute_thread(ThreadId{i})"),
    ("src/celeritas/global/ActionLauncher.hh",
     r"void launch_action\([^)]*\)\s*\{\s*return launch_core\(\s*action\.label\(\), params, state, std::forward<F>\(execute_thread\)\);",
     "launch_action (host) forwards to launch_core"),
    ("src/celeritas/global/TrackExecutor.hh",
     r"CoreTrackView track\(\*params_, \*state_, thread\);\s*if \(!applies_\(track\.make_sim_view\(\)\)\)\s*\{\s*return;\s*\}\s*return execute_track_\(track\);",
     "ConditionalTrackExecutor: skip the slot unless applies_(sim view of the thread's slot)"),
    ("src/celeritas/global/TrackExecutor.hh",
     r"CoreTrackView track\(\*params_, \*state_, thread\);\s*return execute_track_\(track\);",
     "TrackExecutor: executes the track view of the thread"),
    ("src/celeritas/global/TrackExecutor.hh",
     r"make_action_track_executor\([^)]*\)\s*\{\s*CELER_EXPECT\(action\);\s*return ConditionalTrackExecutor\{params,\s*state,\s*IsStepActionEqual\{action\},",
     "make_action_track_executor guards with IsStepActionEqual{action}"),
    ("src/celeritas/global/TrackExecutor.hh",
     r"make_along_step_track_executor\([^)]*\)\s*\{\s*CELER_EXPECT\(action\);\s*return ConditionalTrackExecutor\{params,\s*state,\s*IsAlongStepActionEqual\{action\},",
     "make_along_step_track_executor guards with IsAlongStepActionEqual{action}"),
    ("src/celeritas/track/SimFunctors.hh",
     r"struct IsStepActionEqual\s*\{\s*ActionId action;\s*template<class T>\s*CELER_FUNCTION bool operator\(\)\(T const& sim\) const\s*\{\s*return sim\.post_step_action\(\) == this->action;",
     "IsStepActionEqual compares the slot's post_step_action"),
    ("src/celeritas/track/SimFunctors.hh",
     r"struct IsAlongStepActionEqual\s*\{\s*ActionId action;\s*template<class T>\s*CELER_FUNCTION bool operator\(\)\(T const& sim\) const\s*\{\s*(?:CELER_EXPECT\([^;]*;\s*)?return sim\.along_step_action\(\) == this->action;",
     "IsAlongStepActionEqual compares the slot's along_step_action"),
    ("src/celeritas/global/CoreTrackView.hh",
     r"track_slot_id_ = TrackSlotId\{states_\.track_slots\.empty\(\)\s*\?\s*thread_id_\.get\(\)\s*:\s*states_\.track_slots\[thread_id_\]\};",
     "CoreTrackView: slot = track_slots.empty() ? thread : track_slots[thread]"),
    ("src/celeritas/global/CoreState.cc",
     r"return \{thread_offsets\[action_id\], thread_offsets\[action_id \+ 1\]\};",
     "get_action_range = [offsets[a], offsets[a+1])"),
    ("src/celeritas/global/ActionLauncher.device.hh",
     r"return \(\*this\)\(state\.get_action_range\(action\.action_id\(\)\),\s*state\.stream_id\(\),\s*execute_thread\);",
     "device ActionLauncher launches over get_action_range(action_id)"),
    ("src/celeritas/global/detail/TrackSlotUtils.cc",
     r"auto seed = static_cast<unsigned int>\(track_slots->size\(\)\);\s*std::mt19937 g\{seed\};\s*std::shuffle\(start, start \+ track_slots->size\(\), g\);",
     "shuffle_track_slots: std::shuffle with mt19937 seeded by the slot count only"),
    ("src/celeritas/global/CoreTrackData.cc",
     r"resize\(&state->track_slots, size\);\s*fill_sequence\(&state->track_slots, stream_id\);\s*if \(params\.init\.track_order == TrackOrder::reindex_shuffle\)",
     "resize: track_slots = fill_sequence, shuffled only for reindex_shuffle"),
    ("src/celeritas/track/SortTracksAction.cc",
     r"detail::sort_tracks\(state\.ref\(\), track_order_\);\s*if \(is_sort_by_action\(track_order_\)\)\s*\{\s*detail::count_tracks_per_action\(\s*state\.ref\(\),\s*state\.action_thread_offsets\(\)\[AllItems<ThreadId, MemSpace::host>\{\}\],",
     "SortTracksAction::step (host): sort_tracks then count_tracks_per_action for action orders"),
    ("src/celeritas/track/detail/TrackSortUtils.hh",
     r"return action_\.get\(\)\[track_slots_\.get\(\)\[tid\.get\(\)\]\];",
     "ActionAccessor: action_[track_slots_[tid]]"),
    ("src/celeritas/track/detail/TrackSortUtils.hh",
     r"return status_\.get\(\)\[track_slot\] != TrackStatus::inactive;",
     "IsNotInactive predicate"),
]


def check_shapes(ctx):
    bad = []
    for rel, rx, what in SHAPES:
        p = os.path.join(vlib.REPO, rel)
        try:
            src = open(p, errors="replace").read()
        except OSError:
            bad.append("%s: %s (file missing)" % (rel, what))
            continue
        if not re.search(rx, src):
            bad.append("%s: %s" % (rel, what))
    ctx.coverage["reindex_shape_checks"] = len(SHAPES)
    return bad


# ---------------------------------------------------------------------------
# generators

def gen_actions(rng, n, nact):
    """slot -> action id; shapes aimed at the case split of the proofs: all valid,
    some/all invalid, few distinct ids, first/last ids absent"""
    mode = rng.choice(["all", "some_invalid", "all_invalid", "few", "no_first", "no_last", "single"])
    if mode == "all_invalid":
        return [None] * n
    lo, hi = 0, nact - 1
    if mode == "no_first" and nact > 1:
        lo = rng.randint(1, nact - 1)
    if mode == "no_last" and nact > 1:
        hi = rng.randint(0, nact - 2)
    if mode == "few":
        pool = [rng.randint(0, nact - 1) for _ in range(2)]
    elif mode == "single":
        pool = [rng.randint(0, nact - 1)]
    else:
        pool = list(range(lo, hi + 1))
    out = [rng.choice(pool) for _ in range(n)]
    if mode in ("some_invalid", "few") or rng.random() < 0.3:
        p = rng.choice([0.1, 0.5, 0.9])
        out = [None if rng.random() < p else x for x in out]
    return out


def gen_case(rng, n, nact):
    st_mode = rng.choice(["mixed", "mixed", "none_inactive", "all_inactive", "one_active"])
    if st_mode == "none_inactive":
        status = [rng.randint(1, 4) for _ in range(n)]
    elif st_mode == "all_inactive":
        status = [0] * n
    elif st_mode == "one_active":
        status = [0] * n
        status[rng.randrange(n)] = rng.randint(1, 4)
    else:
        status = [rng.choice([0, 0, 1, 2, 2, 3, 4]) for _ in range(n)]
    ts = list(range(n))
    if rng.random() < 0.7:
        rng.shuffle(ts)
    return {"n": n, "nact": nact, "status": status,
            "along": gen_actions(rng, n, nact), "post": gen_actions(rng, n, nact),
            "particle": [rng.choice([0, 1, 2, None]) if rng.random() < 0.2 else rng.randint(0, 2) for _ in range(n)],
            "ts": ts}


def key_of(c, order):
    if order == "status":
        return lambda s: 1 if c["status"][s] == 0 else 0
    arr = c[{"along": "along", "post": "post", "particle": "particle"}[order]]
    big = 1 << 40
    return lambda s: big if arr[s] is None else arr[s]


def oracle_offsets(keys, offs, n, nact):
    """property oracle on the implementation's offsets for SORTED thread keys;
    returns a description of the first failure or None"""
    if len(offs) != nact + 1 or any(o is None for o in offs):
        return "offsets table has invalid entries: %r" % (offs,)
    if offs[nact] != n:
        return "offsets.back() = %r is not the number of threads %d" % (offs[nact], n)
    for a in range(nact):
        if not (0 <= offs[a] <= offs[a + 1] <= n):
            return "ranges not monotone inside [0, n]: offsets[%d] = %d, offsets[%d] = %d" % (a, offs[a], a + 1, offs[a + 1])
    for t, k in enumerate(keys):
        if k is None:
            continue
        if not (offs[k] <= t < offs[k + 1]):
            return "thread %d has action %d but lies outside its range [%d, %d): the action's launch skips it" % (t, k, offs[k], offs[k + 1])
    for a in range(nact):
        for t in range(offs[a], offs[a + 1]):
            if keys[t] is not None and keys[t] != a:
                return "thread %d (action %r) lies inside the range of action %d" % (t, keys[t], a)
    if all(k is not None for k in keys):
        acc = 0
        for a in range(nact + 1):
            if offs[a] != acc:
                return "offsets[%d] = %d is not the prefix sum %d of the per-action counts" % (a, offs[a], acc)
            acc += sum(1 for k in keys if k == a)
    return None


# ---------------------------------------------------------------------------

def run_reindex(ctx):
    """returns the number of violations reported"""
    rng = ctx.rng
    quick = ctx.tier == "quick"
    nviol = 0

    def report(kind, what, rep, **kw):
        nonlocal nviol
        nviol += 1
        if nviol <= 4:
            ctx.violation(kind, what, rep, **kw)

    bad = check_shapes(ctx)
    if bad:
        report("tie-broken", "re-indexing source shape no longer recognised: %s" % bad[0],
               {"unrecognised_shapes": bad}, no_input=True)

    ok, log = ctx.coq_build(["C06/ReindexRun.vo", "C06/Reseed.vo"])
    if not ok:
        raise vlib.BuildError("C06/ReindexRun.vo does not build", log)
    ctx.build_libs(["celeritas"])
    exe = ctx.compile_harness([os.path.join(HERE, "harness", "reindex.cc")], "reindex",
                              libs=["celeritas", "orange", "geocel", "corecel"])

    sizes = [1, 2, 3, 4, 5, 8, 13, 33] if quick else [1, 2, 3, 4, 5, 8, 13, 33, 64, 100, 150]
    nacts = [1, 2, 3, 5, 9] if quick else [1, 2, 3, 5, 9, 28]
    n_sort = 70 if quick else 400
    n_count = 40 if quick else 250
    n_back = 40 if quick else 250

    cmds = []     # (kind, case, command line)
    # fill + shuffle: the permutation performed depends on the count only
    for n in sizes:
        cmds.append(("F", {"n": n}, "F %d" % n))
        cmds.append(("H0", {"n": n}, "H %d %s" % (n, ints(range(n)))))
        l = list(range(n))
        rng.shuffle(l)
        cmds.append(("H", {"n": n, "ts": l}, "H %d %s" % (n, ints(l))))
    for i in range(n_sort):
        n = rng.choice(sizes)
        nact = rng.choice(nacts)
        c = gen_case(rng, n, nact)
        c["order"] = ["status", "particle", "along", "post"][i % 4]
        cmds.append(("S", c, "S %s %d %d 1 %s %s %s %s %s" % (
            c["order"], n, nact, ints(c["status"]), ints(c["along"]), ints(c["post"]), ints(c["particle"]), ints(c["ts"]))))
    for i in range(n_count):
        # count_tracks_per_action alone, on UNSORTED track_slots too (the model mirrors the loop)
        n = rng.choice(sizes)
        nact = rng.choice(nacts)
        c = gen_case(rng, n, nact)
        c["order"] = ["along", "post"][i % 2]
        cmds.append(("C", c, "C %s %d %d %s %s %s" % (c["order"], n, nact, ints(c["along"]), ints(c["post"]), ints(c["ts"]))))
    for i in range(n_back):
        noffs = rng.choice([2, 2, 3, 4, 6, 10])
        n = rng.choice(sizes)
        mode = rng.choice(["rand", "all_invalid", "none_invalid", "last_invalid"])
        offs = [None if rng.random() < 0.5 else rng.randint(0, n) for _ in range(noffs)]
        if mode == "all_invalid":
            offs = [None] * noffs
        elif mode == "none_invalid":
            offs = [rng.randint(0, n) for _ in range(noffs)]
        elif mode == "last_invalid":
            offs[-1] = None
        cmds.append(("B", {"noffs": noffs, "n": n, "offs": offs}, "B %d %d %s" % (noffs, n, ints(offs))))

    # reseed_rng: same (seed, event, slot count) on states owned by different streams, plus an
    # "alias" run (size 1, event = event*size + slot) that must produce the same generator
    rs_groups = []
    for gi in range(6 if quick else 30):
        seed = rng.choice([12345, rng.randint(0, 2**31 - 1)])
        size = rng.choice([1, 2, 3, 5, 8])
        event = rng.choice([0, 1, rng.randint(2, 1000), rng.randint(1000, 2**20)])
        streams = [0, rng.choice([1, 1, 2, 7]), rng.choice([1, 3, 15])]
        slot = rng.randrange(size)
        grp = []
        for st in streams:
            grp.append({"seed": seed, "size": size, "event": event, "stream": st})
        grp.append({"seed": seed, "size": 1, "event": event * size + slot, "stream": rng.choice([0, 1, 4]), "alias_of_slot": slot})
        rs_groups.append(grp)
        for c in grp:
            cmds.append(("R", c, "R %d %d %d %d" % (c["seed"], c["size"], c["event"], c["stream"])))

    rc, out = ctx.run_harness(exe, [], input="\n".join(c[2] for c in cmds) + "\n", timeout=300)
    lines = [ln for ln in out.splitlines() if ln.startswith(("T", "O", "G"))]
    if rc != 0 or len(lines) != len(cmds):
        raise vlib.BuildError("reindex harness failed (rc=%d, %d lines for %d commands)" % (rc, len(lines), len(cmds)), out[-2000:])

    def parse(ln):
        ts, offs = None, None
        if ln.startswith("G"):
            w = ln.split()[1:]
            return [tuple(w[i:i + 6]) for i in range(0, len(w), 6)], None
        for part in ln.split("|"):
            tok = part.split()
            if tok[0] == "T":
                ts = [int(x) for x in tok[1:]]
            elif tok[0] == "O":
                offs = norm_opt([int(x) for x in tok[1:]])
        return ts, offs

    # ---- model evaluation ---------------------------------------------------
    pi = {}
    exprs = []
    index = []
    parsed = []
    for (kind, c, line), ln in zip(cmds, lines):
        ts, offs = parse(ln)
        parsed.append((ts, offs))
        if kind == "H0":
            pi[c["n"]] = ts
    for (kind, c, line), (ts, offs) in zip(cmds, parsed):
        if kind == "F":
            exprs.append("run_fill %d" % c["n"])
            index.append(1)
        elif kind == "H":
            exprs.append("run_shuffle %s %s" % (cq_nat_list(pi[c["n"]]), cq_nat_list(c["ts"])))
            index.append(1)
        elif kind == "S":
            exprs.append("run_sort_check %s %s %s %s" % (ORDERS[c["order"]], cq_state(c), cq_nat_list(c["ts"]), cq_nat_list(ts)))
            n_e = 1
            if c["order"] in ("along", "post"):
                exprs.append("run_count %s %s %s %d" % (ORDERS[c["order"]], cq_state(c), cq_nat_list(ts), c["nact"] + 1))
                exprs.append("run_ranges %s" % ("[" + "; ".join("None" if o is None else "Some %d" % o for o in offs) + "]"))
                n_e = 3
            index.append(n_e)
        elif kind == "C":
            exprs.append("run_count %s %s %s %d" % (ORDERS[c["order"]], cq_state(c), cq_nat_list(c["ts"]), c["nact"] + 1))
            index.append(1)
        elif kind == "R":
            exprs.append("run_reseed_subsequences %d%%N %d%%N %d%%N %d%%N" % (c["seed"], c["size"], c["stream"], c["event"]))
            index.append(1)
        elif kind == "B":
            exprs.append("run_backfill %s %d" % ("[" + "; ".join("None" if o is None else "Some %d" % o for o in c["offs"]) + "]", c["n"]))
            index.append(1)
        else:
            index.append(0)
    vals = ctx.coq_eval("reindex", PRE, exprs, chunk=max(1, (len(exprs) + 1) // 2))

    # ---- comparison -----------------------------------------------------------
    pos = 0
    ncmp = 0
    for (kind, c, line), (ts, offs), k in zip(cmds, parsed, index):
        mv = vals[pos:pos + k]
        pos += k
        rep = {"harness": exe, "stdin": line, "cxx_output": {"track_slots": ts, "offsets": offs}}
        if kind == "R":
            c["states"], c["subseq"] = ts, mv[0]
            continue
        if kind == "H0":
            n = c["n"]
            if sorted(ts) != list(range(n)):
                report("property", "shuffle_track_slots does not produce a permutation of 0..%d" % (n - 1), rep)
            ctx.case(("shuffle0", n), nontrivial=n > 1)
            continue
        ncmp += 1
        ctx.count("reindex:%s" % kind)
        if kind == "F":
            if ts != mv[0]:
                report("tie", "fill_sequence differs from the model (fill_track_slots)", dict(rep, model=mv[0]))
            ctx.case(("fill", c["n"]), nontrivial=False)
        elif kind == "H":
            if sorted(ts) != list(range(c["n"])):
                report("property", "shuffle_track_slots does not produce a permutation of its input", rep)
            elif ts != mv[0]:
                report("tie", "shuffle_track_slots is not the position permutation determined by the slot count (model: shuffle_track_slots)",
                       dict(rep, model=mv[0], permutation_observed_on_identity=pi[c["n"]]))
            ctx.case(("shuffle", c["n"], c["ts"]), nontrivial=c["n"] > 1)
        elif kind == "S":
            n, nact, order = c["n"], c["nact"], c["order"]
            key = key_of(c, order)
            keys = [key(s) for s in ts] if sorted(ts) == list(range(n)) else None
            # property oracle on the implementation's output
            if keys is None:
                report("property", "sort_tracks(%s) output is not a permutation of the slots (a slot is dropped or duplicated)" % order, rep)
                continue
            if any(keys[i] > keys[i + 1] for i in range(n - 1)):
                report("property", "sort_tracks(%s) output is not ordered by its key" % order, dict(rep, keys=keys))
                continue
            sc = mv[0]
            if sc is None or sc[0] is not True or sc[1] is not True or sc[2] != sc[3]:
                report("tie", "sort_tracks(%s): model check (permutation, sorted, key sequence = key sequence of the model's sort) fails" % order,
                       dict(rep, model=sc))
            nontriv = len(set(keys)) > 1
            if order in ("along", "post"):
                akeys = [c[order][s] for s in ts]
                bad_o = oracle_offsets(akeys, offs, n, nact)
                if bad_o:
                    report("property", "count_tracks_per_action after sort_tracks(%s): %s" % (order, bad_o), dict(rep, thread_actions=akeys))
                elif offs != mv[1]:
                    report("tie", "count_tracks_per_action offsets differ from the model", dict(rep, model=mv[1], thread_actions=akeys))
                else:
                    want = [(offs[a], offs[a + 1]) for a in range(nact)]
                    got = [tuple(x) if x is not None else None for x in mv[2]]
                    if want != got:
                        report("tie", "get_action_range model disagrees with the offsets table", dict(rep, model=got))
                ctx.count("sorted-count:invalid-ids" if any(k is None for k in akeys) else "sorted-count:all-valid")
            ctx.case(("sort", order, n, nact, c["status"], c["along"], c["post"], c["particle"], c["ts"]), nontrivial=nontriv)
            ctx.count("sort:%s" % order)
        elif kind == "C":
            if offs != mv[0]:
                report("tie", "count_tracks_per_action (unsorted input) differs from the model",
                       dict(rep, model=mv[0], thread_actions=[c[c["order"]][s] for s in c["ts"]]))
            ctx.case(("count", c["order"], c["n"], c["nact"], c["along"], c["post"], c["ts"]), nontrivial=c["n"] > 1)
        elif kind == "B":
            if offs != mv[0]:
                report("tie", "backfill_action_count differs from the model", dict(rep, model=mv[0]))
            else:
                # oracle: last = n; an invalid entry takes the next valid one to its right
                want = list(c["offs"])
                want[-1] = c["n"]
                for i in range(len(want) - 2, -1, -1):
                    if want[i] is None:
                        want[i] = want[i + 1]
                if want != offs:
                    report("property", "backfill_action_count: missing offsets are not filled from the next action", rep)
            ctx.case(("backfill", c["noffs"], c["n"], c["offs"]), nontrivial=any(o is None for o in c["offs"][:-1]))
    # reseed_rng: the generator of a slot is a function of (seed, model subsequence) only
    for grp in rs_groups:
        ncmp += 1
        ctx.count("reindex:reseed-group")
        seen = {}
        bad = None
        for c in grp:
            if len(c["states"]) != c["size"] or len(c["subseq"]) != c["size"]:
                bad = ("reseed_rng does not (re)initialise exactly one generator per slot", c, None)
                break
            for slot, (stt, sub) in enumerate(zip(c["states"], c["subseq"])):
                if sub in seen and seen[sub][0] != stt:
                    o = seen[sub]
                    what = ("reseed_rng depends on the stream id of the state: same seed, event %d, %d slots, slot %d gives "
                            "different generator states on streams %d and %d" % (c["event"], c["size"], slot, o[1]["stream"], c["stream"])
                            if (o[1]["event"], o[1]["size"]) == (c["event"], c["size"]) else
                            "reseed_rng: generator state is not a function of (seed, event*size+slot): subsequence %d reached as "
                            "(event %d, size %d, slot %d) and as (event %d, size %d, slot %d) gives different states"
                            % (sub, o[1]["event"], o[1]["size"], o[2], c["event"], c["size"], slot))
                    bad = (what, c, o)
                    break
                seen.setdefault(sub, (stt, c, slot))
            if bad:
                break
        if not bad:
            by_state = {}
            for sub, (stt, c, slot) in seen.items():
                if stt in by_state and by_state[stt] != sub:
                    bad = ("reseed_rng: two different subsequences (%d, %d) of one seed get the same generator state" % (by_state[stt], sub), c, None)
                    break
                by_state[stt] = sub
        if bad:
            what, c, o = bad
            rep = {"harness": exe, "stdin": ["R %d %d %d %d" % (x["seed"], x["size"], x["event"], x["stream"]) for x in grp],
                   "this": {k: c[k] for k in ("seed", "size", "event", "stream", "states", "subseq")}}
            if o:
                rep["other"] = {k: o[1][k] for k in ("seed", "size", "event", "stream", "states", "subseq")}
            report("property", what, rep)
        ctx.case(("reseed", [(c["seed"], c["size"], c["event"], c["stream"]) for c in grp]), nontrivial=True)
    ctx.sample({"reindex_command": cmds[len(sizes) * 3][2], "cxx_output": lines[len(sizes) * 3]})
    ctx.log("re-indexing tie: %d C++ results compared with the model; %d differences" % (ncmp, nviol))
    ctx.coverage["reindex_cases_compared"] = ncmp
    return nviol
