// C06 tie harness for the re-indexing machinery: runs the real host functions
//   fill_sequence, detail::shuffle_track_slots, detail::sort_tracks,
//   detail::count_tracks_per_action, detail::backfill_action_count
// on arrays read from stdin.  Ids: -1 = invalid OpaqueId.
//
// stdin, one command per line:
//   F <n>                                   fill_sequence on n track slots
//   H <n> <ts[n]>                           shuffle_track_slots on the given array
//   S <order> <n> <nact> <do_count> <status[n]> <along[n]> <post[n]> <particle[n]> <ts[n]>
//        order: status | particle | along | post ; sort_tracks, then (if do_count and the
//        order is an action order) count_tracks_per_action with nact+1 offsets
//   C <order> <n> <nact> <along[n]> <post[n]> <ts[n]>
//        count_tracks_per_action alone on the given (possibly unsorted) track_slots
//   B <noffs> <n> <offs[noffs]>             backfill_action_count(offs, n)
//   R <seed> <size> <event> <stream>        reseed_rng on a <size>-slot RNG state constructed for
//        StreamId{stream}; prints "G" + the 6 state words of every slot
// stdout, one line per command:
//   T <ts...>            (F, H)
//   T <ts...> | O <offs...>   (S; "O" part only when counted)
//   O <offs...>          (C, B)
#include <iostream>
#include <sstream>
#include <string>
#include <vector>

#include "corecel/Types.hh"
#include "corecel/cont/Span.hh"
#include "corecel/data/Collection.hh"
#include "corecel/data/CollectionAlgorithms.hh"
#include "corecel/data/CollectionBuilder.hh"
#include "corecel/sys/ThreadId.hh"
#include "celeritas/Types.hh"
#include "celeritas/global/CoreTrackData.hh"
#include "celeritas/global/detail/TrackSlotUtils.hh"
#include "celeritas/random/RngParams.hh"
#include "celeritas/random/RngReseed.hh"
#include "celeritas/track/detail/TrackSortUtils.hh"

using namespace celeritas;

namespace
{
using StateVal = CoreStateData<Ownership::value, MemSpace::host>;
using StateRef = CoreStateData<Ownership::reference, MemSpace::host>;

template<class Id>
Id make_id(long v)
{
    return v < 0 ? Id{} : Id{static_cast<typename Id::size_type>(v)};
}

std::vector<long> rd(std::istringstream& is, size_type n)
{
    std::vector<long> v(n);
    for (auto& x : v)
        is >> x;
    return v;
}

void print_ts(StateVal const& st)
{
    std::cout << "T";
    for (auto i : range(ThreadId{st.track_slots.size()}))
        std::cout << ' ' << st.track_slots[i];
}

void print_offs(Span<ThreadId const> offs)
{
    std::cout << "O";
    for (auto t : offs)
        std::cout << ' ' << (t ? static_cast<long>(t.unchecked_get()) : -1L);
}

TrackOrder to_order(std::string const& s)
{
    if (s == "status")
        return TrackOrder::reindex_status;
    if (s == "particle")
        return TrackOrder::reindex_particle_type;
    if (s == "along")
        return TrackOrder::reindex_along_step_action;
    if (s == "post")
        return TrackOrder::reindex_step_limit_action;
    std::cerr << "bad order " << s << std::endl;
    std::exit(2);
}

void setup(StateVal& st, size_type n)
{
    resize(&st.track_slots, n);
    resize(&st.sim.status, n);
    resize(&st.sim.post_step_action, n);
    resize(&st.sim.along_step_action, n);
    resize(&st.particles.particle_id, n);
    st.stream_id = StreamId{0};
}
}  // namespace

int main()
{
    std::string line;
    while (std::getline(std::cin, line))
    {
        if (line.empty())
            continue;
        std::istringstream is(line);
        std::string cmd;
        is >> cmd;
        if (cmd == "F")
        {
            size_type n;
            is >> n;
            StateVal st;
            resize(&st.track_slots, n);
            fill_sequence(&st.track_slots, StreamId{0});
            print_ts(st);
            std::cout << std::endl;
        }
        else if (cmd == "H")
        {
            size_type n;
            is >> n;
            auto ts = rd(is, n);
            StateVal st;
            resize(&st.track_slots, n);
            for (size_type i = 0; i < n; ++i)
                st.track_slots[ThreadId{i}] = static_cast<size_type>(ts[i]);
            detail::shuffle_track_slots(&st.track_slots, StreamId{0});
            print_ts(st);
            std::cout << std::endl;
        }
        else if (cmd == "S" || cmd == "C")
        {
            std::string ord;
            size_type n, nact;
            int do_count = 1;
            is >> ord >> n >> nact;
            TrackOrder order = to_order(ord);
            StateVal st;
            setup(st, n);
            std::vector<long> status(n, 1), along, post, particle(n, 0), ts;
            if (cmd == "S")
            {
                is >> do_count;
                status = rd(is, n);
                along = rd(is, n);
                post = rd(is, n);
                particle = rd(is, n);
            }
            else
            {
                along = rd(is, n);
                post = rd(is, n);
            }
            ts = rd(is, n);
            for (size_type i = 0; i < n; ++i)
            {
                TrackSlotId s{i};
                st.sim.status[s] = static_cast<TrackStatus>(status[i]);
                st.sim.along_step_action[s] = make_id<ActionId>(along[i]);
                st.sim.post_step_action[s] = make_id<ActionId>(post[i]);
                st.particles.particle_id[s] = make_id<ParticleId>(particle[i]);
                st.track_slots[ThreadId{i}] = static_cast<size_type>(ts[i]);
            }
            StateRef ref;
            ref = st;
            if (cmd == "S")
            {
                detail::sort_tracks(ref, order);
                print_ts(st);
            }
            bool is_action = (order == TrackOrder::reindex_along_step_action
                              || order == TrackOrder::reindex_step_limit_action);
            if (is_action && do_count)
            {
                Collection<ThreadId, Ownership::value, MemSpace::host, ActionId> offs;
                resize(&offs, nact + 1);
                detail::count_tracks_per_action(
                    ref, offs[AllItems<ThreadId, MemSpace::host>{}], offs, order);
                if (cmd == "S")
                    std::cout << " | ";
                print_offs(offs[AllItems<ThreadId, MemSpace::host>{}]);
            }
            std::cout << std::endl;
        }
        else if (cmd == "B")
        {
            size_type noffs, n;
            is >> noffs >> n;
            auto o = rd(is, noffs);
            std::vector<ThreadId> offs(noffs);
            for (size_type i = 0; i < noffs; ++i)
                offs[i] = make_id<ThreadId>(o[i]);
            detail::backfill_action_count(make_span(offs), n);
            print_offs(make_span(offs));
            std::cout << std::endl;
        }
        else if (cmd == "R")
        {
            unsigned seed;
            size_type size, stream;
            unsigned long long event;
            is >> seed >> size >> event >> stream;
            RngParams params(seed);
            RngStateData<Ownership::value, MemSpace::host> val;
            resize(&val, params.host_ref(), StreamId{stream}, size);
            RngStateData<Ownership::reference, MemSpace::host> ref;
            ref = val;
            reseed_rng(params.host_ref(), ref, StreamId{stream}, UniqueEventId{event});
            std::cout << "G";
            for (auto s : range(TrackSlotId{size}))
            {
                auto const& x = val.state[s];
                for (auto w : x.xorstate)
                    std::cout << ' ' << w;
                std::cout << ' ' << x.weylstate;
            }
            std::cout << std::endl;
        }
        else
        {
            std::cerr << "bad command " << cmd << std::endl;
            return 2;
        }
    }
    return 0;
}
