// C06 search/tie harness: bit-exact event replays on the real Stepper.
//
// usage: replay <simple|linear|mock> <slots> <track_order> <timing> <status_checker> <warmup> <dump> [stream]
//   stream (default 0): StreamId of the state; for stream > 0 the CoreParams are built with
//           max_streams = stream + 1 (same construction as GlobalTestBase::build_core)
//   simple: SimpleTestBase (Compton gammas, two boxes, neutral along-step)
//   linear: SimpleTestBase with the general linear along-step action (other along-step kernel)
//   mock  : MockTestBase (continuous loss, integral xs, several materials). Its host
//           "interactions" are no-ops, so events never end: always run truncated (abort_step)
//   dump=0: per track only "T <track> <nsteps> <fnv64 digest of its S lines>"
//   stdin : one command per line
//             E <event_id> <nprim> <abort_step>     (abort_step < 0: run to completion;
//                                                    otherwise stop after that many steps
//                                                    and call Stepper::reset_state())
//   stdout: per event
//             B <event_id>
//             R <generated> <queued> <active> <alive>          one per Stepper call
//             S <track> <step> <field>=<hex> ...               one per recorded track step,
//                                                              sorted by (track, step)
//             Q <records whose action is the tracking cut (tracks that failed to initialise)>
//             C <num_initializers> <num_vacancies> <num_secondaries> <slots not inactive>   at event end
//             F <event_id> <done|aborted>
// Primaries of an event are a pure function of (problem, event_id, nprim) so that
// the same event can be asked for in any history.  About a quarter of them start outside
// the world: they fail to initialise, go through the errored path (tracking cut) and are
// recorded and compared like every other track.
#include <algorithm>
#include <cstdint>
#include <cstring>
#include <iostream>
#include <memory>
#include <sstream>
#include <string>
#include <tuple>
#include <vector>

#include "corecel/Types.hh"
#include "corecel/cont/Span.hh"
#include "corecel/io/Logger.hh"
#include "corecel/math/ArrayUtils.hh"
#include "corecel/sys/ActionRegistry.hh"
#include "celeritas/Types.hh"
#include "celeritas/global/CoreParams.hh"
#include "celeritas/global/Stepper.hh"
#include "celeritas/global/alongstep/AlongStepGeneralLinearAction.hh"
#include "celeritas/phys/PDGNumber.hh"
#include "celeritas/phys/ParticleParams.hh"
#include "celeritas/phys/Primary.hh"
#include "celeritas/track/TrackInitParams.hh"
#include "celeritas/track/StatusChecker.hh"
#include "corecel/data/AuxParamsRegistry.hh"
#include "celeritas/user/StepCollector.hh"
#include "celeritas/user/StepInterface.hh"
#include "celeritas/user/StepData.hh"

#include "celeritas/SimpleTestBase.hh"
#include "celeritas/MockTestBase.hh"

using namespace celeritas;

namespace
{
//---------------------------------------------------------------------------//
std::string hx(double x)
{
    std::uint64_t u;
    std::memcpy(&u, &x, sizeof(u));
    char buf[32];
    std::snprintf(buf, sizeof(buf), "%016llx", static_cast<unsigned long long>(u));
    return buf;
}

struct SplitMix
{
    std::uint64_t s;
    std::uint64_t next()
    {
        std::uint64_t z = (s += 0x9e3779b97f4a7c15ull);
        z = (z ^ (z >> 30)) * 0xbf58476d1ce4e5b9ull;
        z = (z ^ (z >> 27)) * 0x94d049bb133111ebull;
        return z ^ (z >> 31);
    }
    double uni() { return (next() >> 11) * (1.0 / 9007199254740992.0); }
};

//---------------------------------------------------------------------------//
//! Record everything the step interface offers
class Recorder final : public StepInterface
{
  public:
    struct Rec
    {
        unsigned event, track, step;
        std::string text;
    };

    Filters filters() const final { return {}; }
    StepSelection selection() const final { return StepSelection::all(); }
    void process_steps(DeviceStepState) final {}
    void process_steps(HostStepState state) final
    {
        auto const& d = state.steps.data;
        for (auto tid : range(TrackSlotId{d.size()}))
        {
            TrackId track = d.track_id[tid];
            if (!track)
                continue;
            Rec r;
            r.event = d.event_id[tid].unchecked_get();
            r.track = track.unchecked_get();
            r.step = d.track_step_count[tid];
            std::ostringstream os;
            os << "parent=" << static_cast<long>(d.parent_id[tid] ? static_cast<long>(d.parent_id[tid].unchecked_get()) : -1)
               << " action=" << (!d.action_id[tid] || !reg ? std::string("none")
                                : d.action_id[tid].unchecked_get() < reg->num_actions()
                                    ? reg->id_to_label(d.action_id[tid])
                                    : "out-of-range-" + std::to_string(d.action_id[tid].unchecked_get()))
               << " particle=" << d.particle[tid].unchecked_get()
               << " len=" << hx(d.step_length[tid])
               << " edep=" << hx(d.energy_deposition[tid].value());
            for (auto sp : range(StepPoint::size_))
            {
                auto const& p = d.points[sp];
                char const* n = sp == StepPoint::pre ? "pre" : "post";
                os << ' ' << n << ".t=" << hx(p.time[tid]) << ' ' << n
                   << ".e=" << hx(p.energy[tid].value()) << ' ' << n << ".vol="
                   << static_cast<long>(p.volume_id[tid] ? static_cast<long>(p.volume_id[tid].unchecked_get()) : -1)
                   << ' ' << n << ".pos=" << hx(p.pos[tid][0]) << ','
                   << hx(p.pos[tid][1]) << ',' << hx(p.pos[tid][2]) << ' ' << n
                   << ".dir=" << hx(p.dir[tid][0]) << ',' << hx(p.dir[tid][1])
                   << ',' << hx(p.dir[tid][2]);
            }
            r.text = os.str();
            recs.push_back(std::move(r));
        }
    }

    std::vector<Rec> recs;
    // action ids depend on which optional actions are registered (status checker,
    // sort actions): records carry the action's label instead
    ActionRegistry const* reg{nullptr};
};

//---------------------------------------------------------------------------//
TrackOrder parse_order(std::string const& s)
{
    for (auto i = 0; i < static_cast<int>(TrackOrder::size_); ++i)
    {
        auto o = static_cast<TrackOrder>(i);
        if (s == to_cstring(o))
            return o;
    }
    std::cerr << "unknown track order '" << s << "'; known:";
    for (auto i = 0; i < static_cast<int>(TrackOrder::size_); ++i)
        std::cerr << ' ' << to_cstring(static_cast<TrackOrder>(i));
    std::cerr << std::endl;
    std::exit(2);
}

//---------------------------------------------------------------------------//
template<class Base>
class Problem : public Base
{
  public:
    Problem(TrackOrder order, bool status_checker) : order_(order), checker_(status_checker)
    {
        if (!status_checker)
            this->disable_status_checker();
    }
    void TestBody() override {}

    // GlobalTestBase::build_core, but with max_streams > 1
    std::shared_ptr<CoreParams const> make_core(size_type max_streams)
    {
        CoreParams::Input inp;
        inp.geometry = this->geometry();
        inp.material = this->material();
        inp.geomaterial = this->geomaterial();
        inp.particle = this->particle();
        inp.cutoff = this->cutoff();
        inp.physics = this->physics();
        inp.rng = this->rng();
        inp.sim = this->sim();
        inp.init = this->init();
        inp.wentzel = this->wentzel();
        inp.action_reg = this->action_reg();
        inp.output_reg = this->output_reg();
        inp.aux_reg = this->aux_reg();
        inp.max_streams = max_streams;
        auto&& along_step = this->along_step();
        CELER_VALIDATE(along_step, << "no along-step action");
        if (checker_)
        {
            auto status_checker = std::make_shared<StatusChecker>(
                inp.action_reg->next_id(), inp.aux_reg->next_id());
            inp.action_reg->insert(status_checker);
            inp.aux_reg->insert(status_checker);
        }
        return std::make_shared<CoreParams>(std::move(inp));
    }

    typename Base::SPConstTrackInit build_init() override
    {
        TrackInitParams::Input input;
        input.capacity = 4096;
        input.max_events = 4096;
        input.track_order = order_;
        return std::make_shared<TrackInitParams>(input);
    }
    typename Base::SPConstAction build_along_step() override
    {
        if (!field_)
            return Base::build_along_step();
        auto& action_reg = *this->action_reg();
        auto result = AlongStepGeneralLinearAction::from_params(
            action_reg.next_id(), *this->material(), *this->particle(), nullptr, false);
        action_reg.insert(result);
        return result;
    }
    using Base::core;
    using Base::particle;
    bool field_{false};

  private:
    TrackOrder order_;
    bool checker_;
};

Real3 iso(SplitMix& g)
{
    double c = 2 * g.uni() - 1, phi = 6.283185307179586 * g.uni();
    double s = std::sqrt(std::max(0.0, 1 - c * c));
    return make_unit_vector(Real3{s * std::cos(phi), s * std::sin(phi), c});
}

template<class P>
std::vector<Primary> make_primaries(P& prob, int kind, unsigned event, unsigned n)
{
    SplitMix g{0x1234567ull + 7919ull * event};
    std::vector<Primary> out;
    auto const& pp = *prob.particle();
    for (unsigned i = 0; i < n; ++i)
    {
        Primary p;
        p.event_id = EventId{event};
        p.time = 0;
        if (kind != 2)
        {
            bool electron = kind == 1 && (g.next() % 4 == 0);
            p.particle_id = pp.find(electron ? pdg::electron() : pdg::gamma());
            p.energy = units::MevEnergy{std::pow(10.0, -0.5 + 2.5 * g.uni())};
            // inside or just outside the 10 cm aluminium box
            p.position = {-6 + 12 * g.uni(), -4 + 8 * g.uni(), -4 + 8 * g.uni()};
            p.direction = iso(g);
            if (g.next() % 4 == 0 || event % 7 == 0)
            {
                // (events whose id is a multiple of 7 consist of such primaries only)
                // a primary that FAILS to initialise (outside the +-500 cm world): it is flagged
                // errored, killed by the tracking cut and leaves its energy as deposition in the slot
                p.position = {(g.next() & 1 ? 1.0 : -1.0) * (600 + 50 * g.uni()), 10 * g.uni(), -10 * g.uni()};
            }
        }
        else
        {
            static char const* const names[] = {"gamma", "celeriton", "anti-celeriton", "electron", "celeriton"};
            char const* nm = names[g.next() % 5];
            p.particle_id = pp.find(nm);
            double lo = std::string(nm) == "electron" ? -3.0 : -2.0;
            double hi = std::string(nm) == "electron" ? 0.9 : 1.9;
            p.energy = units::MevEnergy{std::pow(10.0, lo + (hi - lo) * g.uni())};
            double r = 5.5 * std::cbrt(g.uni());
            Real3 d = iso(g);
            p.position = {r * d[0], r * d[1], r * d[2]};
            p.direction = iso(g);
            if (g.next() % 5 == 0 || event % 7 == 0)
            {
                // outside the r = 100 cm world: fails to initialise
                p.position = {150 + 10 * g.uni(), 0, 0};
            }
        }
        CELER_VALIDATE(p.particle_id, << "particle not found");
        out.push_back(p);
    }
    return out;
}

template<class Base>
int run(int kind, size_type slots, TrackOrder order, bool timing, bool checker, bool warmup, bool dump, size_type stream)
{
    Problem<Base> prob(order, checker);
    prob.field_ = (kind == 1);
    std::shared_ptr<CoreParams const> core;
    if (stream == 0)
        core = prob.core();
    else
        core = prob.make_core(stream + 1);
    auto rec = std::make_shared<Recorder>();
    rec->reg = core->action_reg().get();
    auto collector = StepCollector::make_and_insert(*core, {rec});

    StepperInput inp;
    inp.params = core;
    inp.stream_id = StreamId{stream};
    inp.num_track_slots = slots;
    inp.action_times = timing;
    Stepper<MemSpace::host> step(inp);
    if (warmup)
        step.warm_up();

    std::string line;
    while (std::getline(std::cin, line))
    {
        if (line.empty())
            continue;
        std::istringstream is(line);
        char cmd;
        unsigned event, nprim;
        long abort_step;
        is >> cmd >> event >> nprim >> abort_step;
        if (cmd != 'E' || !is)
        {
            std::cerr << "bad command: " << line << std::endl;
            return 2;
        }
        rec->recs.clear();
        std::cout << "B " << event << '\n';
        step.reseed(UniqueEventId{event});
        auto prim = make_primaries(prob, kind, event, nprim);
        long nsteps = 0;
        bool aborted = false;
        StepperResult r = step(make_span(prim));
        ++nsteps;
        std::cout << "R " << r.generated << ' ' << r.queued << ' ' << r.active << ' ' << r.alive << '\n';
        while (r)
        {
            if (abort_step >= 0 && nsteps >= abort_step)
            {
                aborted = true;
                break;
            }
            if (nsteps > 200000)
            {
                std::cout << "X runaway\n";
                aborted = true;
                break;
            }
            r = step();
            ++nsteps;
            std::cout << "R " << r.generated << ' ' << r.queued << ' ' << r.active << ' ' << r.alive << '\n';
        }
        if (aborted)
            step.reset_state();
        auto& v = rec->recs;
        std::stable_sort(v.begin(), v.end(), [](auto const& a, auto const& b) {
            return std::make_tuple(a.event, a.track, a.step) < std::make_tuple(b.event, b.track, b.step);
        });
        std::uint64_t h = 1469598103934665603ull;
        unsigned cur = ~0u, cnt = 0;
        auto flush = [&] {
            if (cnt)
                std::cout << "T " << cur << ' ' << cnt << ' ' << std::hex << h << std::dec << '\n';
            h = 1469598103934665603ull;
            cnt = 0;
        };
        for (auto const& x : v)
        {
            std::ostringstream os;
            os << "S " << x.track << ' ' << x.step << ' ' << x.text;
            if (x.event != event)
                os << " WRONG-EVENT=" << x.event;
            std::string ln = os.str();
            if (dump)
                std::cout << ln << '\n';
            if (x.track != cur)
            {
                flush();
                cur = x.track;
            }
            for (unsigned char c : ln)
                h = (h ^ c) * 1099511628211ull;
            ++cnt;
        }
        flush();
        {
            unsigned killed = 0;
            for (auto const& x : v)
                killed += (x.text.find("action=tracking-cut") != std::string::npos);
            std::cout << "Q " << killed << '\n';  // tracks ended by the tracking cut (failed initialisation)
        }
        {
            // hypotheses of reseed_rel, observed: host counters and statuses at the end of the event
            auto const& c = step.state().counters();
            auto const& st = step.state_ref().sim.status;
            size_type not_inactive = 0;
            for (auto tid : range(TrackSlotId{st.size()}))
                not_inactive += (st[tid] != TrackStatus::inactive);
            std::cout << "C " << c.num_initializers << ' ' << c.num_vacancies << ' ' << c.num_secondaries << ' '
                      << not_inactive << '\n';
        }
        std::cout << "F " << event << ' ' << (aborted ? "aborted" : "done") << '\n';
    }
    return 0;
}
}  // namespace

int main(int argc, char** argv)
{
    if (argc != 8 && argc != 9)
    {
        std::cerr << "usage: replay <simple|linear|mock> <slots> <track_order> <timing> <checker> <warmup> <dump>\n";
        return 2;
    }
    std::string prob = argv[1];
    size_type slots = std::stoul(argv[2]);
    TrackOrder order = parse_order(argv[3]);
    bool timing = std::stoi(argv[4]), checker = std::stoi(argv[5]), warm = std::stoi(argv[6]), dump = std::stoi(argv[7]);
    size_type stream = argc == 9 ? std::stoul(argv[8]) : 0;
    try
    {
        if (prob == "simple")
            return run<test::SimpleTestBase>(0, slots, order, timing, checker, warm, dump, stream);
        if (prob == "linear")
            return run<test::SimpleTestBase>(1, slots, order, timing, checker, warm, dump, stream);
        if (prob == "mock")
            return run<test::MockTestBase>(2, slots, order, timing, checker, warm, dump, stream);
    }
    catch (std::exception const& e)
    {
        std::cout << "X exception " << e.what() << std::endl;
        return 3;
    }
    std::cerr << "unknown problem\n";
    return 2;
}
