"""C06 -- event results are reproducible and independent of history and thread order.

1. translator (translators/state_fields.py) regenerates coq/Generated/C06_fields.v
   from /repo's current sources;
2. Properties_C06.v: abstract theorems (perm_invariance, history_independence, ...)
   + the generated obligations (reset_complete, shapes_all_ok, ...);
3. search / tie: bit-exact replays of whole events on the real Stepper
   (harness/replay.cc): every event of every run is compared with the same
   event transported on a fresh state with the plain configuration.
"""
import os
import sys
from concurrent.futures import ThreadPoolExecutor

import vlib

HERE = os.path.dirname(os.path.abspath(__file__))
sys.path.insert(0, os.path.join(vlib.VERIF, "translators"))
import state_fields  # noqa: E402
sys.path.insert(0, HERE)
import reindex_tie  # noqa: E402

LIBS = "testcel_celeritas testcel_harness testcel_core testcel_geocel celeritas orange geocel corecel".split()
ORDERS = ["none", "reindex_shuffle", "reindex_status", "reindex_particle_type",
          "reindex_step_limit_action", "reindex_along_step_action", "reindex_both_action"]
PRE = ("From Coq Require Import String List Bool.\n"
       "From Celer Require Import Generated.C06_fields C06.ResetComplete.\n"
       "Import ListNotations.\nOpen Scope string_scope.\n")


# ---------------------------------------------------------------------------
# harness plumbing

def parse_output(out):
    """-> list of event dicts in script order"""
    evs = []
    cur = None
    for ln in out.splitlines():
        if not ln:
            continue
        t = ln.split(" ", 1)
        k = t[0]
        if k == "B":
            cur = {"event": int(t[1]), "R": [], "T": {}, "S": [], "status": None, "C": None, "X": None, "Q": 0}
            evs.append(cur)
        elif cur is None:
            continue
        elif k == "R":
            cur["R"].append(t[1])
        elif k == "T":
            tr, n, h = t[1].split()
            cur["T"][int(tr)] = (int(n), h)
        elif k == "S":
            cur["S"].append(t[1])
        elif k == "Q":
            cur["Q"] = int(t[1])
        elif k == "C":
            cur["C"] = tuple(int(x) for x in t[1].split())
        elif k == "F":
            cur["status"] = t[1].split()[1]
        elif k == "X":
            cur["X"] = t[1]
    return evs


class Runner:
    def __init__(self, ctx, exe):
        self.ctx = ctx
        self.exe = exe

    def args(self, cfg, dump=0):
        return [cfg["problem"], str(cfg["slots"]), cfg["order"], str(cfg["timing"]),
                str(cfg["checker"]), str(cfg["warmup"]), str(dump), str(cfg.get("stream", 0))]

    def run(self, cfg, script, dump=0):
        inp = "".join("E %d %d %d\n" % s for s in script)
        rc, out = self.ctx.run_harness(self.exe, self.args(cfg, dump), input=inp, timeout=900,
                                       env={"CELER_LOG": "critical", "CELER_LOG_LOCAL": "critical"})
        return rc, out


def mock_abort(e):
    return 25 + (e * 7) % 30


def nprim(problem, e):
    return 3 if problem != "mock" else 5


def base_cfg(problem, slots):
    # the mock problem trips the debug status checker on the unchanged tree
    # (its host "interactions" are no-ops): checker stays off there
    return {"problem": problem, "slots": slots, "order": "none", "timing": 0,
            "checker": 0 if problem == "mock" else 1, "warmup": 0}


def first_diff(a, b):
    for i, (x, y) in enumerate(zip(a, b)):
        if x != y:
            return i, x, y
    if len(a) != len(b):
        i = min(len(a), len(b))
        return i, (a[i] if i < len(a) else None), (b[i] if i < len(b) else None)
    return None


# ---------------------------------------------------------------------------

def run(ctx):
    quick = ctx.tier == "quick"
    ctx.trusted += [
        "abstract model coq/C06/Noninterference.v (slots as finite maps, actions with read/write sets, kernel/global phases); "
        "its link to the code is (a) the translator-generated field and initialiser lists + hand-justified temp_ok list "
        "(coq/C06/ResetComplete.v) and (b) the bit-exact replays on the real Stepper",
        "translators/state_fields.py: regex/brace parser of the state structs and initialiser bodies "
        "(unrecognised shapes are emitted as failed shape checks, not skipped)",
        "the shared secondary stack and the atomic track counter are abstracted (host loops are sequential in this build: OpenMP=event)",
        "re-indexing model coq/C06/Reindex.v: std::sort / std::partition are SPECIFIED (some sorted permutation), std::shuffle with "
        "mt19937{count} is a position-permutation oracle determined by the count; tied by props/C06/reindex_tie.py "
        "(exact comparison with the real host functions + regex shape checks of the launch loops / executors / get_action_range)",
        "the action-range launch (ActionLauncher.device.hh) cannot be executed in this CPU build: only its shape is checked",
    ]
    ctx.assumptions += [
        "same number of track slots in the compared runs (the RNG subsequence is event*slots+slot)",
        "TrackOrder::init_charge changes the slot<->track pairing by design and is outside the quantifier",
        "host execution (sequential kernels); device atomics/ordering are not covered",
        "the hand list temp_ok (written-before-read fields) is justified by reading the cited lines, not by proof",
    ]

    # ---- 1. translator -----------------------------------------------------
    data = state_fields.generate(vlib.REPO)
    txt = state_fields.emit(data, vlib.REPO)
    os.makedirs(os.path.dirname(state_fields.OUT), exist_ok=True)
    old = open(state_fields.OUT).read() if os.path.exists(state_fields.OUT) else None
    if old != txt:
        with open(state_fields.OUT, "w") as f:
            f.write(txt)
    failed_shapes = [t for t, ok in data["shape_checks"] if not ok]
    ctx.log("translator: %d state fields, %d shape checks (%d failed)" % (
        len(data["all_state_fields"]), len(data["shape_checks"]), len(failed_shapes)))
    ctx.coverage["state_fields"] = len(data["all_state_fields"])
    ctx.coverage["shape_checks"] = len(data["shape_checks"])

    # ---- 2. proofs -----------------------------------------------------------
    proofs_ok = ctx.coq_prove("Properties_C06.v")
    unclassified = None
    if not proofs_ok:
        ok, _ = ctx.coq_build(["C06/ResetComplete.vo"])
        if ok:
            try:
                unclassified, fs, cur, slotu, dirty = ctx.coq_eval("oblig", PRE, ["unclassified", "failed_shapes", "hand_lists_current_b", "slot_ctor_unreviewed", "errored_path_dirty"])
                ctx.broken_proof["unclassified_state_fields"] = unclassified
                ctx.broken_proof["failed_shapes"] = fs
                ctx.broken_proof["hand_lists_current"] = cur
                ctx.broken_proof["slot_constructions_unreviewed"] = slotu
                ctx.broken_proof["errored_path_not_cleared"] = dirty
            except Exception as ex:    # keep going: the replays below still run
                ctx.notes.append("could not evaluate obligations: %s" % ex)

    def replays():
        # ---- 3. replays ------------------------------------------------------------
        ctx.build_libs(["testcel_celeritas"])
        exe = ctx.compile_harness([os.path.join(HERE, "harness", "replay.cc")], "replay", libs=LIBS, test_includes=True)
        R = Runner(ctx, exe)
        rng = ctx.rng

        if quick:
            combos = [("simple", 8), ("simple", 1), ("simple", 33), ("linear", 5), ("mock", 6)]
            n_events, n_hist, n_cfg = 4, 5, 10
        else:
            combos = [("simple", s) for s in (1, 2, 8, 33, 128)] + [("linear", s) for s in (1, 5, 64)] + [("mock", s) for s in (1, 6, 40)]
            n_events, n_hist, n_cfg = 10, 40, 80

        jobs = []      # (kind, cfg, script)
        pools = {}
        for problem, slots in combos:
            # ordinary events (about a quarter of their primaries fail to initialise) plus events
            # made only of failing primaries (ids that are multiples of 7): the latter leave their
            # energy as deposition in slots that nothing re-uses before the next event
            pool = sorted(set(rng.sample(range(1, 400), n_events)) | set(rng.sample(range(7, 400, 7), 2 if quick else 4)))
            pools[(problem, slots)] = pool

        def rand_script(problem, pool, with_abort):
            k = rng.choice([1, 2, 2, 3])
            script = []
            for _ in range(k):
                e = rng.choice(pool)
                if problem == "mock":
                    script.append((e, nprim(problem, e), mock_abort(e)))
                elif with_abort and rng.random() < 0.4:
                    # an event that is aborted after a few steps, then state.reset()
                    script.append((rng.choice(pool + [401, 402]), rng.choice([1, 3, 6]), rng.choice([1, 2, 3, 5, 8, 13, 40])))
                else:
                    script.append((e, nprim(problem, e), -1))
            e = rng.choice(pool)
            script.append((e, nprim(problem, e), mock_abort(e) if problem == "mock" else -1))
            return script

        for problem, slots in combos:
            pool = pools[(problem, slots)]
            # (ii)/(iii): histories with the plain configuration
            for _ in range(n_hist):
                jobs.append(("history", base_cfg(problem, slots), rand_script(problem, pool, True)))
            # (iv): every re-indexing order, timing, checker, warm-up, on top of a history
            cfgs = []
            for o in ORDERS[1:]:
                cfgs.append((o, rng.randint(0, 1), rng.randint(0, 1), rng.randint(0, 1)))
            while len(cfgs) < n_cfg:
                cfgs.append((rng.choice(ORDERS), rng.randint(0, 1), rng.randint(0, 1), rng.randint(0, 1)))
            cfgs += [("none", 1, 1, 0), ("none", 0, 0, 0), ("none", 0, 1, 1)]
            for o, tm, ck, wu in cfgs:
                cfg = {"problem": problem, "slots": slots, "order": o, "timing": tm,
                       "checker": 0 if problem == "mock" else ck, "warmup": wu}
                jobs.append(("config", cfg, rand_script(problem, pool, rng.random() < 0.5)))

            # (v): the same events on states owned by OTHER streams (CoreParams with max_streams > 1):
            # reseeding must make the event independent of the stream id of the state, fresh or used
            for st in ([1, 1, 2, 5] if quick else [1, 1, 1, 2, 2, 3, 7, 15]):
                o, tm, ck, wu = rng.choice(ORDERS), rng.randint(0, 1), rng.randint(0, 1), rng.randint(0, 1)
                if rng.random() < 0.5:
                    o, tm, wu = "none", 0, 0
                cfg = {"problem": problem, "slots": slots, "order": o, "timing": tm,
                       "checker": 0 if problem == "mock" else ck, "warmup": wu, "stream": st}
                script = rand_script(problem, pool, rng.random() < 0.3)
                if rng.random() < 0.4:
                    script = script[-1:]          # fresh state of that stream
                jobs.append(("stream", cfg, script))

        # baselines: EVERY (event, size, abort step) that occurs in some script, alone on a fresh
        # state with the plain configuration (aborted events are compared with a fresh run
        # aborted at the same step, so their killed / errored / unfinished tracks count too)
        needed = []
        for kind, cfg, script in jobs:
            for ev_ in script:
                k = (cfg["problem"], cfg["slots"]) + tuple(ev_)
                if k not in needed:
                    needed.append(k)
        jobs = [("baseline", base_cfg(k[0], k[1]), [k[2:]]) for k in needed] + jobs
        ctx.log("running %d harness processes" % len(jobs))
        with ThreadPoolExecutor(max_workers=max(2, min(12, vlib.NCPU - 2))) as ex:
            results = list(ex.map(lambda j: R.run(j[1], j[2]), jobs))

        baselines = {}
        nviol = 0

        def report(kind, what, rep, **kw):
            nonlocal nviol
            nviol += 1
            if nviol <= 6:
                ctx.violation(kind, what, rep, **kw)

        for (kind, cfg, script), (rc, out) in zip(jobs, results):
            if kind != "baseline":
                continue
            evs = parse_output(out)
            if rc != 0 or len(evs) != 1 or evs[0]["X"]:
                raise vlib.BuildError("baseline replay failed (rc=%d) for %r %r" % (rc, cfg, script), out[-2000:])
            baselines[(cfg["problem"], cfg["slots"]) + tuple(script[0])] = evs[0]
            ctx.count("baseline:%s" % cfg["problem"])

        compared = 0
        for (kind, cfg, script), (rc, out) in zip(jobs, results):
            if kind == "baseline":
                continue
            evs = parse_output(out)
            label = {"config": cfg, "script": ["E %d %d %d" % s for s in script],
                     "command": "CELER_DISABLE_PARALLEL=1 %s %s" % (exe, " ".join(R.args(cfg, 1)))}
            if rc != 0 or len(evs) != len(script) or any(ev["X"] for ev in evs):
                report("run-failed", "replay run failed or threw under %s/%s (the plain run of the same events did not)" % (cfg["order"], kind),
                       dict(label, rc=rc, output_tail=out[-1500:]))
                continue
            for pos, (ev, (e, npr, ab)) in enumerate(zip(evs, script)):
                key = (cfg["problem"], cfg["slots"], e, npr, ab)
                base = baselines[key]
                hist = script[:pos]
                ntr = len(ev["T"])
                if ev["status"] == "done":
                    # observed hypotheses of reseed_rel for completed events
                    if ev["C"] != (0, cfg["slots"], 0, 0):
                        report("end-state", "completed event leaves counters/status (initializers, vacancies, secondaries, non-inactive) = %r" % (ev["C"],),
                               dict(label, event=e, position=pos))
                if ab >= 0 and cfg["problem"] != "mock":
                    ctx.count("aborted-event-compared")
                compared += 1
                nontriv = (pos > 0 or cfg != base_cfg(cfg["problem"], cfg["slots"])) and ntr > 0
                ctx.case((cfg["problem"], cfg["slots"], e, cfg["order"], cfg["timing"], cfg["checker"], cfg["warmup"], cfg.get("stream", 0), hist), nontrivial=nontriv)
                ctx.count("stream:%s" % ("0" if not cfg.get("stream") else "other"))
                ctx.count("order:%s" % cfg["order"])
                ctx.count("problem:%s" % cfg["problem"])
                ctx.count("history-len:%d" % pos)
                if ev["Q"]:
                    ctx.count("event-with-failed-initialisation")
                    if any(baselines[(cfg["problem"], cfg["slots"]) + tuple(h)]["Q"] for h in hist):
                        ctx.count("failed-initialisation-after-failed-initialisation")
                if any(s[2] >= 0 for s in hist) and cfg["problem"] != "mock":
                    ctx.count("after-aborted-event+reset")
                ctx.sample({"config": cfg, "script": label["script"], "event": e, "tracks": ntr,
                            "steps": sum(n for n, _ in ev["T"].values()), "stepper_calls": len(ev["R"])})
                if ev["R"] == base["R"] and ev["T"] == base["T"] and ev["status"] == base["status"]:
                    continue
                # ---- a difference: get the full records of both runs
                rc1, o1 = R.run(base_cfg(cfg["problem"], cfg["slots"]), [script[pos]], dump=1)
                rc2, o2 = R.run(cfg, script, dump=1)
                b1 = parse_output(o1)[0] if rc1 == 0 else None
                e2 = parse_output(o2)
                b2 = e2[pos] if rc2 == 0 and len(e2) > pos else None
                detail = None
                if b1 and b2:
                    d = first_diff(b2["S"], b1["S"])
                    if d:
                        detail = {"record_index": d[0], "this_run": d[1], "fresh_run": d[2]}
                    else:
                        d = first_diff(b2["R"], b1["R"])
                        detail = {"stepper_result_index": d[0], "this_run": d[1], "fresh_run": d[2]} if d else None
                report("replay", "event %d of problem %s (%d slots) is not reproduced bit-exactly (stream=%d order=%s timing=%d checker=%d warmup=%d, %d earlier events)"
                       % (e, cfg["problem"], cfg["slots"], cfg.get("stream", 0), cfg["order"], cfg["timing"], cfg["checker"], cfg["warmup"], pos),
                       dict(label, event=e, position=pos, first_difference=detail,
                            fresh_command="printf 'E %d %d %d\\n' | CELER_DISABLE_PARALLEL=1 %s %s" % (
                                script[pos] + (exe, " ".join(R.args(base_cfg(cfg["problem"], cfg["slots"]), 1))))))
        ctx.log("compared %d event replays with their fresh-state baselines; %d differences" % (compared, nviol))
        ctx.coverage["traces_validated_against_impl"] = compared
        ctx.coverage["rule"] = ("case = (problem, slots, event, track order, timing, checker, warm-up, preceding script); compared: "
                                "StepperResult sequence and per-track FNV digest over all StepSelection::all() fields of every step, "
                                "against the same event on a fresh state with order=none; non-trivial = differs from the baseline "
                                "configuration or has a history, and transported at least one track")

        return nviol

    nviol = 0
    harness_failure = None
    try:
        # ---- 2b. re-indexing machinery: model vs the real host functions -------
        nviol = reindex_tie.run_reindex(ctx)
        nviol += replays()
    except vlib.BuildError as ex:
        if proofs_ok:
            raise
        # the obligations are already broken: report THAT (with the offending
        # fields) rather than the secondary harness failure
        harness_failure = {"error": str(ex), "log_tail": ex.log[-1500:]}
        ctx.broken_proof["replay_harness_failure"] = harness_failure

    # ---- 4. broken obligations without a dynamic counterexample ----------------
    if not proofs_ok and nviol == 0:
        what = "Properties_C06.v no longer checks"
        if unclassified:
            what = "state field(s) %s are neither (re)initialised nor justified as temporary (reset_complete)" % (
                ", ".join("%s.%s" % tuple(u) for u in unclassified))
        elif failed_shapes:
            what = "source shape no longer recognised: %s" % failed_shapes[0]
        elif ctx.broken_proof.get("slot_constructions_unreviewed"):
            what = "explicit TrackSlotId construction(s) not in the reviewed list (thread->slot discipline): %r" % (
                ctx.broken_proof["slot_constructions_unreviewed"],)
        elif ctx.broken_proof.get("hand_lists_current") is False:
            what = "a hand-justified list in coq/C06/ResetComplete.v names a state field that no longer exists"
        ctx.violation("proof-broken", what, ctx.broken_proof, no_input=True)
    elif not proofs_ok:
        ctx.notes.append("proof obligations also broken: %r" % (ctx.broken_proof.get("unclassified_state_fields"),))
