// C12 correspondence/oracle harness: real ORANGE surface classes, translator,
// transformer, simplifier and transforms.
// stdin: one command per line (numbers as C hex floats); stdout: one line per command.
//   eval  <type> <n> data.. px py pz dx dy dz on delta
//      -> ok <sense> <nint> t.. nx ny nz  [per finite t: sense(p+(t-delta)d) sense(p+(t+delta)d)]
//   xlate <type> <n> data.. tx ty tz <npts> pts..
//   xform <type> <n> data.. r00..r22 tx ty tz <npts> pts..
//      -> ok <type'> <n'> data'.. [per pt: sense_orig sense_new upx upy upz dux duy duz udx udy udz]
//   simpl <type> <n> data.. tol <npts> pts..
//      -> ok <changed> <flipped> <type'> <n'> data'.. [per pt: sense_orig sense_new]
//   simplc <type> <n> data.. tol <npts> pts..   (whole chain)
//      -> ok <passes> <flipped> <type'> <n'> data'.. [per pt: sense_orig sense_new]
//   mkrot ax ay az turn  -> ok r00..r22 det
//   sperm s0 a0 s1 a1 s2 a2 <npts> pts..
//      -> ok <code> [per pt: up(3) down_of_up(3) up_of_down(3)] m00..m22
#include "../../../harness/common.hh"
#include <variant>
#include "corecel/cont/Span.hh"
#include "corecel/math/ArrayOperators.hh"
#include "orange/MatrixUtils.hh"
#include "orange/OrangeTypes.hh"
#include "orange/surf/VariantSurface.hh"
#include "orange/surf/SurfaceSimplifier.hh"
#include "orange/surf/detail/AllSurfaces.hh"
#include "orange/surf/detail/SurfaceTransformer.hh"
#include "orange/surf/detail/SurfaceTranslator.hh"
#include "orange/transform/SignedPermutation.hh"
#include "orange/transform/Transformation.hh"
#include "orange/transform/Translation.hh"
#include "orange/transform/NoTransformation.hh"
#include "orange/transform/TransformSimplifier.hh"
#include "orange/transform/VariantTransform.hh"

using namespace celeritas;
using verif::hex;
using verif::rd;

template<class S>
S from_data(std::vector<double> const& d)
{
    using SpanT = typename S::StorageSpan;
    if (d.size() != SpanT::extent)
        throw std::runtime_error("bad data size");
    return S{SpanT{d.data(), SpanT::extent}};
}

VariantSurface make_surface(std::string const& t, std::vector<double> const& d)
{
#define MK(NAME, CLS) \
    if (t == NAME) return VariantSurface{std::in_place_type<CLS>, from_data<CLS>(d)}
    MK("px", PlaneX); MK("py", PlaneY); MK("pz", PlaneZ);
    MK("cxc", CCylX); MK("cyc", CCylY); MK("czc", CCylZ);
    MK("sc", SphereCentered);
    MK("cx", CylX); MK("cy", CylY); MK("cz", CylZ);
    MK("p", Plane); MK("s", Sphere);
    MK("kx", ConeX); MK("ky", ConeY); MK("kz", ConeZ);
    MK("sq", SimpleQuadric); MK("gq", GeneralQuadric);
    MK("inv", Involute);
#undef MK
    throw std::runtime_error("unknown surface type " + t);
}

void print_surface(std::ostream& os, VariantSurface const& v)
{
    std::visit(
        [&os](auto const& s) {
            using S = std::decay_t<decltype(s)>;
            os << " " << to_cstring(S::surface_type());
            auto d = s.data();
            os << " " << d.size();
            for (auto x : d) os << " " << hex(x);
        },
        v);
}

int sense_of(VariantSurface const& v, Real3 const& p)
{
    return std::visit([&p](auto const& s) { return static_cast<int>(s.calc_sense(p)); }, v);
}

Real3 rd3(std::istream& is)
{
    Real3 r; for (auto& x : r) x = rd(is); return r;
}
void pr3(std::ostream& os, Real3 const& v)
{
    for (auto x : v) os << " " << hex(x);
}

// Convert any std::variant<monostate, A, B...> result of the simplifier
template<class V>
bool assign_simplified(V&& result, VariantSurface& out)
{
    return std::visit(
        [&out](auto&& s) -> bool {
            using S = std::decay_t<decltype(s)>;
            if constexpr (std::is_same_v<S, std::monostate>) { return false; }
            else { out = VariantSurface{std::in_place_type<S>, s}; return true; }
        },
        std::forward<V>(result));
}

int main()
{
    std::string line;
    while (std::getline(std::cin, line))
    {
        if (line.empty()) continue;
        std::istringstream is(line);
        std::ostringstream os;
        std::string cmd; is >> cmd;
        try
        {
            if (cmd == "eval")
            {
                std::string t; is >> t;
                auto data = verif::rdvec(is);
                auto surf = make_surface(t, data);
                Real3 p = rd3(is), d = rd3(is);
                int on; is >> on;
                double delta = rd(is);
                auto state = on ? SurfaceState::on : SurfaceState::off;
                std::visit(
                    [&](auto const& s) {
                        os << "ok " << static_cast<int>(s.calc_sense(p));
                        auto ints = s.calc_intersections(p, d, state);
                        os << " " << ints.size();
                        for (auto x : ints) os << " " << hex(x);
                        pr3(os, s.calc_normal(p));
                        for (auto x : ints)
                        {
                            if (!(x < 1e300)) continue;
                            Real3 lo = p, hi = p;
                            for (int i = 0; i < 3; ++i)
                            {
                                lo[i] = p[i] + (x - delta) * d[i];
                                hi[i] = p[i] + (x + delta) * d[i];
                            }
                            os << " " << static_cast<int>(s.calc_sense(lo)) << " "
                               << static_cast<int>(s.calc_sense(hi));
                        }
                    },
                    surf);
            }
            else if (cmd == "xlate" || cmd == "xform")
            {
                std::string t; is >> t;
                auto data = verif::rdvec(is);
                auto surf = make_surface(t, data);
                VariantSurface out = surf;
                Transformation tf;
                if (cmd == "xlate")
                {
                    Real3 tra = rd3(is);
                    Translation tr{tra};
                    tf = Transformation{tr};
                    out = std::visit(return_as<VariantSurface>(detail::SurfaceTranslator{tr}), surf);
                }
                else
                {
                    SquareMatrixReal3 rot;
                    for (auto& row : rot) row = rd3(is);
                    Real3 tra = rd3(is);
                    tf = Transformation{rot, tra};
                    out = std::visit(return_as<VariantSurface>(detail::SurfaceTransformer{tf}), surf);
                }
                os << "ok";
                print_surface(os, out);
                std::size_t npts; is >> npts;
                for (std::size_t i = 0; i < npts; ++i)
                {
                    Real3 p = rd3(is);
                    Real3 up = tf.transform_up(p);
                    os << " " << sense_of(surf, p) << " " << sense_of(out, up);
                    pr3(os, up);
                    pr3(os, tf.transform_down(up));
                    pr3(os, tf.transform_up(tf.transform_down(p)));
                }
            }
            else if (cmd == "simpl")
            {
                std::string t; is >> t;
                auto data = verif::rdvec(is);
                auto surf = make_surface(t, data);
                double tol = rd(is);
                Sense sense = Sense::inside;
                VariantSurface out = surf;
                bool changed = std::visit(
                    [&](auto const& s) { return assign_simplified(SurfaceSimplifier{&sense, tol}(s), out); },
                    surf);
                os << "ok " << (changed ? 1 : 0) << " " << (sense == Sense::inside ? 0 : 1);
                print_surface(os, out);
                std::size_t npts; is >> npts;
                for (std::size_t i = 0; i < npts; ++i)
                {
                    Real3 p = rd3(is);
                    os << " " << sense_of(surf, p) << " " << sense_of(out, p);
                }
            }
            else if (cmd == "simplc")
            {
                // the whole simplifier chain: apply until nothing changes (as RecursiveSimplifier does)
                std::string t; is >> t;
                auto data = verif::rdvec(is);
                auto surf = make_surface(t, data);
                double tol = rd(is);
                Sense sense = Sense::inside;
                VariantSurface cur = surf;
                int passes = 0;
                for (; passes < 8; ++passes)
                {
                    VariantSurface next = cur;
                    bool changed = std::visit(
                        [&](auto const& s) { return assign_simplified(SurfaceSimplifier{&sense, tol}(s), next); },
                        cur);
                    if (!changed) break;
                    cur = next;
                }
                os << "ok " << passes << " " << (sense == Sense::inside ? 0 : 1);
                print_surface(os, cur);
                std::size_t npts; is >> npts;
                for (std::size_t i = 0; i < npts; ++i)
                {
                    Real3 p = rd3(is);
                    os << " " << sense_of(surf, p) << " " << sense_of(cur, p);
                }
            }
            else if (cmd == "mkrot")
            {
                Real3 ax = rd3(is);
                double turn = rd(is);
                auto r = make_rotation(ax, Turn{turn});
                os << "ok";
                for (auto const& row : r) pr3(os, row);
                os << " " << hex(determinant(r));
            }
            else if (cmd == "sperm")
            {
                SignedPermutation::SignedAxes sa;
                for (auto ax : {Axis::x, Axis::y, Axis::z})
                {
                    std::string s; int a; is >> s >> a;
                    sa[ax] = {s[0], to_axis(a)};
                }
                SignedPermutation sp{sa};
                auto stored = sp.data();
                SignedPermutation sp2{SignedPermutation::StorageSpan{stored.data(), 1}};
                os << "ok " << hex(stored[0]);
                std::size_t npts; is >> npts;
                for (std::size_t i = 0; i < npts; ++i)
                {
                    Real3 p = rd3(is);
                    Real3 up = sp2.rotate_up(p);
                    pr3(os, up);
                    pr3(os, sp2.rotate_down(up));
                    pr3(os, sp2.rotate_up(sp2.rotate_down(p)));
                }
            }
            else if (cmd == "tsimp")
            {
                // TransformSimplifier on a Translation (kind 1) or a Transformation (kind 2)
                int kind; is >> kind;
                SquareMatrixReal3 rot;
                for (auto& row : rot) row = rd3(is);
                Real3 tra = rd3(is);
                double eps = rd(is);
                Tolerance<> tol; tol.rel = eps; tol.abs = eps;
                VariantTransform orig;
                if (kind == 0) orig = NoTransformation{};
                else if (kind == 1) orig = Translation{tra};
                else orig = Transformation{rot, tra};
                VariantTransform out = std::visit(TransformSimplifier{tol}, orig);
                os << "ok " << out.index();
                std::visit(
                    [&os](auto const& t) {
                        auto d = t.data();
                        os << " " << d.size();
                        for (auto x : d) os << " " << hex(x);
                    },
                    out);
                std::size_t npts; is >> npts;
                for (std::size_t i = 0; i < npts; ++i)
                {
                    Real3 p = rd3(is);
                    pr3(os, std::visit([&p](auto const& t) { return t.transform_up(p); }, orig));
                    pr3(os, std::visit([&p](auto const& t) { return t.transform_up(p); }, out));
                }
            }
            else { os << "unknown"; }
        }
        catch (std::exception const& e)
        {
            os.str("");
            std::string w = e.what();
            for (auto& c : w) if (c == '\n') c = ' ';
            os << "error " << w.substr(0, 200);
        }
        std::cout << os.str() << "\n";
    }
    return 0;
}
