"""C12 — surface primitives and surface transforms.

proofs (Properties_C12.v)  +  differential of the float model (coq/C12/Run.v)
against the real header-only surface classes / liborange transformer, translator,
simplifier  +  relational property oracle on the implementation's outputs
(exact rational ray polynomial as reference)."""
import math, os, sys
from fractions import Fraction as Fr
import vlib
from vlib import hexf, close

HERE = os.path.dirname(os.path.abspath(__file__))
PRE = ("From Coq Require Import ZArith List Floats.\n"
       "From Celer Require Import Base.Num Base.NumF Base.Vec3 C12.Solver C12.Surfaces C12.Transforms C12.TransformSimplify C12.Run.\n"
       "Import ListNotations.\nOpen Scope float_scope.\n")
EPS = 2.0 ** -52
INF = float("inf")
TYPES = ["px", "py", "pz", "cxc", "cyc", "czc", "sc", "cx", "cy", "cz", "p", "s", "kx", "ky", "kz", "sq", "gq"]
AXN = {"x": 0, "y": 1, "z": 2}
AXC = ["AX", "AY", "AZ"]
MIN_A = 1e-5 * 1e-5
# Findings whose repair in /repo is pending: while a signature is listed here
# (and has no known_findings.json entry) a hit is logged as a note instead of
# failing the check.  Both C12 findings are fixed in /repo (564387d translator,
# cd06731 solve_along_surface), so the set is empty: a regression is a VIOLATION.
PENDING_FIX = set()
_gated_seen = set()


def report(ctx, kind, what, replay, signature=None):
    """ctx.violation, except for the gated pending-fix signatures; returns True if it counts as a violation"""
    if signature in PENDING_FIX and not any(k.get("signature") == signature for k in ctx.known):
        if signature not in _gated_seen:
            _gated_seen.add(signature)
            ctx.notes.append("finding '%s' reproduced on the implementation but NOT reported (repair pending, gated in props/C12/run.py PENDING_FIX): %s; replay %r"
                             % (signature, what, replay))
            ctx.log("finding '%s' reproduced; gated (repair pending): %s" % (signature, what[:160]))
        ctx.count("gated-finding:" + signature)
        return False
    ctx.violation(kind, what, replay, signature=signature)
    return signature is None


def uv(t):
    return (1 if t == 0 else 0), (1 if t == 2 else 2)


# ---------------------------------------------------------------------------
# exact reference: every surface as a general quadric with rational coefficients

def gq_form(ty, d):
    """-> (abc, cross(def: xy,yz,zx), ghi, j) as Fractions"""
    D = [Fr(x) for x in d]
    Z = Fr(0)
    abc, cr, g, j = [Z, Z, Z], [Z, Z, Z], [Z, Z, Z], Z
    if ty in ("px", "py", "pz"):
        g[AXN[ty[1]]] = Fr(1); j = -D[0]
    elif ty in ("cxc", "cyc", "czc", "cx", "cy", "cz"):
        t = AXN[ty[1]]; u, v = uv(t)
        ou, ov, r = (Z, Z, D[0]) if len(ty) == 3 else D
        abc[u] = abc[v] = Fr(1); g[u] = -2 * ou; g[v] = -2 * ov; j = ou * ou + ov * ov - r
    elif ty in ("sc", "s"):
        o, r = ([Z, Z, Z], D[0]) if ty == "sc" else (D[:3], D[3])
        abc = [Fr(1)] * 3; g = [-2 * x for x in o]; j = sum(x * x for x in o) - r
    elif ty == "p":
        g = D[:3]; j = -D[3]
    elif ty in ("kx", "ky", "kz"):
        t = AXN[ty[1]]; u, v = uv(t); o, q = D[:3], D[3]
        abc[u] = abc[v] = Fr(1); abc[t] = -q
        g[u] = -2 * o[u]; g[v] = -2 * o[v]; g[t] = 2 * q * o[t]
        j = o[u] ** 2 + o[v] ** 2 - q * o[t] ** 2
    elif ty == "sq":
        abc, g, j = D[:3], D[3:6], D[6]
    elif ty == "gq":
        abc, cr, g, j = D[:3], D[3:6], D[6:9], D[9]
    else:
        raise ValueError(ty)
    return abc, cr, g, j


def f_exact(q, p):
    abc, cr, g, j = q
    x, y, z = p
    return (abc[0] * x * x + abc[1] * y * y + abc[2] * z * z + cr[0] * x * y + cr[1] * y * z + cr[2] * z * x
            + g[0] * x + g[1] * y + g[2] * z + j)


def f_mag(q, p):
    abc, cr, g, j = q
    x, y, z = p
    return float(abs(abc[0] * x * x) + abs(abc[1] * y * y) + abs(abc[2] * z * z) + abs(cr[0] * x * y)
                 + abs(cr[1] * y * z) + abs(cr[2] * z * x) + abs(g[0] * x) + abs(g[1] * y) + abs(g[2] * z) + abs(j))


def grad_exact(q, p):
    abc, cr, g, j = q
    x, y, z = p
    return [2 * abc[0] * x + cr[0] * y + cr[2] * z + g[0],
            2 * abc[1] * y + cr[0] * x + cr[1] * z + g[1],
            2 * abc[2] * z + cr[1] * y + cr[2] * x + g[2]]


def ray_poly(q, p, d):
    """exact (A, B, C): f(p + t d) = A t^2 + 2 B t + C"""
    abc, cr, g, j = q
    A = f_exact((abc, cr, [Fr(0)] * 3, Fr(0)), d)
    gr = grad_exact(q, p)
    B = sum(a * b for a, b in zip(gr, d)) / 2
    return A, B, f_exact(q, p)


def fsqrt(x):
    """sqrt of a non-negative Fraction to ~1e-16 relative"""
    if x <= 0:
        return 0.0
    n, dn = x.numerator, x.denominator
    sh = max(0, 2 * ((dn.bit_length() - n.bit_length() + 130) // 2))
    return math.isqrt((n << sh) // dn) / (2.0 ** (sh // 2)) if sh < 2000 else math.sqrt(float(x))


def exact_roots(A, B, C):
    """positive real roots (as floats) of A t^2 + 2 B t + C, sorted; and the discriminant sign info"""
    if A == 0:
        if B == 0:
            return []
        r = -C / (2 * B)
        return [float(r)] if r > 0 else []
    disc = B * B - A * C
    if disc < 0:
        return []
    s = fsqrt(disc)
    fa, fb = float(A), float(B)
    # avoid cancellation: q = -(B + sign(B) s); roots q/A and C/q
    if B >= 0:
        qv = -(fb + s)
    else:
        qv = -(fb - s)
    roots = []
    if qv != 0:
        roots = [qv / fa, float(C) / qv]
    else:
        roots = [0.0]
    if disc == 0:
        roots = [-fb / fa]
    return sorted(r for r in set(roots) if r > 0)


# ---------------------------------------------------------------------------
# generators

def logu(r, lo, hi):
    return 10 ** r.uniform(lo, hi)


def unit(r, kind="generic"):
    while True:
        v = [r.gauss(0, 1) for _ in range(3)]
        n = math.sqrt(sum(x * x for x in v))
        if n > 1e-3:
            return [x / n for x in v]


def norm3(v):
    n = math.sqrt(sum(x * x for x in v))
    return [x / n for x in v]


def rnd_pt(r, L):
    return [r.uniform(-1, 1) * L for _ in range(3)]


def gen_surface(r, ty, L):
    """-> data list; L = size scale"""
    if ty in ("px", "py", "pz"):
        return [r.choice([0.0, r.uniform(-1, 1) * L, float(r.randint(-8, 8))])]
    if ty in ("cxc", "cyc", "czc"):
        R = r.choice([L, float(r.choice([5, 13, 25]))]); return [R * R]
    if ty == "sc":
        R = r.choice([L, float(r.choice([5, 13, 25]))]); return [R * R]
    if ty in ("cx", "cy", "cz"):
        R = r.choice([L, 5.0, 13.0])
        o = r.choice([[float(r.randint(-9, 9)), float(r.randint(-9, 9))], [r.uniform(-3, 3) * L, r.uniform(-3, 3) * L]])
        return o + [R * R]
    if ty == "p":
        c = r.random()
        if c < 0.2:
            n = [0.0, 0.0, 0.0]; n[r.randrange(3)] = r.choice([1.0, -1.0])
        elif c < 0.3:
            n = norm3([0.6, 0.8, 0.0]); r.shuffle(n)
        else:
            n = unit(r)
        return n + [r.choice([0.0, r.uniform(-1, 1) * L])]
    if ty == "s":
        R = r.choice([L, 5.0, 13.0])
        o = r.choice([[float(r.randint(-9, 9)) for _ in range(3)], rnd_pt(r, 3 * L)])
        return o + [R * R]
    if ty in ("kx", "ky", "kz"):
        tan = r.choice([1.0, 0.75, r.uniform(0.05, 4)])
        o = r.choice([[float(r.randint(-9, 9)) for _ in range(3)], rnd_pt(r, 3 * L)])
        return o + [tan * tan]
    if ty == "sq":
        c = r.random()
        if c < 0.5:
            # promote a simpler surface (ellipsoid / hyperboloid / paraboloid variations)
            base = r.choice(["s", "cx", "cy", "cz", "kx", "ky", "kz", "p"])
            abc, cr, g, j = gq_form(base, gen_surface(r, base, L))
            k = r.choice([1.0, 1.0, -1.0, logu(r, -2, 2)])
            return [float(x) * k for x in abc] + [float(x) * k for x in g] + [float(j) * k]
        abc = [r.choice([0.0, 1.0, -1.0, r.uniform(-2, 2)]) for _ in range(3)]
        de = [r.choice([0.0, r.uniform(-2, 2) * L]) for _ in range(3)]
        if not any(abc) and not any(de):
            de[0] = 1.0
        return abc + de + [r.uniform(-1, 1) * L * L]
    if ty == "gq":
        c = r.random()
        if c < 0.6:
            # a rotated/translated simple surface, built exactly in rationals then rounded
            base = r.choice(["s", "cx", "kz", "sq", "cz", "p"])
            q = gq_form(base, gen_surface(r, base, L))
            R = rnd_rotation(r)
            t = rnd_pt(r, L)
            return [float(x) for x in gq_transform_exact(q, R, t)]
        v = [r.choice([0.0, r.uniform(-2, 2)]) for _ in range(6)] + [r.uniform(-2, 2) * L for _ in range(3)]
        if not any(v):
            v[6] = 1.0
        return v + [r.uniform(-1, 1) * L * L]
    raise ValueError(ty)


def rnd_rotation(r, reflect=False):
    ax = unit(r)
    th = r.uniform(0, math.pi)
    c, s = math.cos(th), math.sin(th)
    X, Y, Z = ax
    R = [[c + X * X * (1 - c), X * Y * (1 - c) - Z * s, X * Z * (1 - c) + Y * s],
         [X * Y * (1 - c) + Z * s, c + Y * Y * (1 - c), Y * Z * (1 - c) - X * s],
         [X * Z * (1 - c) - Y * s, Y * Z * (1 - c) + X * s, c + Z * Z * (1 - c)]]
    if reflect:
        i = r.randrange(3)
        R[i] = [-x for x in R[i]]
    return R


def gq_transform_exact(q, R, t):
    """coefficients of f'(x') = f(R^T (x' - t)) as 10 Fractions (R rows; rational arithmetic)"""
    Rf = [[Fr(x) for x in row] for row in R]
    tf = [Fr(x) for x in t]
    abc, cr, g, j = q
    Q = [[abc[0], cr[0] / 2, cr[2] / 2], [cr[0] / 2, abc[1], cr[1] / 2], [cr[2] / 2, cr[1] / 2, abc[2]]]
    # x = R^T (x' - t): Q' = R Q R^T, g' = R g - 2 Q' t, j' = j - g'.t - t Q' t  (derived by substitution)
    RQ = [[sum(Rf[i][k] * Q[k][l] for k in range(3)) for l in range(3)] for i in range(3)]
    Qp = [[sum(RQ[i][l] * Rf[m][l] for l in range(3)) for m in range(3)] for i in range(3)]
    Rg = [sum(Rf[i][k] * g[k] for k in range(3)) for i in range(3)]
    Qt = [sum(Qp[i][k] * tf[k] for k in range(3)) for i in range(3)]
    gp = [Rg[i] - 2 * Qt[i] for i in range(3)]
    jp = j - sum(Rg[i] * tf[i] for i in range(3)) + sum(tf[i] * Qt[i] for i in range(3))
    return [Qp[0][0], Qp[1][1], Qp[2][2], 2 * Qp[0][1], 2 * Qp[1][2], 2 * Qp[0][2], gp[0], gp[1], gp[2], jp]


def on_surface_point(r, ty, d, L):
    """a point (floats) on the surface: exactly when the data is integral, else to rounding"""
    q = gq_form(ty, d)
    if ty in ("px", "py", "pz"):
        p = rnd_pt(r, L); p[AXN[ty[1]]] = d[0]; return p
    if ty in ("sc", "s", "cxc", "cyc", "czc", "cx", "cy", "cz", "kx", "ky", "kz"):
        # lattice points for integral data: (3,4,0)k / (5,12,0)k triples, cone with tsq=1: (5;3,4)
        trip = r.choice([(3.0, 4.0, 5.0), (5.0, 12.0, 13.0), (7.0, 24.0, 25.0)])
        if ty in ("sc", "s"):
            o = [0.0] * 3 if ty == "sc" else d[:3]
            R2 = d[-1]
            for tr in ((3.0, 4.0, 5.0), (5.0, 12.0, 13.0), (7.0, 24.0, 25.0)):
                if R2 == tr[2] ** 2:
                    v = [tr[0], tr[1], 0.0]; r.shuffle(v)
                    return [o[i] + v[i] * r.choice([1, -1]) for i in range(3)]
        if ty[0] == "c":
            t = AXN[ty[1]]; u, v = uv(t)
            ou, ov, R2 = (0.0, 0.0, d[0]) if len(ty) == 3 else d
            for tr in ((3.0, 4.0, 5.0), (5.0, 12.0, 13.0), (7.0, 24.0, 25.0)):
                if R2 == tr[2] ** 2:
                    p = [0.0] * 3; p[t] = r.uniform(-1, 1) * L
                    p[u] = ou + tr[0] * r.choice([1, -1]); p[v] = ov + tr[1] * r.choice([1, -1])
                    return p
        if ty[0] == "k" and d[3] == 1.0:
            t = AXN[ty[1]]; u, v = uv(t)
            p = list(d[:3]); k = r.choice([1.0, 2.0, 0.5])
            p[t] += trip[2] * k * r.choice([1, -1]); p[u] += trip[0] * k; p[v] += trip[1] * k
            return p
    # direct constructions (to rounding)
    if ty in ("sc", "s"):
        o = [0.0] * 3 if ty == "sc" else d[:3]
        R = math.sqrt(d[-1]); u3 = unit(r)
        return [o[i] + R * u3[i] for i in range(3)]
    if ty[0] == "c":
        t = AXN[ty[1]]; u, v = uv(t)
        ou, ov, R2 = (0.0, 0.0, d[0]) if len(ty) == 3 else d
        ph = r.uniform(0, 2 * math.pi); p = [0.0] * 3
        p[t] = r.uniform(-1, 1) * L; p[u] = ou + math.sqrt(R2) * math.cos(ph); p[v] = ov + math.sqrt(R2) * math.sin(ph)
        return p
    if ty[0] == "k":
        t = AXN[ty[1]]; u, v = uv(t)
        h = r.uniform(-2, 2) * L; ph = r.uniform(0, 2 * math.pi); p = list(d[:3]); rad = abs(h) * math.sqrt(d[3])
        p[t] += h; p[u] += rad * math.cos(ph); p[v] += rad * math.sin(ph)
        return p
    # generic: shoot a ray towards the surface from a random point and take the exact root
    for k in range(40):
        p0 = rnd_pt(r, L * 10 ** r.uniform(-1, 1.5)); dd = unit(r)
        A, B, C = ray_poly(q, [Fr(x) for x in p0], [Fr(x) for x in dd])
        rs = exact_roots(A, B, C)
        if rs:
            t = rs[0]
            return [p0[i] + t * dd[i] for i in range(3)]
    return None


def gen_dir(r, ty, d, p):
    c = r.random()
    if c < 0.5:
        return unit(r), "generic"
    if c < 0.7:
        v = [0.0] * 3; v[r.randrange(3)] = r.choice([1.0, -1.0]); return v, "axis"
    if c < 0.8:
        # nearly axis-parallel: inside / around the sqrt_quadratic window of the cylinders
        ax = r.randrange(3); e = r.choice([1e-6, 9e-6, 1.1e-5, 1e-4, 3e-3])
        v = [r.gauss(0, 1) * e for _ in range(3)]; v[ax] = r.choice([1.0, -1.0])
        return norm3(v), "near-axis"
    # tangent: orthogonal to the gradient at p (or at a point on the surface)
    q = gq_form(ty, d)
    g = [float(x) for x in grad_exact(q, [Fr(x) for x in p])]
    gn = math.sqrt(sum(x * x for x in g))
    if gn == 0:
        return unit(r), "generic"
    w = unit(r)
    k = sum(w[i] * g[i] for i in range(3)) / (gn * gn)
    v = [w[i] - k * g[i] for i in range(3)]
    if math.sqrt(sum(x * x for x in v)) < 1e-3:
        return unit(r), "generic"
    return norm3(v), "tangent"


def gen_eval_cases(ctx, n):
    r = ctx.rng
    cases = []
    # corpus: the along-surface zero-distance witness (cone generator crossing direction)
    cases.append(("kz", [0.0, 0.0, 0.0, 1.0], [1.0, 0.0, 1.0], norm3([1.0, 0.0, -1.0]), 0, "corpus-along-zero"))
    for i in range(n):
        ty = TYPES[i % len(TYPES)]
        L = logu(r, -2, 3) if r.random() < 0.5 else 1.0
        d = gen_surface(r, ty, L)
        c = r.random()
        on = 0
        if c < 0.35:
            p = rnd_pt(r, 2 * L); pk = "near"
        elif c < 0.6:
            p = on_surface_point(r, ty, d, L); pk = "on"
            on = 1 if r.random() < 0.6 else 0
            if p is not None:
                qq = gq_form(ty, d); PP = [Fr(x) for x in p]
                if abs(float(f_exact(qq, PP))) > 1e-9 * f_mag(qq, PP):
                    p = None
            if p is None:
                p = rnd_pt(r, 2 * L); pk = "near"; on = 0
        elif c < 0.75:
            p = [x * 1e8 for x in unit(r)]; p = [x * L for x in p]; pk = "far"
        elif c < 0.85:
            # centre / axis / apex of the surface
            p = special_point(ty, d, r, L); pk = "centre"
        else:
            p = rnd_pt(r, 30 * L); pk = "outside"
        dr, dk = gen_dir(r, ty, d, p)
        if pk == "far" and r.random() < 0.7:
            # aim at the surface region
            tgt = rnd_pt(r, L); v = [tgt[k] - p[k] for k in range(3)]; dr = norm3(v); dk = "aimed"
        cases.append((ty, d, p, dr, on, pk + "/" + dk))
    return cases


def special_point(ty, d, r, L):
    if ty in ("sc", "cxc", "cyc", "czc"):
        p = [0.0] * 3
        if ty != "sc":
            p[AXN[ty[1]]] = r.uniform(-1, 1) * L
        return p
    if ty == "s":
        return list(d[:3])
    if ty in ("cx", "cy", "cz"):
        t = AXN[ty[1]]; u, v = uv(t); p = [0.0] * 3; p[u] = d[0]; p[v] = d[1]; p[t] = r.uniform(-1, 1) * L
        return p
    if ty in ("kx", "ky", "kz"):
        return list(d[:3])
    return rnd_pt(r, L)


# ---------------------------------------------------------------------------
# Coq expression builders

def v3(v):
    return "(V3 %s %s %s)" % tuple(hexf(x) for x in v)


def coq_surf(ty, d):
    h = [hexf(x) for x in d]
    if ty in ("px", "py", "pz"):
        return "(SPlaneAligned %s %s)" % (AXC[AXN[ty[1]]], h[0])
    if ty in ("cxc", "cyc", "czc"):
        return "(SCylCentered %s %s)" % (AXC[AXN[ty[1]]], h[0])
    if ty == "sc":
        return "(SSphereCentered %s)" % h[0]
    if ty in ("cx", "cy", "cz"):
        return "(SCylAligned %s %s %s %s)" % (AXC[AXN[ty[1]]], h[0], h[1], h[2])
    if ty == "p":
        return "(SPlane %s %s)" % (v3(d[:3]), h[3])
    if ty == "s":
        return "(SSphere %s %s)" % (v3(d[:3]), h[3])
    if ty in ("kx", "ky", "kz"):
        return "(SConeAligned %s %s %s)" % (AXC[AXN[ty[1]]], v3(d[:3]), h[3])
    if ty == "sq":
        return "(SSimpleQuadric %s %s %s)" % (v3(d[:3]), v3(d[3:6]), h[6])
    if ty == "gq":
        return "(SGeneralQuadric %s %s %s %s)" % (v3(d[:3]), v3(d[3:6]), v3(d[6:9]), h[9])
    raise ValueError(ty)


def hx(xs):
    return " ".join(float(x).hex() for x in xs)


def pf(tok):
    return float(tok) if tok in ("nan", "inf", "-inf") else float.fromhex(tok)


def perturb(r, xs):
    return [x * (1 + r.choice([-1, 1]) * 2.0 ** -50) for x in xs]


# ---------------------------------------------------------------------------

def run(ctx):
    quick = ctx.tier == "quick"
    n_eval = int(os.environ.get("VERIF_C12_N", 0)) or (3000 if quick else 40000)
    n_tr = max(60, n_eval // 7)
    ctx.trusted += [
        "hand-written model coq/C12/{Solver,Surfaces,Transforms,Simplify,TransformSimplify,Involute}.v tied by differential testing (props/C12/run.py, harness/surfaces.cc)",
        "float instance of Num (Base/NumF.v); gap R vs binary64 rounding (DESIGN.md 3.1): catastrophic cancellation is outside the R theorems and exercised by the float search only",
        "exact rational reference for the ray polynomial in props/C12/run.py (fractions.Fraction)",
    ]
    ctx.assumptions += [
        "directions are unit vectors (spheres and cylinders take a = 1 resp. 1 - w_T^2 for granted)",
        "exactness of calc_intersections is claimed outside the documented tolerance window |a| < 1e-10 (C12_solve_window_partial)",
        "SurfaceSimplifier: relational oracle only (snapping moves the surface by <= tol; exactness only for exact zeros)",
        "Involute: constants::pi is the real PI in the theorems; the solver theorem assumes the IllinoisRootFinder calls converged (C12_illinois_converged); completeness of the root bracketing is not proved",
        "TransformSimplifier: rotation matrices are orthogonal and 0 <= eps, eps^2 < 2 (a valid Tolerance has 0 < rel < 1); binary64 cannot resolve 3 - tr below ~1e-15 (NOTES.md O2)",
    ]
    proofs_ok = ctx.coq_prove("Properties_C12.v")
    ok, _ = ctx.coq_build(["C12/Run.vo"])
    if not ok:
        ctx.violation("model-broken", "the executable model no longer compiles", getattr(ctx, "broken_proof", {}), no_input=True)
        return
    ctx.build_libs(["orange"])
    exe = ctx.compile_harness([os.path.join(HERE, "harness", "surfaces.cc")], "surfaces",
                              libs=["orange", "geocel", "corecel"])
    found_input = False
    found_input |= check_eval(ctx, exe, n_eval)
    found_input |= check_transforms(ctx, exe, n_tr)
    found_input |= check_sperm(ctx, exe)
    found_input |= check_tsimp(ctx, exe, 400 if quick else 4000)
    found_input |= check_involute(ctx, exe, 200 if quick else 4000)
    found_input |= check_simplifier_chain(ctx, exe, 600 if quick else 8000)
    if not proofs_ok and not found_input:
        ctx.violation("proof-broken", "Properties_C12.v no longer checks", ctx.broken_proof, no_input=True)
    elif not proofs_ok:
        ctx.violation("proof-broken", "Properties_C12.v no longer checks", ctx.broken_proof, no_input=True)
    ctx.coverage["rule"] = ("eval cases = (surface type, parameters, position kind {near,on(constructed),far 1e8 x size,centre/axis,outside}, "
                            "direction kind {generic,axis,near-axis,tangent,aimed}, on/off) from one PRNG seeded by VERIF_SEED; "
                            "non-trivial = at least one finite intersection or a defined normal; transform cases = (surface, translation|rotation|reflection, points)")


NPERT = 3


def check_eval(ctx, exe, n):
    r = ctx.rng
    cases = gen_eval_cases(ctx, n)
    lines = []
    for ty, d, p, dr, on, kind in cases:
        L = max(1e-300, max(abs(x) for x in d + p if abs(x) < 1e300) if any(d + p) else 1.0)
        delta = 1e-5 * size_of(ty, d)
        lines.append("eval %s %d %s %s %s %d %s" % (ty, len(d), hx(d), hx(p), hx(dr), on, float(delta).hex()))
        for k in range(NPERT):
            lines.append("eval %s %d %s %s %s %d %s" % (ty, len(d), hx(perturb(r, d)), hx(perturb(r, p)),
                                                        hx(perturb(r, dr)), on, float(delta).hex()))
    ctx.log("generated %d eval cases" % len(cases))
    rc, out = ctx.run_harness(exe, input="\n".join(lines) + "\n")
    outl = out.strip().splitlines()
    if rc != 0 or len(outl) != len(lines):
        raise vlib.BuildError("surface harness failed rc=%d" % rc, out[-2000:])
    ctx.log("harness done")
    exprs = ["run_eval %s %s %s %s" % (coq_surf(ty, d), v3(p), v3(dr), "true" if on else "false")
             for ty, d, p, dr, on, kind in cases]
    mvals = ctx.coq_eval("eval", PRE, exprs, chunk=min(400, max(50, len(exprs) // 16 + 1)), timeout=1200)
    ctx.log("model evaluated")
    nviol = 0
    found = False
    for ci, (case, mv) in enumerate(zip(cases, mvals)):
        ty, d, p, dr, on, kind = case
        res = [parse_eval(outl[ci * (NPERT + 1) + k]) for k in range(NPERT + 1)]
        impl = res[0]
        ctx.count("type:" + ty); ctx.count("kind:" + kind); ctx.count("state:" + ("on" if on else "off"))
        if impl is None or any(x is None for x in res):
            ctx.violation("tie-broken", "harness error on eval case", {"case": case, "out": outl[ci * (NPERT + 1)]}, no_input=True)
            nviol += 1
            continue
        sense, ints, nrm, flips = impl
        fin = [t for t in ints if t < 1e300]
        ctx.case((ty, d, p, dr, on), nontrivial=bool(fin) or nrm[0] == nrm[0])
        if ci < 40:
            ctx.sample({"type": ty, "data": d, "pos": p, "dir": dr, "on": on, "kind": kind,
                        "impl": {"sense": sense, "intersections": ints, "normal": nrm}, "model": mv})
        # sensitivity of the implementation to 2^-50 relative input perturbations
        knife = any(len([t for t in x[1] if t < 1e300]) != len(fin) or
                    [i for i, t in enumerate(x[1]) if t < 1e300] != [i for i, t in enumerate(ints) if t < 1e300]
                    for x in res[1:])
        spread = [0.0] * len(ints)
        if not knife:
            for x in res[1:]:
                for i, t in enumerate(ints):
                    if t < 1e300:
                        spread[i] = max(spread[i], abs(x[1][i] - t))
        sense_knife = any(x[0] != sense for x in res[1:])
        nspread = max(max(abs(x[2][i] - nrm[i]) if nrm[i] == nrm[i] and x[2][i] == x[2][i] else 0.0 for i in range(3)) for x in res[1:])
        # ---- property oracle on the implementation -------------------------
        v = oracle_eval(ctx, case, impl, knife, spread, sense_knife, nspread)
        if v:
            what, sig = v
            if report(ctx, "oracle", "%s (%s, %s)" % (what, ty, kind),
                      {"surface": ty, "data": d, "pos": p, "dir": dr, "on_surface": on,
                       "impl": {"sense": sense, "intersections": ints, "normal": nrm, "senses_across": flips},
                       "model": mv}, signature=sig):
                found = True
                nviol += 1
            if nviol > 8:
                break
            continue
        # ---- correspondence model vs implementation ------------------------
        msense, mints, mnrm = mv
        bad = None
        qq = gq_form(ty, d); PP = [Fr(x) for x in p]
        if msense != sense and not sense_knife and \
           abs(float(f_exact(qq, PP))) > 64 * EPS * f_mag(qq, PP) * (1e8 if kind.startswith("far") else 1.0):
            bad = "sense"
        elif len(mints) != len(ints):
            bad = "intersection count"
        else:
            same_pat = all((a < 1e300) == (b < 1e300) for a, b in zip(mints, ints))
            if not same_pat and ty in ("kx", "ky", "kz", "sq", "gq") and not on and mints[0] == 0 and ints[0] == INF:
                # (only while the model was the pre-repair `< 0` variant)
                ctx.count("along-surface-matches-repaired-model")
            elif not same_pat:
                if not knife and not ill_conditioned(case):
                    bad = "intersection pattern"
                else:
                    ctx.count("knife-edge-accepted")
            else:
                for i, (a, b) in enumerate(zip(mints, ints)):
                    if b < 1e300 and not (abs(a - b) <= 1e-9 * abs(b) + 256 * spread[i] + 1e-300) and not knife \
                       and not ill_conditioned(case):
                        bad = "intersection value"
            if bad is None:
                for a, b in zip(mnrm, nrm):
                    if (a != a) != (b != b):
                        bad = "normal NaN-ness"
                    elif a == a and abs(a - b) > 1e-9 + 256 * nspread:
                        bad = "normal value"
        if bad:
            nviol += 1
            ctx.violation("correspondence", "model and implementation differ in %s for %s (%s)" % (bad, ty, kind),
                          {"surface": ty, "data": d, "pos": p, "dir": dr, "on_surface": on,
                           "impl": {"sense": sense, "intersections": ints, "normal": nrm}, "model": mv,
                           "spread": spread, "theorem": "Properties_C12.v is about a model that no longer matches the code"},
                          no_input=True)
            if nviol > 8:
                break
    ctx.coverage["traces_validated_against_impl"] = len(cases)
    return found


def ill_conditioned(case):
    """the number/value of roots is decided within rounding noise of the exact ray polynomial
    (tangent ray, ray parallel to a plane, start point 1e8 sizes away): either answer is acceptable"""
    ty, d, p, dr, on, kind = case
    q = gq_form(ty, d)
    P = [Fr(x) for x in p]; D = [Fr(x) for x in dr]
    A, B, C = ray_poly(q, P, D)
    gr = grad_exact(q, P)
    magB = float(sum(abs(a * b) for a, b in zip(gr, D))) / 2 + 64 * EPS * f_mag((q[0], q[1], [Fr(0)] * 3, Fr(0)), P) ** 0.5
    mag = f_mag(q, P)
    if not on and abs(float(C)) <= 256 * EPS * mag:
        return True     # start point on the surface to rounding with state "off": a root at ~0 may or may not appear
    if abs(float(A)) < 4 * MIN_A:
        return abs(float(B)) <= 4096 * EPS * max(magB, 1e-300) or abs(float(B)) <= 4 * MIN_A
    disc = B * B - A * (Fr(0) if on else C)
    return abs(float(disc)) <= 4096 * EPS * (float(B * B) + abs(float(A)) * mag + magB * magB)


def size_of(ty, d):
    if ty in ("sc", "cxc", "cyc", "czc"):
        return math.sqrt(abs(d[0]))
    if ty in ("cx", "cy", "cz"):
        return math.sqrt(abs(d[2]))
    if ty == "s":
        return math.sqrt(abs(d[3]))
    return 1.0


def parse_eval(line):
    tok = line.split()
    if not tok or tok[0] != "ok":
        return None
    sense = int(tok[1]); n = int(tok[2])
    ints = [pf(t) for t in tok[3:3 + n]]
    nrm = [pf(t) for t in tok[3 + n:6 + n]]
    rest = [int(t) for t in tok[6 + n:]]
    flips = [(rest[2 * i], rest[2 * i + 1]) for i in range(len(rest) // 2)]
    return sense, ints, nrm, flips


def oracle_eval(ctx, case, impl, knife, spread, sense_knife, nspread):
    """executable statement of C12 on the implementation's outputs; returns (what, signature) or None"""
    ty, d, p, dr, on, kind = case
    sense, ints, nrm, flips = impl
    q = gq_form(ty, d)
    P = [Fr(x) for x in p]; D = [Fr(x) for x in dr]
    A, B, C = ray_poly(q, P, D)
    fp = C
    mag = f_mag(q, P)
    # --- sense is the sign of f (unless f is within evaluation noise of 0)
    noise = 64 * EPS * mag * (1e8 if kind.startswith("far") else 1.0)
    if abs(float(fp)) > noise and not sense_knife:
        want = 1 if fp > 0 else -1
        if sense != want:
            return "calc_sense = %d but f(p) = %.17g" % (sense, float(fp)), None
    # --- intersections
    fin = [(i, t) for i, t in enumerate(ints) if t < 1e300]
    for i, t in fin:
        if not t > 0:
            if t == 0 and ty in ("kx", "ky", "kz", "sq", "gq") and abs(float(A)) < MIN_A * (1 + 1e-6) and not on \
               and abs(float(fp)) <= noise:
                return ("distance 0 returned by solve_along_surface for a start point exactly on the surface (state off)",
                        "along-surface-zero-distance")
            return "non-positive intersection distance %r" % t, None
    ts = [t for _, t in fin]
    if ts != sorted(ts):
        return "intersections not ordered: %r" % ts, None
    Ce = Fr(0) if on else C
    fa, fb = float(A), float(B)
    # the spheres/cylinders assume |d| = 1: A differs from the code's a by rounding only
    Ma = f_mag((q[0], q[1], [Fr(0)] * 3, Fr(0)), D)
    # the window test is on the *computed* a (absolute threshold 1e-10, rounding error ~ eps * Ma)
    wa = 4 * MIN_A + 1024 * EPS * Ma
    window = (ty in ("kx", "ky", "kz", "sq", "gq") and 0 < abs(fa) < wa) or \
             (ty[0] == "c" and fa < wa) or (ty in ("kx", "ky", "kz", "sq", "gq") and abs(fa) < wa and abs(fb) <= 4 * MIN_A)
    absP = [abs(x) for x in P]
    Mb = float(sum((2 * abs(q[0][k]) * absP[k] + abs(q[2][k])) * abs(D[k]) for k in range(3))
               + (abs(q[1][0]) * (absP[1] * abs(D[0]) + absP[0] * abs(D[1])) + abs(q[1][1]) * (absP[2] * abs(D[1]) + absP[1] * abs(D[2]))
                  + abs(q[1][2]) * (absP[0] * abs(D[2]) + absP[2] * abs(D[0])))) / 2
    for i, t in fin:
        T = Fr(t)
        resid = A * T * T + 2 * B * T + Ce
        slope = abs(2 * A * T + 2 * B)
        dt = 1e-9 * t + 512 * spread[i] + 1e-300
        if fa != 0:
            # the code forms the small root as -hb/a -+ sqrt(...): absolute rounding error ~ eps |hb / a|
            # (the cancellation that the 1e-10 window is there to bound)
            dt += 16 * EPS * abs(fb / fa)
        tol = float(slope) * dt + abs(fa) * dt * dt + 64 * EPS * (f_mag(q, [P[k] + T * D[k] for k in range(3)]))
        # a-priori bound: rounding of the computed coefficients a, hb, c (sums of the absolute values of their terms)
        tol += 64 * EPS * (t * t * Ma + 2 * t * Mb + mag) + 8 * EPS * t * float(slope)
        if window:
            tol += abs(fa) * t * t * 1.01
        if knife:
            continue
        if abs(float(resid)) > tol:
            return "point at reported distance %r is off the surface: residual %.3g > tol %.3g" % (t, float(resid), tol), None
    # --- no missed nearer crossing (exact roots of the exact ray polynomial)
    if not knife and not window:
        roots = exact_roots(A, B, Ce)
        if on:
            roots = [x for x in roots if x > 0]
        disc = B * B - A * Ce
        scale_t = max([abs(x) for x in roots] + [1e-300])
        cond_noise = 256 * EPS * float(abs(B * B) + abs(A * Ce)) * (1e8 if kind.startswith("far") else 1.0)
        if A != 0 and abs(float(disc)) <= cond_noise + 256 * EPS * mag * abs(fa) * (1e4 if kind.startswith("far") else 1):
            roots = []        # tangent within rounding: either answer is acceptable
        if abs(fa) < wa and (abs(fb) <= 4096 * EPS * Mb or abs(float(Ce)) <= noise):
            roots = []        # (nearly) linear ray polynomial whose slope or constant is rounding noise: -C/2B is meaningless
        first = ts[0] if ts else INF
        L = max(1.0, max(abs(x) for x in p))
        for x in roots:
            slack = 1e-7 * max(x, L * 1e-2) + (512 * spread[fin[0][0]] if fin else 0.0)
            bound = INF if first == INF else first - slack - 1e-7 * first     # (inf - inf would be NaN)
            if x > 64 * EPS * L * 1e4 + slack and x < bound:
                # a robust positive crossing nearer than anything reported
                if x > 1e-6 * L or not (abs(float(fp)) <= noise):
                    return "missed nearer crossing at t = %.17g (first reported %r)" % (x, first), None
    # --- sense flips across each simple crossing
    if not knife and len(flips) == len(fin):
        sep_ok = len(ts) < 2 or (ts[1] - ts[0]) > 1e-3 * size_of(ty, d) + 4e-5 * size_of(ty, d)
        for (i, t), (lo, hi) in zip(fin, flips):
            slope = abs(float(2 * A * Fr(t) + 2 * B))
            dl = 1e-5 * size_of(ty, d)
            if not sep_ok or kind.startswith("far") or t <= 4 * dl or window:
                continue
            # only when f at the probe points is clearly above evaluation noise
            hitmag = f_mag(q, [P[k] + Fr(t) * D[k] for k in range(3)])
            if slope * dl < 1e4 * EPS * hitmag + 4 * slope * (512 * spread[i] + 1e-9 * t) + abs(fa) * dl * dl * 4:
                continue
            if lo == 0 or hi == 0 or lo == hi:
                return "sense does not flip across the crossing at t = %r: %d -> %d" % (t, lo, hi), None
    # --- normal: unit, parallel to the (exact) gradient, same orientation
    g = [float(x) for x in grad_exact(q, P)]
    gn = math.sqrt(sum(x * x for x in g))
    if all(x == x for x in nrm):
        nn = math.sqrt(sum(x * x for x in nrm))
        if ty == "p":
            pn = math.sqrt(sum(x * x for x in d[:3]))
            if abs(nn - pn) > 1e-12:
                return "plane normal changed", None
        elif abs(nn - 1) > 1e-9:
            return "|calc_normal| = %.17g" % nn, None
        gmag = sum(abs(float(x)) for x in P) * (sum(abs(float(x)) for x in q[0]) * 2 + sum(abs(float(x)) for x in q[1])) + sum(abs(float(x)) for x in q[2])
        if gn > 1e3 * EPS * gmag and gn > 0 and nspread < 1e-7:
            cr = [nrm[1] * g[2] - nrm[2] * g[1], nrm[2] * g[0] - nrm[0] * g[2], nrm[0] * g[1] - nrm[1] * g[0]]
            crn = math.sqrt(sum(x * x for x in cr)) / (gn * nn)
            dotp = sum(nrm[i] * g[i] for i in range(3))
            if crn > 1e-7 + 64 * EPS * gmag / gn + 512 * nspread or dotp <= 0:
                return "calc_normal not along +grad f: sin = %.3g, n.g = %.3g" % (crn, dotp), None
    elif gn > 1e-6 * max(1.0, sum(abs(float(x)) for x in q[2])):
        return "calc_normal is NaN where the gradient is %r" % g, None
    return None


# ---------------------------------------------------------------------------
# transforms

def check_transforms(ctx, exe, n):
    r = ctx.rng
    cases = []
    for i in range(n):
        ty = TYPES[i % len(TYPES)]
        L = logu(r, -1, 2) if r.random() < 0.5 else 1.0
        d = gen_surface(r, ty, L)
        pts = [rnd_pt(r, 3 * L) for _ in range(4)] + [on_surface_point(r, ty, d, L) or rnd_pt(r, L)]
        c = r.random()
        tra = r.choice([rnd_pt(r, 2 * L), [float(r.randint(-4, 4)) for _ in range(3)], [0.0, 0.0, 0.0]])
        if c < 0.25:
            cases.append(("xlate", ty, d, None, tra, pts))
        elif c < 0.8:
            k = r.random()
            if k < 0.5:
                R = rnd_rotation(r)
            elif k < 0.75:
                R = rnd_rotation(r, reflect=True)
            else:
                R = signed_perm_matrix(r)
            cases.append(("xform", ty, d, R, tra, pts))
        else:
            dd = list(d)
            if r.random() < 0.5:
                # tiny coefficients / offsets to exercise snapping
                j = r.randrange(len(dd))
                keep = ty in ("sc", "cxc", "cyc", "czc") or (ty == "p" and j < 3 and abs(dd[j]) > 1e-3) \
                    or (ty in ("s", "cx", "cy", "cz", "kx", "ky", "kz") and j == len(dd) - 1)
                if not keep:       # never destroy a unit normal or a radius / opening angle
                    dd[j] = r.choice([1e-12, -1e-12, 0.0, -0.0])
            cases.append(("simpl", ty, dd, None, None, pts))
    # corpus: the SimpleQuadric translation witness (unit sphere at (1,0,0) as SQ, translated by (1,0,0))
    cases.insert(0, ("xlate", "sq", [1.0, 1.0, 1.0, -2.0, 0.0, 0.0, 0.0], None, [1.0, 0.0, 0.0],
                     [[1.0, 0.0, 0.0], [3.0, 0.0, 0.0], [0.5, 0.25, 0.0], [2.0, 0.5, 0.5], [1.0, 1.0, 0.0]]))
    for i in range(max(10, n // 10)):
        ty = r.choice(["sq", "sq", "gq"])
        L = 1.0
        d = gen_surface(r, ty, L)
        pts = [rnd_pt(r, 3 * L) for _ in range(4)] + [on_surface_point(r, ty, d, L) or rnd_pt(r, L)]
        cases.append(("xlate", ty, d, None, rnd_pt(r, 2 * L), pts))
    # simplifier: surfaces that do simplify (flips, axis alignment, converters, centring, snapping)
    for i in range(max(40, n // 4)):
        L = 1.0
        k = r.choice([1.0, 1.0, 2.5, -1.0, -3.0, 0.5])
        c = r.randrange(8)
        if c == 0:
            nrm = [0.0, 0.0, 0.0]; nrm[r.randrange(3)] = r.choice([1.0, -1.0])
            if r.random() < 0.3:
                nrm[r.randrange(3)] += r.choice([1e-12, -1e-12]) if abs(nrm[0]) + abs(nrm[1]) + abs(nrm[2]) == 1 else 0.0
            ty, d = "p", nrm + [r.choice([0.0, 1e-12, r.uniform(-2, 2)])]
        elif c == 1:
            nrm = unit(r); sg = r.choice([1, -1])
            ty, d = "p", [sg * abs(x) * r.choice([1, 1, -1]) for x in nrm] + [r.uniform(-2, 2)]
        elif c in (2, 3):
            base = r.choice(["s", "cx", "cy", "cz", "kx", "ky", "kz", "p", "sc", "czc"])
            abc, cr, g, j = gq_form(base, gen_surface(r, base, L))
            ty, d = "sq", [float(x) * k for x in abc] + [float(x) * k for x in g] + [float(j) * k]
        elif c == 4:
            base = r.choice(["s", "cx", "kz", "sq", "p"])
            abc, cr, g, j = gq_form(base, gen_surface(r, base, L))
            ty, d = "gq", [float(x) * k for x in abc] + [0.0, 0.0, 0.0] + [float(x) * k for x in g] + [float(j) * k]
        elif c == 5:
            base = r.choice(["s", "cx", "kz", "sq"])
            q0 = gq_form(base, gen_surface(r, base, L))
            ty, d = "gq", [float(x) * k for x in gq_transform_exact(q0, rnd_rotation(r), rnd_pt(r, L))]
        elif c == 6:
            ty = r.choice(["s", "cx", "cy", "cz", "kx", "px"])
            d = gen_surface(r, ty, L)
            for jx in range(len(d) - 1 if ty != "px" else 1):
                if r.random() < 0.7:
                    d[jx] = r.choice([0.0, 1e-12, -1e-12, -0.0])
        else:
            ty = r.choice(TYPES); d = gen_surface(r, ty, L)
        pts = [rnd_pt(r, 3 * L) for _ in range(4)]
        cases.append(("simpl", ty, d, None, None, pts))
    lines = []
    for cmd, ty, d, R, tra, pts in cases:
        ptxt = "%d %s" % (len(pts), " ".join(hx(p) for p in pts))
        if cmd == "xlate":
            lines.append("xlate %s %d %s %s %s" % (ty, len(d), hx(d), hx(tra), ptxt))
        elif cmd == "xform":
            lines.append("xform %s %d %s %s %s %s" % (ty, len(d), hx(d), " ".join(hx(row) for row in R), hx(tra), ptxt))
        else:
            lines.append("simpl %s %d %s %s %s" % (ty, len(d), hx(d), float(1e-10).hex(), ptxt))
    # rotation constructor
    rots = []
    for i in range(40):
        ax = unit(r); turn = r.choice([0.0, 0.25, 0.5, r.uniform(0, 0.5)])
        rots.append((ax, turn)); lines.append("mkrot %s %s" % (hx(ax), float(turn).hex()))
    rc, out = ctx.run_harness(exe, input="\n".join(lines) + "\n")
    outl = out.strip().splitlines()
    if rc != 0 or len(outl) != len(lines):
        raise vlib.BuildError("surface harness failed on transforms rc=%d" % rc, out[-2000:])
    exprs = []
    for cmd, ty, d, R, tra, pts in cases:
        pl = "[" + "; ".join(v3(p) for p in pts) + "]"
        if cmd == "xlate":
            exprs.append("run_xlate true %s %s %s" % (v3(tra), coq_surf(ty, d), pl))     # as coded (564387d)
            exprs.append("run_xlate false %s %s %s" % (v3(tra), coq_surf(ty, d), pl))    # before the repair
        elif cmd == "xform":
            exprs.append("run_xform (TF (M3 %s %s %s) %s) %s %s" % (v3(R[0]), v3(R[1]), v3(R[2]), v3(tra), coq_surf(ty, d), pl))
        else:
            exprs.append("run_simpl %s %s" % (hexf(1e-10), coq_surf(ty, d)))
    for ax, turn in rots:
        exprs.append("run_mkrot %s %s %s" % (v3(ax), hexf(math.sin(2 * math.pi * turn)), hexf(math.cos(2 * math.pi * turn))))
    mvals = ctx.coq_eval("xf", PRE, exprs, chunk=min(300, max(20, len(exprs) // 16 + 1)), timeout=1200)
    mi = 0
    found = False
    nviol = 0
    nsig = 0
    for ci, case in enumerate(cases):
        cmd, ty, d, R, tra, pts = case
        tok = outl[ci].split()
        ctx.count("transform:" + cmd)
        if tok[0] != "ok":
            if cmd == "simpl" or "not implemented" in outl[ci].lower():
                ctx.count("harness-error:" + cmd)
                mi += {"simpl": 1, "xform": 1, "xlate": 2}[cmd]
                continue
            ctx.violation("tie-broken", "harness error on transform case", {"case": case, "out": outl[ci]}, no_input=True)
            mi += {"simpl": 1, "xform": 1, "xlate": 2}[cmd]
            continue
        q = gq_form(ty, d)
        scale = max(1.0, max(abs(x) for x in d))
        if cmd in ("xlate", "xform"):
            mv = mvals[mi]; mi += 1
            mv_fixed = None
            if cmd == "xlate":
                mv_fixed = mvals[mi]; mi += 1
            ty2 = tok[1]; nd = int(tok[2]); d2 = [pf(t) for t in tok[3:3 + nd]]
            rest = tok[3 + nd:]
            per = 11
            ctx.case((cmd, ty, d, R, tra), nontrivial=True)
            bad = None
            replay = {"cmd": cmd, "surface": ty, "data": d, "rotation": R, "translation": tra, "points": pts,
                      "impl_surface": [ty2, d2], "model": mv}
            for k, p in enumerate(pts):
                so, sn = int(rest[k * per]), int(rest[k * per + 1])
                up = [pf(t) for t in rest[k * per + 2:k * per + 5]]
                du = [pf(t) for t in rest[k * per + 5:k * per + 8]]
                ud = [pf(t) for t in rest[k * per + 8:k * per + 11]]
                P = [Fr(x) for x in p]
                fv = float(f_exact(q, P)); mg = f_mag(q, P)
                tnorm = max(1.0, max(abs(x) for x in p + tra))
                # oracle: transform invariance of the sense, for points clearly off the surface
                gnrm = math.sqrt(sum(float(x) ** 2 for x in grad_exact(q, P)))
                if abs(fv) > 1e-6 * mg + 1e-9 * gnrm * tnorm and so != sn:
                    bad = "sense not preserved: sense(S)(p) = %d, sense(T S)(T p) = %d at p = %r" % (so, sn, p)
                if any(abs(du[i] - p[i]) > 1e-11 * tnorm for i in range(3)):
                    bad = "transform_down(transform_up(p)) != p: %r vs %r" % (du, p)
                if any(abs(ud[i] - p[i]) > 1e-11 * tnorm for i in range(3)):
                    bad = "transform_up(transform_down(p)) != p: %r vs %r" % (ud, p)
            # oracle: the coefficients of the new surface are those of f(R^T (x' - t)) (exact rationals)
            sig = None
            if ty2 != "inv":
                Rm = R if R is not None else [[1.0, 0, 0], [0, 1.0, 0], [0, 0, 1.0]]
                want = gq_transform_exact(q, Rm, tra)
                ga, gc, gg, gj = gq_form(ty2, d2)
                got = list(ga) + list(gc) + list(gg) + [gj]
                tn = 1 + max(abs(x) for x in tra)
                S = float(max(abs(x) for x in list(q[0]) + list(q[1])) * tn * tn + max(abs(x) for x in q[2]) * tn + abs(q[3]))
                worst = max(abs(float(a - b)) for a, b in zip(got, want))
                if worst > 1e-9 * S + 1e-300:
                    bad = ((bad + "; " if bad else "") +
                           "%s of %s does not have the coefficients of f(R^T(x' - t)): max deviation %.3g (scale %.3g); got %r, expected %r"
                           % (cmd, ty, worst, S, [float(x) for x in got], [float(x) for x in want]))
                    if cmd == "xlate" and ty == "sq":
                        sig = "translator-sq-constant-term"
            if bad:
                if sig is None or nsig == 0:
                    report(ctx, "oracle", "%s (%s %s)" % (bad, cmd, ty), replay, signature=sig)
                if sig is None:
                    found = True; nviol += 1
                    if nviol > 6:
                        break
                    continue
                nsig += 1
                ctx.count("known-signature:" + sig)
            # correspondence (for the translator: the model as coded; a match with the pre-repair
            # variant only comes with the coefficient-oracle violation above)
            if mv_fixed is not None and not (TYPES[mv[0]] == ty2 and len(mv[1]) == len(d2) and
                                            all(abs(a - b) <= 1e-9 * abs(b) + 1e-10 * max([abs(x) for x in d2] + [1e-300]) for a, b in zip(mv[1], d2))):
                mv = mv_fixed
                ctx.count("translator-matches-pre-repair-model")
            mcode, mdata = mv[0], mv[1]
            dscale = max([abs(x) for x in d2] + [1e-300])
            if TYPES[mcode] != ty2 or len(mdata) != len(d2) or \
               any(abs(a - b) > 1e-9 * abs(b) + 1e-10 * dscale for a, b in zip(mdata, d2)):
                ctx.violation("correspondence", "transformed surface differs between model and implementation (%s %s)" % (cmd, ty),
                              replay, no_input=True)
                nviol += 1
                if nviol > 6:
                    break
        else:
            mv = mvals[mi]; mi += 1
            changed, flipped = int(tok[1]), int(tok[2])
            ty2 = tok[3]; nd = int(tok[4]); d2 = [pf(t) for t in tok[5:5 + nd]]
            rest = tok[5 + nd:]
            # correspondence with the simplifier model (one pass)
            mchanged, mflip, (mcode, mdata) = mv
            dsc = max([abs(x) for x in d2] + [1e-300])
            if (bool(changed) != mchanged or bool(flipped) != mflip or TYPES[mcode] != ty2 or len(mdata) != len(d2)
                    or any(abs(a - b) > 1e-9 * abs(b) + 1e-12 * dsc for a, b in zip(mdata, d2))):
                ctx.violation("correspondence", "simplifier model and implementation differ (%s)" % ty,
                              {"cmd": cmd, "surface": ty, "data": d, "tol": 1e-10,
                               "impl": [changed, flipped, ty2, d2], "model": mv}, no_input=True)
                nviol += 1
            ctx.case((cmd, ty, d), nontrivial=bool(changed))
            ctx.count("simplified:%s->%s%s" % (ty, ty2, "(flip)" if flipped else "") if changed else "simplified:none")
            for k, p in enumerate(pts):
                so, sn = int(rest[2 * k]), int(rest[2 * k + 1])
                P = [Fr(x) for x in p]
                fv = float(f_exact(q, P)); mg = f_mag(q, P)
                if abs(fv) > 1e-6 * mg + 1e-8 * scale and sn != (-so if flipped else so):
                    ctx.violation("oracle", "simplifier changed the sense: %s -> %s, flipped=%d, sense %d -> %d" % (ty, ty2, flipped, so, sn),
                                  {"cmd": cmd, "surface": ty, "data": d, "tol": 1e-10, "point": p,
                                   "impl_surface": [ty2, d2], "flipped": flipped})
                    found = True; nviol += 1
                    break
    for k, (ax, turn) in enumerate(rots):
        tok = outl[len(cases) + k].split()
        vals = [pf(t) for t in tok[1:]]
        mv = mvals[mi]; mi += 1
        ctx.case(("mkrot", ax, turn), nontrivial=True)
        Rm = [vals[0:3], vals[3:6], vals[6:9]]
        orth = max(abs(sum(Rm[a][k2] * Rm[b][k2] for k2 in range(3)) - (1.0 if a == b else 0.0)) for a in range(3) for b in range(3))
        if orth > 1e-12 or abs(vals[9] - 1) > 1e-12:
            ctx.violation("oracle", "make_rotation result is not a rotation (|RR^T - I| = %.3g, det = %r)" % (orth, vals[9]),
                          {"axis": ax, "turn": turn, "matrix": Rm})
            found = True
        elif not close(vals, mv, rtol=1e-9, atol=1e-12):
            ctx.violation("correspondence", "make_rotation differs between model and implementation",
                          {"axis": ax, "turn": turn, "impl": vals, "model": mv}, no_input=True)
    return found


def signed_perm_matrix(r):
    perm = [0, 1, 2]; r.shuffle(perm)
    return [[(r.choice([1.0, -1.0]) if j == perm[i] else 0.0) for j in range(3)] for i in range(3)]


def check_sperm(ctx, exe):
    import itertools
    r = ctx.rng
    lines, exprs, metas = [], [], []
    for perm in itertools.permutations(range(3)):
        for signs in itertools.product("+-", repeat=3):
            M = [[(1 if signs[i] == "+" else -1) if j == perm[i] else 0 for j in range(3)] for i in range(3)]
            det = (M[0][0] * (M[1][1] * M[2][2] - M[1][2] * M[2][1]) - M[0][1] * (M[1][0] * M[2][2] - M[1][2] * M[2][0])
                   + M[0][2] * (M[1][0] * M[2][1] - M[1][1] * M[2][0]))
            pts = [rnd_pt(r, 5.0), [1.0, 2.0, 3.0]]
            lines.append("sperm %s %d %s" % (" ".join("%s %d" % (signs[i], perm[i]) for i in range(3)),
                                             len(pts), " ".join(hx(p) for p in pts)))
            exprs.append("run_sperm (%s) [%s]" % (", ".join("(%s, %s)" % ("true" if signs[i] == "-" else "false", AXC[perm[i]]) for i in range(3)),
                                                   "; ".join(v3(p) for p in pts)))
            metas.append((perm, signs, det, pts))
    rc, out = ctx.run_harness(exe, input="\n".join(lines) + "\n")
    outl = out.strip().splitlines()
    mvals = ctx.coq_eval("sperm", PRE, exprs)
    found = False
    for (perm, signs, det, pts), line, mv in zip(metas, outl, mvals):
        tok = line.split()
        ctx.case(("sperm", perm, signs), nontrivial=det == 1)
        if det != 1:
            if tok[0] != "error":
                ctx.violation("oracle", "SignedPermutation accepted an improper permutation", {"perm": perm, "signs": signs})
                found = True
            continue
        if tok[0] != "ok":
            ctx.violation("tie-broken", "SignedPermutation rejected a proper permutation", {"perm": perm, "signs": signs, "out": line}, no_input=True)
            continue
        code = pf(tok[1]); vals = [pf(t) for t in tok[2:]]
        (mcode, mvalid, mpts, mdec) = mv
        for k, p in enumerate(pts):
            up = vals[9 * k:9 * k + 3]; du = vals[9 * k + 3:9 * k + 6]; ud = vals[9 * k + 6:9 * k + 9]
            if du != p or ud != p or abs(sum(x * x for x in up) - sum(x * x for x in p)) > 1e-12 * sum(x * x for x in p):
                ctx.violation("oracle", "signed permutation is not orthogonal / down is not the inverse of up",
                              {"perm": perm, "signs": signs, "p": p, "up": up, "down_up": du, "up_down": ud})
                found = True
            if [up, du, ud] != [mpts[k][0:3], mpts[k][3:6], mpts[k][6:9]] or int(code) != mcode:
                ctx.violation("correspondence", "signed permutation model differs", {"perm": perm, "signs": signs, "impl": vals, "model": mv}, no_input=True)
    return found


def rot_about(ax, th):
    c, s = math.cos(th), math.sin(th)
    X, Y, Z = ax
    return [[c + X * X * (1 - c), X * Y * (1 - c) - Z * s, X * Z * (1 - c) + Y * s],
            [X * Y * (1 - c) + Z * s, c + Y * Y * (1 - c), Y * Z * (1 - c) - X * s],
            [X * Z * (1 - c) - Y * s, Y * Z * (1 - c) + X * s, c + Z * Z * (1 - c)]]


def check_tsimp(ctx, exe, n):
    """TransformSimplifier (liborange, transform/TransformSimplifier.cc) against C12/TransformSimplify.v, aimed at
    the two soft-identity thresholds (rotation angle ~ eps, |translation| ~ eps), + the property oracle
    C12_simplify_transform_pointwise on the implementation's outputs."""
    r = ctx.rng
    ID = [[1.0, 0.0, 0.0], [0.0, 1.0, 0.0], [0.0, 0.0, 1.0]]
    cases = []
    for i in range(n):
        eps = r.choice([0.5, 0.1, 1e-2, 1e-3, 1e-4, 1e-5, 1e-6, 1e-7, 1.5e-8, 1e-8, 1e-10, logu(r, -7, -1)])
        kt = r.choice([0.0, 0.0, 0.3, 0.9, 0.999, 1.001, 1.1, 3.0, 1e3, logu(r, -2, 2)])
        tra = [x * eps * kt for x in unit(r)]
        if r.random() < 0.2:
            tra = [0.0, 0.0, 0.0]; tra[r.randrange(3)] = eps * kt
        c = r.random()
        kind = 2
        if c < 0.05:
            kind, R, rk = 0, ID, "none"
        elif c < 0.25:
            kind, R, rk = 1, ID, "translation"
        elif c < 0.35:
            R, rk = ID, "identity"
        elif c < 0.45:
            R, rk = r.choice([rnd_rotation(r, reflect=True), signed_perm_matrix(r)]), "reflection/perm"
        elif c < 0.5:
            # a reflection that is the identity up to a sign: trace 1
            R = [list(row) for row in ID]; R[r.randrange(3)] = [-x for x in R[r.randrange(3)]]
            R = [[1.0, 0.0, 0.0], [0.0, 1.0, 0.0], [0.0, 0.0, -1.0]]; rk = "mirror"
        else:
            kr = r.choice([0.3, 0.9, 0.999, 1.001, 1.1, 2.0, 30.0, logu(r, -2, 3)])
            th = min(math.pi, kr * eps)
            R = rot_about(unit(r) if r.random() < 0.7 else [0.0, 0.0, 1.0], th)
            rk = "angle=%.4g*eps" % kr if th < math.pi else "angle=pi"
        pts = [rnd_pt(r, 10 ** r.uniform(-1, 3)) for _ in range(3)]
        cases.append((kind, R, tra, eps, pts, rk))
    lines = ["tsimp %d %s %s %s %d %s" % (k, " ".join(hx(row) for row in R), hx(tra), float(eps).hex(), len(pts),
                                         " ".join(hx(p) for p in pts)) for k, R, tra, eps, pts, rk in cases]
    rc, out = ctx.run_harness(exe, input="\n".join(lines) + "\n")
    outl = out.strip().splitlines()
    if rc != 0 or len(outl) != len(lines):
        raise vlib.BuildError("surface harness failed on tsimp rc=%d" % rc, out[-2000:])
    exprs = []
    for k, R, tra, eps, pts, rk in cases:
        v = ["VNoTransformation", "(VTranslation %s)" % v3(tra),
             "(VTransformation (TF (M3 %s %s %s) %s))" % (v3(R[0]), v3(R[1]), v3(R[2]), v3(tra))][k]
        exprs.append("run_tsimp %s %s [%s]" % (hexf(eps), v, "; ".join(v3(p) for p in pts)))
    mvals = ctx.coq_eval("tsimp", PRE, exprs, chunk=100, timeout=600)
    found = False
    nviol = 0
    for (k, R, tra, eps, pts, rk), line, mv in zip(cases, outl, mvals):
        tok = line.split()
        replay = {"cmd": "transform-simplifier", "kind": ["NoTransformation", "Translation", "Transformation"][k],
                  "rotation": R, "translation": tra, "eps": eps, "points": pts, "impl": line, "model": mv}
        if tok[0] != "ok":
            ctx.violation("tie-broken", "harness error on a TransformSimplifier case", replay, no_input=True)
            nviol += 1
            continue
        code = int(tok[1]); nd = int(tok[2]); data = [pf(t) for t in tok[3:3 + nd]]
        rest = [pf(t) for t in tok[3 + nd:]]
        ctx.case(("tsimp", k, R, tra, eps), nontrivial=code != k)
        ctx.count("tsimp:%s->%s" % (["none", "translation", "transformation"][k], ["none", "translation", "transformation"][code]))
        # --- property oracle (C12_simplify_transform_pointwise on the implementation's outputs)
        bad = None
        if code > k:
            bad = "TransformSimplifier returned a more general variant (%d -> %d)" % (k, code)
        rot_dropped = k == 2 and code < 2
        tra_dropped = k >= 1 and code == 0
        # binary64: the trace test cannot resolve 3 - tr below a few ulp(3)
        eps_rot = math.sqrt(eps * eps + 32 * EPS)
        for j, p in enumerate(pts):
            o = rest[6 * j:6 * j + 3]; sm = rest[6 * j + 3:6 * j + 6]
            dist = math.sqrt(sum((a - b) ** 2 for a, b in zip(o, sm)))
            pn = math.sqrt(sum(x * x for x in p))
            bound = (eps_rot * pn if rot_dropped else 0.0) + (eps if tra_dropped else 0.0)
            if dist > bound * (1 + 1e-9) + 64 * EPS * (pn + max(abs(x) for x in tra)):
                bad = ("simplified transform moves p = %r by %.6g, more than eps |p| [rotation dropped: %s] + eps [translation dropped: %s] = %.6g (eps = %g)"
                       % (p, dist, rot_dropped, tra_dropped, bound, eps))
                replay["point"] = p
                break
        if bad:
            ctx.violation("oracle", bad + " (%s)" % rk, replay)
            found = True
            nviol += 1
            if nviol > 5:
                break
            continue
        # --- correspondence
        mcode, mdata, mpts = mv
        flat = [x for row in mpts for x in row]
        if mcode != code or len(mdata) != nd or any(a != b for a, b in zip(mdata, data)) or \
           not close(flat, rest, rtol=1e-12, atol=1e-11):
            ctx.violation("correspondence", "TransformSimplifier: model and implementation differ (%s)" % rk, replay, no_input=True)
            nviol += 1
            if nviol > 5:
                break
    return found


def inv_sense_margin(data, p):
    """distance (in the quantities calc_sense compares) of the position from the nearest decision boundary of
    Involute::calc_sense: radial bounds, a1 = a, theta = tmax + a, whole-turn lift, py = 0"""
    ox, oy, rbs, a, tmin, tmax = data
    x, y = p[0] - ox, p[1] - oy
    if rbs < 0:
        x = -x
    rb2 = rbs * rbs
    tsq = (x * x + y * y) / rb2 - 1
    m = min(abs(tsq - tmin * tmin), abs(tsq - tmax * tmax))
    if tsq < 0:
        return m
    n = math.hypot(x, y)
    xp = rb2 / n
    yp = math.sqrt(max(0.0, rb2 - xp * xp))
    px, py = (xp * x - yp * y) / n, (yp * x + xp * y) / n
    th = math.acos(max(-1.0, min(1.0, px / math.hypot(px, py))))
    m = min(m, abs(py) / abs(rbs))
    if py < 0:
        th = 2 * math.pi - th
    q = (tmax + a - th) / (2 * math.pi)
    m = min(m, abs(q - round(q)) * 2 * math.pi)
    th += max(0.0, math.floor(q)) * 2 * math.pi
    a1 = th - math.sqrt(max(0.0, tsq))
    return min(m, abs(a1 - a), abs(th - (tmax + a)))


def check_involute(ctx, exe, n):
    """Involute / InvoluteSolver / InvolutePoint / IllinoisRootFinder: (1) relational oracle on the implementation
    (distances positive, hit points on the bounded involute arc within the solver tolerance, unit normal),
    (2) correspondence with the model C12/Involute.v (sense, normal, intersection distances)."""
    r = ctx.rng
    cases, lines = [], []
    NP = 2
    for i in range(n):
        rb = r.uniform(0.5, 3.0)
        right = r.random() < 0.4
        a = r.uniform(0, math.pi)
        tmin = r.uniform(0, 2.0)
        tmax = tmin + r.uniform(0.5, min(4.0, 2 * math.pi - 0.2))
        o = [r.uniform(-1, 1), r.uniform(-1, 1)]
        data = o + [(-rb if right else rb), (math.pi - a if right else a), tmin, tmax]
        aa = data[3]
        R = rb * math.sqrt(1 + tmax * tmax) * 1.3
        on = 0
        c = r.random()
        if c < 0.6:
            p = [o[0] + r.uniform(-1, 1) * R, o[1] + r.uniform(-1, 1) * R, r.uniform(-1, 1)]; pk = "generic"
        elif c < 0.8:
            # next to the curve (both sides), inside the radial bounds
            t = r.uniform(tmin, tmax); da = r.choice([-1, 1]) * r.choice([1e-3, 1e-2, 0.1])
            x = rb * (math.cos(t + aa + da) + t * math.sin(t + aa + da)); y = rb * (math.sin(t + aa + da) - t * math.cos(t + aa + da))
            p = [o[0] + (-x if right else x), o[1] + y, r.uniform(-1, 1)]; pk = "near-curve"
        else:
            t = r.uniform(tmin + 0.05, tmax - 0.05)
            x = rb * (math.cos(t + aa) + t * math.sin(t + aa)); y = rb * (math.sin(t + aa) - t * math.cos(t + aa))
            p = [o[0] + (-x if right else x), o[1] + y, r.uniform(-1, 1)]; pk = "on-curve"; on = 1
        d = unit(r)
        if r.random() < 0.3:
            d = norm3([d[0], d[1], 0.0]) if abs(d[0]) + abs(d[1]) > 1e-3 else [1.0, 0.0, 0.0]
        if r.random() < 0.05:
            d = [0.0, 0.0, r.choice([1.0, -1.0])]
        cases.append((data, p, d, on, pk))
        lines.append("eval inv 6 %s %s %s %d %s" % (hx(data), hx(p), hx(d), on, float(1e-4).hex()))
        for k in range(NP):
            pp = [x + r.choice([-1, 1]) * 2.0 ** -36 * R for x in p]
            lines.append("eval inv 6 %s %s %s %d %s" % (hx(data), hx(pp), hx(d), on, float(1e-4).hex()))
    rc, out = ctx.run_harness(exe, input="\n".join(lines) + "\n")
    outl = out.strip().splitlines()
    if rc != 0 or len(outl) != len(lines):
        raise vlib.BuildError("surface harness failed on involutes rc=%d" % rc, out[-2000:])
    PREI = PRE.replace("C12.Run.", "C12.Involute C12.Run.")
    exprs = ["run_inv (Inv %s) %s %s %s" % (" ".join(hexf(x) for x in data), v3(p), v3(d), "true" if on else "false")
             for data, p, d, on, pk in cases]
    mvals = ctx.coq_eval("inv", PREI, exprs, chunk=max(10, len(exprs) // 12 + 1), timeout=1200)
    found = False
    nbad = 0
    for ci, ((data, p, d, on, pk), mv) in enumerate(zip(cases, mvals)):
        res = parse_eval(outl[ci * (NP + 1)])
        pert = [parse_eval(outl[ci * (NP + 1) + 1 + k]) for k in range(NP)]
        ctx.count("type:inv"); ctx.count("inv-kind:" + pk)
        if res is None or any(x is None for x in pert):
            ctx.count("harness-error:inv")
            continue
        sense, ints, nrm, flips = res
        fin = [t for t in ints if t < 1e300]
        ctx.case(("inv", data, p, d, on), nontrivial=bool(fin))
        bad = None
        if any(not t > 0 for t in fin):
            bad = "non-positive involute intersection distance %r" % fin
        if abs(math.sqrt(sum(x * x for x in nrm)) - 1) > 1e-9:
            bad = "|calc_normal| != 1 for an involute: %r" % nrm
        rb, a, tmin, tmax = abs(data[2]), data[3], data[4], data[5]
        hitpar = []
        for t in fin:
            xy = [p[0] + t * d[0] - data[0], p[1] + t * d[1] - data[1]]
            if data[2] < 0:
                xy[0] = -xy[0]
            tp = math.sqrt(max(0.0, (xy[0] ** 2 + xy[1] ** 2) / rb ** 2 - 1))
            hitpar.append(tp)
            tol = 1e-5 * rb * (1 + tp) + 1e-7 * t
            cx = rb * (math.cos(tp + a) + tp * math.sin(tp + a)); cy = rb * (math.sin(tp + a) - tp * math.cos(tp + a))
            if not (tmin - 1e-5 <= tp <= tmax + 1e-5):
                bad = "involute intersection at t=%r outside the bounded arc: parameter %r not in [%r, %r]" % (t, tp, tmin, tmax)
            elif math.hypot(cx - xy[0], cy - xy[1]) > tol:
                bad = "involute intersection at t=%r is off the curve by %.3g (tol %.3g)" % (t, math.hypot(cx - xy[0], cy - xy[1]), tol)
        replay = {"surface": "inv", "data": data, "pos": p, "dir": d, "on_surface": on, "kind": pk,
                  "impl": {"sense": sense, "intersections": ints, "normal": nrm}, "model": mv}
        if bad:
            ctx.violation("oracle", bad, replay)
            found = True
            nbad += 1
            if nbad > 3:
                break
            continue
        # ---- correspondence with the model
        msense, mds, mnrm, mconv, mfin = mv
        what = None
        if not mfin:
            what = "model solver loop ran out of fuel"
        sense_knife = any(x[0] != sense for x in pert) or inv_sense_margin(data, p) < 1e-7
        if msense != sense and not sense_knife:
            what = "sense (impl %d, model %d)" % (sense, msense)
        elif msense != sense:
            ctx.count("inv-sense-knife-accepted")
        if any(abs(x - y) > 1e-9 for x, y in zip(mnrm, nrm)):
            what = "normal"
        # distances: both solve |f| <= 1e-8 r_b with differently rounded sin/cos, so roots agree to
        # ~1e-8 r_b / |f'|; unmatched roots are accepted only at the knife edges (arc ends, dist ~ tol, tangency)
        scale = rb * (1 + tmax) + max(abs(x) for x in p)
        horiz = math.hypot(d[0], d[1])
        count_knife = any(len([t for t in x[1] if t < 1e300]) != len(fin) for x in pert)
        def matched(t, others):
            return any(abs(t - o) <= 1e-5 * scale / max(horiz, 1e-3) for o in others)
        def edge(t):
            xy = [p[0] + t * d[0] - data[0], p[1] + t * d[1] - data[1]]
            tp = math.sqrt(max(0.0, (xy[0] ** 2 + xy[1] ** 2) / rb ** 2 - 1))
            if abs(tp - tmin) < 1e-4 or abs(tp - tmax) < 1e-4 or t * horiz < 2e-6 * rb * (100 if on else 1) + 1e-9 or tp < 1e-3:
                return True
            # tangency: ray direction (anti)parallel to the involute tangent (cos(tp+a), sin(tp+a)) in the mirrored frame
            u, v = (-d[0] if data[2] < 0 else d[0]) / horiz, d[1] / horiz
            return abs(v * math.cos(tp + a) - u * math.sin(tp + a)) < 1e-3
        mfinite = list(mds[:3])
        unm = [t for t in mfinite if not matched(t, fin)] + [t for t in fin if not matched(t, mfinite)]
        if unm and what is None:
            if count_knife or (horiz > 0 and all(edge(t) for t in unm)) or not mconv:
                ctx.count("inv-root-knife-accepted")
            else:
                what = "intersection distances (impl %r, model %r)" % (fin, mds)
        if what:
            ctx.violation("correspondence", "involute: model and implementation differ in %s (%s)" % (what, pk), replay, no_input=True)
            nbad += 1
            if nbad > 3:
                break
    return found


def scaled_quadric(r, base, L, k, as_gq):
    """the surface `base` written as a SimpleQuadric / GeneralQuadric with all coefficients multiplied by k"""
    abc, cr, g, j = gq_form(base, gen_surface(r, base, L))
    if as_gq:
        return "gq", [float(x) * k for x in abc] + [float(x) * k for x in cr] + [float(x) * k for x in g] + [float(j) * k]
    return "sq", [float(x) * k for x in abc] + [float(x) * k for x in g] + [float(j) * k]


def structured_quadrics(r, reps):
    """SimpleQuadric / GeneralQuadric (no cross terms) inputs for the simplifier from a structured family: every
    combination of {zero, equal, unequal, negative} second-order terms and {zero, nonzero} first-order terms per axis,
    with zero / positive / negative constant, scaled and negated: paraboloids (circular, elliptic, hyperbolic),
    parabolic cylinders, pairs of planes, spheroids with two equal radii, elliptic cones, near-miss cylinders /
    spheres / cones - i.e. every early exit of Quadric{Plane,Sphere,Cyl,Cone}Converter is approached from both sides."""
    out = []
    for rep in range(reps):
        c = r.choice([4.0, 0.25, 2.5]); t = r.choice([1.0, 0.5625, 2.0]); e = r.choice([1e-3, 1e-6])
        S = [(1, 1, 0), (1, 0, 1), (0, 1, 1), (1, 0, 0), (0, 1, 0), (0, 0, 1), (1, 1, 1), (1, 1, c), (c, 1, 1), (1, c, 1),
             (1, 1, -t), (1, -t, 1), (-t, 1, 1), (1, -1, 0), (0, 1, -1), (-1, 0, 1), (1, c, -t), (c, c, 1), (1, c, 0), (0, 0, 0),
             (1, 1 + e, 0), (1, 1, 1 + e), (1, 1 + e, -t), (1, 1, e)]
        for sec in S:
            for fmask in range(8):
                first = [(r.choice([-1, 1]) * r.choice([1.0, 3.0, 0.5, r.uniform(0.1, 4)]) if (fmask >> k) & 1 else 0.0)
                         for k in range(3)]
                if not any(sec) and not any(first):
                    continue
                g = r.choice([0.0, -4.0, 4.0, -r.uniform(0.1, 9), r.uniform(0.1, 9)])
                k = r.choice([1.0, -1.0, r.choice([1, -1]) * logu(r, -2, 2)])
                d = [float(x) * k for x in sec] + [x * k for x in first] + [g * k]
                if r.random() < 0.35:
                    out.append(("gq", d[:3] + [0.0, 0.0, 0.0] + d[3:]))
                else:
                    out.append(("sq", d))
    return out


def check_simplifier_chain(ctx, exe, n):
    """SurfaceSimplifier applied until nothing changes (as RecursiveSimplifier / the CSG builder do), on surfaces
    with an arbitrary overall scale (1e-3..1e3, both signs) so that every Quadric{Plane,Sphere,Cyl,Cone}Converter
    has to renormalise.  Oracles: (1) the final surface function is k * f with sign(k) = reported flip
    (exact rational coefficients; snapping tolerance 1e-7 relative), (2) senses at random and near-surface points
    agree up to the reported flip, (3) the model's chain gives the same surface."""
    r = ctx.rng
    TOL = 1e-10
    cases = []
    # corpus: degenerate quadric planes with a non-unit gradient (2x - 6 = 0 as SQ and as GQ)
    cases.append(("sq", [0.0, 0.0, 0.0, 2.0, 0.0, 0.0, -6.0]))
    cases.append(("gq", [0.0, 0.0, 0.0, 0.0, 0.0, 0.0, 0.1, 0.2, 0.2, -0.6]))
    bases = ["p", "p", "px", "py", "pz", "s", "sc", "cx", "cy", "cz", "cxc", "czc", "kx", "ky", "kz"]
    for i in range(n):
        L = r.choice([1.0, 1.0, logu(r, -1, 1)])
        k = r.choice([1, -1]) * r.choice([1.0, logu(r, -3, 3), logu(r, -3, 3)])
        c = r.random()
        if c < 0.75:
            ty, d = scaled_quadric(r, bases[i % len(bases)], L, k, as_gq=r.random() < 0.4)
        elif c < 0.85:
            # general plane in all orientations / signs, tiny components, tiny displacement
            nrm = unit(r)
            if r.random() < 0.5:
                nrm = [0.0, 0.0, 0.0]; nrm[r.randrange(3)] = r.choice([1.0, -1.0])
            ty, d = "p", nrm + [r.choice([0.0, 1e-12, r.uniform(-2, 2) * L])]
        elif c < 0.93:
            q0 = gq_form(*(lambda b: (b, gen_surface(r, b, L)))(r.choice(["s", "cx", "kz", "p"])))
            ty, d = "gq", [float(x) * k for x in gq_transform_exact(q0, rnd_rotation(r), rnd_pt(r, L))]
        else:
            ty = r.choice(["s", "cx", "cy", "cz", "kx", "px", "p"]); d = gen_surface(r, ty, L)
            if ty != "p":
                for jx in range(len(d) - 1 if ty != "px" else 1):
                    if r.random() < 0.6:
                        d[jx] = r.choice([0.0, 1e-12, -1e-12, -0.0])
        cases.append((ty, d))
    # corpus: circular paraboloids x^2 + y^2 - z - 4 = 0 (and permutations), parabolic cylinder, spheroid with two equal radii
    cases.append(("sq", [1.0, 1.0, 0.0, 0.0, 0.0, -1.0, -4.0]))
    cases.append(("sq", [0.0, 2.0, 2.0, 3.0, 0.0, 0.0, -8.0]))
    cases.append(("sq", [1.0, 0.0, 0.0, 0.0, 1.0, 0.0, 0.0]))
    cases.append(("sq", [1.0, 1.0, 4.0, 0.0, 0.0, 0.0, -4.0]))
    cases += structured_quadrics(r, 1 if n <= 1000 else 8)
    lines, allpts = [], []
    for ty, d in cases:
        L = 1.0
        pts = [rnd_pt(r, 3 * L) for _ in range(5)] + [rnd_pt(r, 10 * L) for _ in range(2)]
        for _ in range(5):
            ps = on_surface_point(r, ty, d, L)
            if ps is not None:
                u3 = unit(r); dl = r.choice([0.01, 0.1, 0.5, 2.0]) * r.choice([1, -1])
                pts.append([ps[k2] + dl * u3[k2] for k2 in range(3)])
        allpts.append(pts)
        lines.append("simplc %s %d %s %s %d %s" % (ty, len(d), hx(d), float(TOL).hex(), len(pts), " ".join(hx(p) for p in pts)))
    rc, out = ctx.run_harness(exe, input="\n".join(lines) + "\n")
    outl = out.strip().splitlines()
    if rc != 0 or len(outl) != len(lines):
        raise vlib.BuildError("surface harness failed on the simplifier chain rc=%d" % rc, out[-2000:])
    mvals = ctx.coq_eval("simplc", PRE, ["run_simpl_chain %s %s" % (hexf(TOL), coq_surf(ty, d)) for ty, d in cases],
                         chunk=min(300, max(20, len(cases) // 16 + 1)), timeout=1200)
    found = False
    nviol = 0
    for (ty, d), pts, line, mv in zip(cases, allpts, outl, mvals):
        tok = line.split()
        if tok[0] != "ok":
            ctx.count("harness-error:simplc")
            continue
        passes, flipped = int(tok[1]), int(tok[2])
        ty2 = tok[3]; nd = int(tok[4]); d2 = [pf(t) for t in tok[5:5 + nd]]
        rest = tok[5 + nd:]
        ctx.case(("simplc", ty, d), nontrivial=passes > 0)
        ctx.count("chain:%s->%s%s" % (ty, ty2, "(flip)" if flipped else ""))
        replay = {"cmd": "simplify-chain", "surface": ty, "data": d, "tol": TOL,
                  "impl": {"passes": passes, "flipped": flipped, "surface": ty2, "data": d2}, "model": mv}
        bad = None
        if any(x != x or abs(x) == INF for x in d2):
            bad = "simplified surface has non-finite data %r" % d2
        else:
            # (1) coefficients: q1 = k q0, sign(k) = flip
            q0 = gq_form(ty, d); q1 = gq_form(ty2, d2)
            v0 = [float(x) for x in list(q0[0]) + list(q0[1]) + list(q0[2]) + [q0[3]]]
            v1 = [float(x) for x in list(q1[0]) + list(q1[1]) + list(q1[2]) + [q1[3]]]
            n00 = sum(x * x for x in v0)
            kk = sum(a * b for a, b in zip(v0, v1)) / n00 if n00 > 0 else 0.0
            dev = max(abs(b - kk * a) for a, b in zip(v0, v1))
            s1 = max(abs(x) for x in v1)
            if kk == 0 or dev > 1e-7 * s1 + 1e-9 * abs(kk):
                bad = ("simplified surface is not a multiple of the original: best k = %.6g, max deviation %.3g (scale %.3g); "
                       "original coefficients %r, simplified %r" % (kk, dev, s1, v0, v1))
            elif (kk < 0) != bool(flipped):
                bad = "simplifier reports flipped=%d but the surface function was multiplied by %.6g" % (flipped, kk)
        # (2) senses
        if bad is None:
            q = gq_form(ty, d)
            for k2, p in enumerate(pts):
                so, sn = int(rest[2 * k2]), int(rest[2 * k2 + 1])
                P = [Fr(x) for x in p]
                fv = float(f_exact(q, P)); mg = f_mag(q, P)
                gn = math.sqrt(sum(float(x) ** 2 for x in grad_exact(q, P)))
                if abs(fv) > 1e-6 * mg + 1e-8 * gn and sn != (-so if flipped else so):
                    bad = "simplifier chain changed the sense at %r: %d -> %d with flipped=%d" % (p, so, sn, flipped)
                    replay["point"] = p
                    break
        if bad:
            ctx.violation("oracle", "%s (%s -> %s)" % (bad, ty, ty2), replay)
            found = True
            nviol += 1
            if nviol > 5:
                break
            continue
        # (3) model
        mpasses, mflip, (mcode, mdata) = mv
        dsc = max([abs(x) for x in d2] + [1e-300])
        if (mpasses != passes or bool(flipped) != mflip or TYPES[mcode] != ty2 or len(mdata) != len(d2)
                or any(abs(a - b) > 1e-9 * abs(b) + 1e-12 * dsc for a, b in zip(mdata, d2))):
            ctx.violation("correspondence", "simplifier chain: model and implementation differ (%s)" % ty, replay, no_input=True)
            nviol += 1
            if nviol > 5:
                break
    return found
