"""C04 round 3: detail::SBEnergySampler / detail::RBEnergySampler against the model C04/BremEnergy.v
(rejection loop over the cross-section oracle) + property oracle on the real samplers."""
import math
import vlib
from vlib import hexf
import c04lib as L

PRE = ("From Coq Require Import ZArith List Floats.\n"
       "From Celer Require Import Base.Num Base.NumF Base.Vec3 C04.RunBrem.\n"
       "Import ListNotations.\nOpen Scope float_scope.\n")


def gen(ctx, n):
    r = ctx.rng
    cases = []
    for _ in range(n):
        sb = r.random() < 0.5
        cut = r.choice([1e-3, 0.02064384, L.logu(r, 1e-3, 1.0)])
        if sb:
            E = L.gen_energy(r, L.nextafter(max(cut, 1e-3), True), L.nextafter(1e3, False), specials=[cut * 1.01, 1.0, 10.0])
            variant = r.choice([0, 1])
        else:
            E = L.gen_energy(r, L.nextafter(cut, True), 1e8, specials=[1e3, 1e5, 1e7])
            variant = r.choice([0, 1, 2, 3])
            if r.random() < 0.06:
                cut = E * r.choice([1.0, 1.5, 10.0])     # min(cut, E) = E: tmin = tmax
        c = r.random()
        if c < 0.10 and cut < E:
            cut = E * (1 - r.choice([2.0 ** -52, 1e-15, 1e-12, 1e-9, 1e-6, 1e-3]))   # cut just below E
        u = L.gen_u(r, 120, 0.08, True)
        p = [E, 0.0, 0.0, 1.0, 0, 4, 1e-3, variant, 0, 0, cut, 1e-3]
        cases.append(L.Case("sbenergy" if sb else "rbenergy", p, u, True, ""))
    return cases


def parse(line):
    t = line.split()
    if not t or t[0] != "ok":
        return {"status": t[0] if t else "error", "what": line}
    f = float.fromhex
    n = int(t[8])
    return {"status": "ok", "draws": int(t[1]), "e": f(t[2]), "draws2": int(t[3]), "tmin": f(t[4]), "tmax": f(t[5]),
            "dc": f(t[6]), "xs_max": f(t[7]), "xs": [f(x) for x in t[9:9 + n]]}


def run_brem_energy(ctx, exe, quick):
    cases = gen(ctx, 160 if quick else 2400)
    rc, out = ctx.run_harness(exe, input="".join(c.line() for c in cases), timeout=600)
    lines = out.strip().splitlines()
    if rc != 0 or len(lines) != len(cases):
        raise vlib.BuildError("brem energy harness failed rc=%d (%d lines for %d cases)" % (rc, len(lines), len(cases)), out[-2000:])
    impl = [parse(l) for l in lines]
    idx = [i for i, a in enumerate(impl) if a["status"] == "ok"]
    exprs = []
    for i in idx:
        c, a = cases[i], impl[i]
        exprs.append("run_brem_energy %s %s %s %s %s %s %s" % (
            "true" if c.model == "sbenergy" else "false", hexf(c.cut_g), hexf(c.E), hexf(a["dc"]), hexf(a["xs_max"]),
            L.fl(a["xs"]), L.fl(c.u[:a["draws"] + 2])))
    vals = ctx.coq_eval("brem_energy", PRE, exprs, chunk=max(20, len(exprs) // 6 + 1), timeout=600) if exprs else []
    ndis = 0
    nbad = 0
    ratios = []
    for i, v in zip(idx, vals):
        c, a = cases[i], impl[i]
        key = (c.model, c.E, c.cut_g, c.variant, tuple(c.u[:4]))
        ctx.case(key, nontrivial=True)
        ctx.count("model:" + c.model)
        # ---- property oracle on the real sampler
        bad = None
        lo, hi = a["tmin"], a["tmax"]
        if not math.isfinite(a["e"]):
            bad = "photon energy not finite"
        elif a["e"] < lo * (1 - 1e-12):
            # e = sqrt(esq - d_rho): one rounding of esq (relative 2^-53) becomes a relative error 2^-53 (e^2 + d_rho)/e^2
            # of e^2.  A candidate at the bottom of the range (u ~ 0) can therefore come out below the cut by that much
            # (up to percent level at E ~ 1e8 MeV, where d_rho ~ 1e8 MeV^2 >> cut^2): recorded as a candidate finding
            # (reported to the coordinator; no signature in known_findings.json), anything larger is a VIOLATION
            amp = 1 + a["dc"] / (lo * lo)
            if (c.model == "rbenergy" and (lo - a["e"]) / lo <= 8 * 2.0 ** -52 * amp and a["e"] >= lo * (1 - 1e-3)
                    and any(x <= 1e-15 for x in c.u[:a["draws"]])):
                ctx.count("brem-energy:below-cut-by-rounding-of-density-correction")
                if ctx.dist.get("brem-energy:below-cut-by-rounding-of-density-correction", 1) <= 1:
                    ctx.violation("finding", "detail::RBEnergySampler: photon energy %.17g below the gamma cut %.17g by rounding "
                                  "of sqrt(esq - density_corr), density_corr = %.6g" % (a["e"], lo, a["dc"]),
                                  {"input": c.replay(a["draws"]), "impl": a},
                                  signature="relbrem-photon-below-cut-by-density-correction-rounding")
            else:
                bad = "photon energy below the production cut"
        elif a["e"] > hi * (1 + 1e-12):
            bad = "photon energy above the incident energy"
        elif a["draws"] != 2 * len(a["xs"]) or a["draws"] != a["draws2"]:
            bad = "draws consumed (%d) are not two per iteration (%d iterations; component loop %d)" % (
                a["draws"], len(a["xs"]), a["draws2"])
        if bad:
            nbad += 1
            if nbad <= 4:
                ctx.violation("property", "%s: %s" % (c.model, bad), {"input": c.replay(a["draws"]), "impl": a})
        for x in a["xs"]:
            if a["xs_max"] > 0:
                ratios.append(x / a["xs_max"])
        # ---- differential
        if v is None:
            ok = False
            m = None
        else:
            m = {"e": float(v[0]), "draws": int(v[1])}
            # e = sqrt(esq - dc): the subtraction amplifies the exp/log rounding difference by (e^2 + dc)/e^2
            amp = 1 + (a["dc"] / (a["e"] * a["e"]) if a["e"] > 0 else 0)
            ok = m["draws"] == a["draws"] and vlib.close(m["e"], a["e"], rtol=min(1e-9 * amp, 1e-3), atol=0.0)
        if not ok:
            ndis += 1
            if ndis <= 3:
                ctx.violation("correspondence", "model and implementation differ for %s" % c.model,
                              {"input": c.replay(a["draws"] + 2), "impl": a, "model": m,
                               "theorem": "C04_sb_energy_in_range / C04_rb_energy_in_range are about a model that no "
                                          "longer matches the code"}, no_input=True)
    exh = sum(1 for a in impl if a["status"] == "exhausted")
    err = [a for a in impl if a["status"] not in ("ok", "exhausted")]
    if err:
        ctx.violation("harness", "brem energy harness error", {"first": err[0]}, no_input=True)
    ctx.coverage["brem_energy"] = {
        "cases": len(cases), "compared": len(idx), "exhausted(120 uniforms)": exh, "disagreements": ndis,
        "min xs/xs_max over all candidates (the data-dependent p_min of C04_brem_energy_terminates_on_low_draw)":
            min(ratios) if ratios else None,
        "max xs/xs_max": max(ratios) if ratios else None}
