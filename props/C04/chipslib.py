"""C04 round 3: ChipsNeutronElasticInteractor against the model C04/Chips.v (the momentum transfer Q^2 of the real
MomentumTransferSampler is the oracle input) + property oracle on the real interactor."""
import math, os
import vlib
from vlib import hexf
import c04lib as L

HERE = os.path.dirname(os.path.abspath(__file__))
PRE = ("From Coq Require Import ZArith List Floats.\n"
       "From Celer Require Import Base.Num Base.NumF Base.Vec3 C04.RunChips.\n"
       "Import ListNotations.\nOpen Scope float_scope.\n")
# fixture "HeCu": element 0 = He (isotopes He3, He4), element 1 = Cu (Cu63, Cu65)
TARGETS = [(0, 0), (0, 1), (1, 0), (1, 1)]
EMIN, EMAX = 1e-5, 2e4


def gen(ctx, n):
    r = ctx.rng
    cases = []
    for _ in range(n):
        E = L.gen_energy(r, EMIN, EMAX, specials=[1e-3, 1.0, 14.0, 100.0, 1e3])
        el, iso = r.choice(TARGETS)
        d = L.gen_dir(r)
        u = L.gen_u(r, 40, 0.10, True)
        cases.append((E, d, el, iso, u))
    return cases


def line(c):
    E, d, el, iso, u = c
    p = [E] + d + [el, iso]
    return "chips %d %s %d %s\n" % (len(p), " ".join(float(x).hex() for x in p), len(u), " ".join(float(x).hex() for x in u))


def parse(l):
    t = l.split()
    if not t or t[0] != "ok":
        return {"status": t[0] if t else "error", "what": l}
    f = lambda s: float.fromhex(s) if s not in ("nan", "-nan", "inf", "-inf") else float(s.replace("-nan", "nan"))
    return {"status": "ok", "draws": int(t[1]), "action": int(t[2]), "E": f(t[3]), "dir": [f(x) for x in t[4:7]],
            "dep": f(t[7]), "nsec": int(t[8]), "mn": f(t[9]), "mt": f(t[10]), "q2": f(t[11]), "qdraws": int(t[12]),
            "A": int(t[13]), "dir_used": [f(x) for x in t[14:17]]}


def run_chips(ctx, quick):
    ok, log = ctx.coq_build(["C04/RunChips.vo"])
    if not ok:
        ctx.violation("model-broken", "C04/RunChips.v no longer compiles", {"log": log[-2000:]}, no_input=True)
        return
    exe = ctx.compile_harness([os.path.join(HERE, "harness", "chips.cc")], "chips", libs=L.LIBS, test_includes=True)
    # deterministic replay of the FIXED finding chips-costheta-exceeds-1-by-rounding-nan-direction (Q^2 = max, cos(theta)
    # = -1.0000000000000009 before the clamp of /repo 2618c34), run first: must be finite and agree with the model
    cases = [(0.002811773902415465, [0.0, 0.0, 1.0], 1, 0,
              [float.fromhex('0x1.ffffffffffffep-1'), 0.0] + [0.37, 0.61, 0.2, 0.45] * 8)]
    cases += gen(ctx, 200 if quick else 4000)
    rc, out = ctx.run_harness(exe, input="".join(line(c) for c in cases), timeout=600)
    lines = [l for l in out.strip().splitlines() if l.split() and l.split()[0] in ("ok", "exhausted", "error")]
    if rc != 0 or len(lines) != len(cases):
        raise vlib.BuildError("chips harness failed rc=%d (%d lines for %d cases)" % (rc, len(lines), len(cases)), out[-2000:])
    impl = [parse(l) for l in lines]
    idx = [i for i, a in enumerate(impl) if a["status"] == "ok"]
    exprs = []
    for i in idx:
        (E, d, el, iso, u), a = cases[i], impl[i]
        exprs.append("run_chips %s %s %s %s %s %s" % (hexf(a["mn"]), hexf(E), L.v3(a["dir_used"]), hexf(a["mt"]), hexf(a["q2"]),
                                                     L.fl(u[a["qdraws"]:a["qdraws"] + 4])))
    vals = ctx.coq_eval("chips", PRE, exprs, chunk=max(20, len(exprs) // 6 + 1), timeout=600) if exprs else []
    ndis = 0
    nbad = 0
    nlimit = 0
    for i, v in zip(idx, vals):
        (E, d, el, iso, u), a = cases[i], impl[i]
        d = a["dir_used"]
        rep = {"model": "chips", "E": E, "dir": cases[i][1], "dir_used_by_fixture": d, "element_component": el, "isotope_component": iso,
               "stream": u[:a["draws"] + 1], "stream_hex": [float(x).hex() for x in u[:a["draws"] + 1]]}
        ctx.case(("chips", E, el, iso, tuple(u[:3])), nontrivial=True)
        ctx.count("model:chips")
        ctx.count("chips:A=%d" % a["A"])
        # kinematic contract of the oracle: 0 <= Q^2 <= 4 p_cm^2
        p2 = E * E + 2 * a["mn"] * E
        s_ = a["mn"] ** 2 + a["mt"] ** 2 + 2 * (a["mn"] + E) * a["mt"]
        cm2 = p2 * a["mt"] ** 2 / s_
        cos = 1 - 0.5 * a["q2"] / cm2
        at_limit = abs(abs(cos) - 1) <= 1e-12
        fin = all(math.isfinite(x) for x in [a["E"], a["dep"]] + a["dir"])
        bad = None
        if not (-1e-12 * cm2 <= a["q2"] <= 4 * cm2 * (1 + 1e-12)):
            bad = "momentum transfer outside [0, 4 p_cm^2]"
        elif a["action"] != 0 or a["nsec"] != 0:
            bad = "action/secondaries"
        elif not fin:
            # since /repo 2618c34 cos(theta) is clamped: a non-finite final state at the kinematic limit is a hard VIOLATION
            # again (this is what a reverted fix looks like: replay case 0)
            if d[0] == 0 and d[1] == 0 and abs(d[2]) < 1:
                ctx.violation("finding", "ChipsNeutronElasticInteractor: NaN direction from rotate() for a z-aligned incident "
                              "direction with |z| = 1 - 2^-53", {"input": rep, "impl": a},
                              signature="rotate-nan-for-z-aligned-rot-with-rounded-unit-norm")
                continue
            bad = "non-finite value in the final state"
        elif a["E"] < 0 or a["dep"] < 0:
            bad = "negative energy"
        elif abs(a["E"] + a["dep"] - E) > 64 * 2.0 ** -53 * (E + a["mn"] + a["mt"]):
            bad = "energy imbalance %.3e MeV" % (a["E"] + a["dep"] - E)
        elif abs(math.sqrt(sum(x * x for x in a["dir"])) - 1) > 1e-12:
            bad = "direction not a unit vector"
        elif a["draws"] != a["qdraws"] + 1:
            bad = "draws: interactor %d, momentum-transfer sampler %d (+1 for phi expected)" % (a["draws"], a["qdraws"])
        elif abs(a["dep"] - a["q2"] / (2 * a["mt"])) > 1e-9 * E + 64 * 2.0 ** -53 * (E + a["mn"] + a["mt"]):
            bad = "recoil energy differs from Q^2/(2M) (C04_chips_energy_conserved)"
        if bad:
            nbad += 1
            if nbad <= 4:
                ctx.violation("property", "ChipsNeutronElasticInteractor: %s" % bad, {"input": rep, "impl": a})
            continue
        # differential
        if v is None:
            okc, m = False, None
        else:
            m = {"action": v[0], "E": float(v[1]), "dir": [float(x) for x in v[2]], "dep": float(v[3]), "nsec": v[4], "draws": v[5]}
            # energies are differences of numbers of size E + m_n + M
            at = 256 * 2.0 ** -53 * (E + a["mn"] + a["mt"])
            okc = (m["action"] == a["action"] and m["nsec"] == 0 and m["draws"] + a["qdraws"] == a["draws"]
                   and vlib.close(m["E"], a["E"], rtol=1e-9, atol=at) and vlib.close(m["dep"], a["dep"], rtol=1e-9, atol=at))
            # direction: ill-conditioned within 1e-6 rad of the axis and when the neutron is left with ~no energy
            tol = 1e-6 if (1 - abs(cos) <= 1e-10 or a["E"] < 1e-9 * E or L.small_branch_neg_y(d)) else 1e-8
            if okc and not L.small_branch_neg_y(d):
                okc = all(abs(x - y) <= tol for x, y in zip(m["dir"], a["dir"]))
        if not okc:
            ndis += 1
            if ndis <= 3:
                ctx.violation("correspondence", "model and implementation differ for chips neutron elastic",
                              {"input": rep, "impl": a, "model": m,
                               "theorem": "C04_chips_energy_conserved is about a model that no longer matches the code"},
                              no_input=True)
    err = [a for a in impl if a["status"] == "error"]
    if err:
        ctx.violation("harness", "chips harness error", {"first": err[0]}, no_input=True)
    ctx.coverage["chips"] = {"cases": len(cases), "compared": len(idx), "disagreements": ndis,
                             "non_finite_direction_at_kinematic_limit": nlimit}
