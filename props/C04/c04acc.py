"""C04 round 3: (1) the Rayleigh data hypothesis [ry_ok] checked on the real data, (2) replays of the witnesses of
the acceptance-bound theorems (*_refuted families and *_terminates_* corollaries) on the real interactors."""
import math, os, sys
import vlib
import c04lib as L

sys.path.insert(0, os.path.join(vlib.VERIF, "translators"))
import rayleigh_table  # noqa: E402

EPS = 2.0 ** -53
TABLE = []


def regen_rayleigh_table(ctx):
    """coq/C04/RayleighTable.v <- RayleighModel.cc of the tree under test (before the proofs are built)"""
    try:
        rows, problems, changed = rayleigh_table.regenerate(vlib.REPO, vlib.COQDIR)
    except Exception as e:  # noqa: BLE001
        rows, problems, changed = [], ["translator raised %s: %s" % (type(e).__name__, e)], False
    TABLE[:] = rows
    ctx.coverage["rayleigh_table"] = {"elements": len(rows), "problems": problems, "regenerated": changed}
    if problems:
        ctx.violation("tie-broken", "translators/rayleigh_table.py no longer recognises RayleighModel.cc: %s"
                      % "; ".join(problems)[:300], {"problems": problems}, no_input=True)
    return rows


def ry_ok(b, n):
    return all(x > 0 for x in b) and all(0.01 <= x <= 50 for x in n)


def check_rayleigh_hypothesis(ctx):
    """executable form of ry_elem_ok on (a) every row of the table in the source, (b) the parameters the real
    RayleighModel object holds for the elements of the fixture; and (b) must be the table rows of those Z"""
    for z, (a, b, n) in enumerate(TABLE, start=1):
        ctx.case(("ry-table", z), nontrivial=True)
        if not (ry_ok(b, n) and all(x >= 0 for x in a)):
            ctx.violation("hypothesis", "Rayleigh fit parameters of Z=%d violate the data hypothesis of "
                          "C04_rayleigh_outputs_valid (b > 0, 1/100 <= n <= 50, a >= 0): cos(theta) <= 1 is no longer "
                          "guaranteed" % z, {"Z": z, "a": a, "b": b, "n": n, "theorem": "C04_rayleigh_table_ok"})
    for k, (a, b, n, kfac) in sorted(L.RAYP.items()):
        z = L.ELEM[k][0]
        ctx.count("rayleigh-params-read-back")
        if not (ry_ok(b, n) and kfac > 0):
            ctx.violation("hypothesis", "parameters held by the real RayleighModel for Z=%d violate ry_ok" % z,
                          {"Z": z, "a": a, "b": b, "n": n, "kfac": kfac})
        if TABLE and 1 <= z <= len(TABLE):
            ta, tb, tn = TABLE[z - 1]
            if [list(a), list(b), list(n)] != [ta, tb, tn]:
                ctx.violation("tie-broken", "RayleighModel holds parameters for Z=%d that are not row Z-1 of the table "
                              "extracted from RayleighModel.cc" % z,
                              {"Z": z, "model_object": [a, b, n], "table_row": [ta, tb, tn]}, no_input=True)


def _case(model, E, u, variant=0, mat=0, elcomp=0, needed=0, tag=""):
    return L.Case(model, [E, 0.0, 0.0, 1.0, 0, max(4, needed), 1e-3, variant, mat, elcomp, 1e-3, 1e-3], u, False, tag)


def _tail(ctx, n, lo=1e-3):
    return [min(max(ctx.rng.random(), lo), 1 - lo) for _ in range(n)]


def replay_acceptance_witnesses(ctx, exe):
    """Each witness is a pair of streams (prefix + tail, tail): the candidate encoded in the prefix must be rejected
    (the implementation consumes exactly len(prefix) more uniforms and returns the same final state) or accepted."""
    tail = _tail(ctx, 120)
    h2o_h = (4, 0)   # H2O, component 0 = hydrogen (Z = 1)
    assert L.MATS[4][1][0] == 1
    emass = L.EMASS
    cases = []
    # Bethe-Heitler, screened regime (C04_bh_accept_lower_bound_refuted): 2 MeV on hydrogen, uniform branch
    # (u1 = 0.9 >= st/(st+sf)), u = 0 -> eps = eps_min, g = 0: rejected for every positive test draw
    for t in (1e-6, 1e-3, 0.5):
        cases.append(("bh-screened-rejected", 3, _case("bh", 2.0, [0.9, 0.0, t] + tail, 0, *h2o_h, needed=2)))
    cases.append(("ref", 0, _case("bh", 2.0, tail, 0, *h2o_h, needed=2)))
    # ... and the symmetric candidate (cube-root branch, u = 0 -> eps = 1/2) is accepted by every test draw
    # (C04_bh_terminates_on_symmetric_candidate): same result as with any other accepted test draw
    cases.append(("bh-symmetric-accepted", None, _case("bh", 2.0, [1e-9, 0.0, 1 - EPS] + tail, 0, *h2o_h, needed=2)))
    cases.append(("bh-symmetric-accepted-ref", None, _case("bh", 2.0, [1e-9, 0.0, 1e-9] + tail, 0, *h2o_h, needed=2)))
    # e+ annihilation at T = 1e8 MeV (C04_eplusgg_accept_uniform_in_tau_refuted): the candidate at the top of the
    # epsilon interval (u ~ 1) is accepted with probability <= 3/(tau+2) ~ 1.5e-8: rejected by t = 0.5;
    # a test draw >= 1 - p_min(tau) accepts every candidate (C04_eplusgg_terminates_on_high_draw)
    cases.append(("eplusgg-top-rejected", 2, _case("eplusgg", 1e8, [1 - EPS, 0.5] + tail, needed=2)))
    cases.append(("ref", 0, _case("eplusgg", 1e8, tail, needed=2)))
    # Rayleigh at E = 1e-12 MeV on Cu (C04_rayleigh_accept_lower_bound_refuted): f = (kfac E)^2 ~ 6.5e-5, only
    # candidates with u <~ f can be accepted: 60 iterations with u = 0.5 and the most favourable test draw 0 exhaust
    # the stream; u = f/8 is accepted at once (C04_rayleigh_terminates_on_low_draw)
    ray_rej = []
    for _ in range(60):
        ray_rej += [ctx.rng.random(), 0.5, 0.0]
    cases.append(("rayleigh-lowE-exhausts", None, _case("rayleigh", 1e-12, ray_rej)))
    kfac = next(iter(L.RAYP.values()))[3]
    f = (kfac * 1e-12) ** 2
    cases.append(("rayleigh-lowE-accepted", None, _case("rayleigh", 1e-12, [0.3, f / 8, 0.5] + tail)))
    impl = L.run_impl(ctx, exe, [c for _, _, c in cases])
    out = {}
    for i, ((name, extra, c), a) in enumerate(zip(cases, impl)):
        ctx.case(("witness", name, i), nontrivial=a["status"] == "ok")
        if extra:   # must be rejected: compare with the following "ref" case
            j = next(k for k in range(i + 1, len(cases)) if cases[k][0] == "ref")
            ref = impl[j]
            good = (a["status"] == "ok" and ref["status"] == "ok" and a["draws"] == ref["draws"] + extra
                    and a["secs"] == ref["secs"])
            ctx.count("witness:%s:%s" % (name, "replayed" if good else "NOT-reproduced"))
            out.setdefault(name, []).append(good)
            if not good:
                ctx.violation("correspondence", "the candidate of %s is not rejected by the implementation as the "
                              "theorem about the model says" % name,
                              {"input": c.replay(8), "impl": a, "reference_without_prefix": ref}, no_input=True)
    d = {n: a for (n, _, _), a in zip(cases, impl)}
    sym, symref = d["bh-symmetric-accepted"], d["bh-symmetric-accepted-ref"]
    good = sym["status"] == "ok" and symref["status"] == "ok" and sym["draws"] == symref["draws"] and sym["secs"] == symref["secs"]
    ctx.count("witness:bh-symmetric-accepted:%s" % ("replayed" if good else "NOT-reproduced"))
    if not good:
        ctx.violation("correspondence", "Bethe-Heitler candidate eps = 1/2 is not accepted by every test draw",
                      {"impl_t_high": sym, "impl_t_low": symref}, no_input=True)
    ex, acc = d["rayleigh-lowE-exhausts"], d["rayleigh-lowE-accepted"]
    good = ex["status"] == "exhausted" and acc["status"] == "ok" and acc["draws"] == 4
    ctx.count("witness:rayleigh-lowE:%s" % ("replayed" if good else "NOT-reproduced"))
    ctx.coverage["rayleigh_low_energy_replay"] = {
        "E_MeV": 1e-12, "factor": f, "60 candidates with u=0.5, test draw 0": ex["status"],
        "candidate u=f/8": "%s after %s draws" % (acc["status"], acc.get("draws"))}
    if not good:
        ctx.violation("correspondence", "Rayleigh low-energy acceptance witness does not behave as the model says",
                      {"exhausting_stream": ex, "accepting_stream": acc}, no_input=True)
    return out
