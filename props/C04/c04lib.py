"""C04 helpers: case generation, harness/model drivers, comparison, property oracle."""
import math, os, re
import vlib
from vlib import hexf, close

LIBS = ["testcel_celeritas", "testcel_harness", "testcel_core", "celeritas", "orange", "geocel", "corecel"]
PRE = ("From Coq Require Import ZArith List Floats.\n"
       "From Celer Require Import Base.Num Base.NumF Base.Vec3 C04.Run.\n"
       "Import ListNotations.\nOpen Scope float_scope.\n")
EPS = 2.0 ** -53
DEPS = 2.0 ** -52
EMASS = 0.5109989461
MUMASS = 105.6583745
MASS = {0: EMASS, 1: EMASS, 2: 0.0, 3: MUMASS, 4: MUMASS}
PROTON_MASS_MEV = None  # filled lazily from the harness if ever needed
ACTIONS = ["scattered", "absorbed", "unchanged", "failed"]

EXPRS = {}

# general fixture: material index -> (name, [Z of element components])
MATS = [("Cu", [29]), ("Pb", [82]), ("K", [19]), ("PbWO", [8, 74, 82]), ("H2O", [1, 8])]


class Case:
    __slots__ = ("model", "p", "u", "modelled", "tag")

    def __init__(self, model, p, u, modelled=False, tag=""):
        self.model, self.p, self.u, self.modelled, self.tag = model, [float(x) for x in p], list(u), modelled, tag

    E = property(lambda s: s.p[0])
    dir = property(lambda s: s.p[1:4])
    size = property(lambda s: int(s.p[4]))
    cap = property(lambda s: int(s.p[5]))
    cut_e = property(lambda s: s.p[6])
    cut_g = property(lambda s: s.p[10] if len(s.p) > 10 else s.p[6])
    cut_p = property(lambda s: s.p[11] if len(s.p) > 11 else s.p[6])
    # the production cut the model itself samples against (gamma cut for bremsstrahlung, electron cut otherwise)
    cut = property(lambda s: s.cut_g if s.model in ("sb", "relbrem", "combined", "mubrems") else s.p[6])

    def cut_of(self, pid):
        """production cut of a particle type (pid codes: 0 e-, 1 e+, 2 gamma)"""
        return {0: self.cut_e, 1: self.cut_p, 2: self.cut_g}.get(pid)
    variant = property(lambda s: int(s.p[7]))
    mat = property(lambda s: int(s.p[8]) if len(s.p) > 8 else 0)
    elcomp = property(lambda s: int(s.p[9]) if len(s.p) > 9 else 0)

    def line(self):
        return "%s %d %s %d %s\n" % (self.model, len(self.p), " ".join(float(x).hex() for x in self.p),
                                     len(self.u), " ".join(float(x).hex() for x in self.u))

    def replay(self, upto=None):
        return {"model": self.model, "tag": self.tag,
                "params[E,dx,dy,dz,size,cap,cut_e,variant,mat,elcomp,cut_g,cut_p]": self.p,
                "params_hex": [float(x).hex() for x in self.p],
                "stream": self.u[:upto] if upto else self.u[:40],
                "stream_hex": [float(x).hex() for x in (self.u[:upto] if upto else self.u[:40])]}


# ---------------------------------------------------------------------------
# generators

def fl(xs):
    return "[" + "; ".join(hexf(x) for x in xs) + "]"


def nextafter(x, up):
    return math.nextafter(x, math.inf if up else -math.inf)


def gen_u(r, n, p_ext=0.05, allow_zero=True):
    out = []
    ext = [0.0, 1 - EPS, EPS, 0.5, 2.0 ** -30, 1 - 2.0 ** -20, 0.25, 0.75]
    if not allow_zero:
        ext = ext[1:]
    for _ in range(n):
        if r.random() < p_ext:
            out.append(r.choice(ext))
        else:
            out.append(r.random())
    return out


def logu(r, lo, hi):
    return 10 ** r.uniform(math.log10(lo), math.log10(hi))


def gen_energy(r, lo, hi, specials=()):
    """log-uniform over [lo, hi] plus both ends and +-1 ulp inside, plus model-specific points"""
    c = r.random()
    if c < 0.10:
        return r.choice([lo, nextafter(lo, True), hi, nextafter(hi, False)])
    if c < 0.16:
        return logu(r, lo, min(hi, lo * 10))      # lowest decade of the interval
    if c < 0.22:
        return logu(r, max(lo, hi / 10), hi)      # highest decade
    if c < 0.34 and specials:
        s = r.choice(list(specials))
        s = r.choice([s, nextafter(s, True), nextafter(s, False), s * (1 + r.uniform(-1e-3, 1e-3))])
        return min(max(s, lo), hi)
    return logu(r, lo, hi)


def unit(v):
    n = math.sqrt(v[0] * v[0] + v[1] * v[1] + v[2] * v[2])
    return [x / n for x in v]


def gen_dir(r):
    c = r.random()
    if c < 0.10:
        return r.choice([[0.0, 0.0, 1.0], [0.0, 0.0, -1.0]])
    if c < 0.115:
        # what make_unit_vector returns for some exactly z-aligned inputs: |z| = 1 - 2^-53
        return r.choice([[0.0, 0.0, 1 - EPS], [0.0, 0.0, -(1 - EPS)]])
    if c < 0.16:
        return r.choice([[1.0, 0.0, 0.0], [0.0, 1.0, 0.0], [-1.0, 0.0, 0.0], [0.0, -1.0, 0.0]])
    if c < 0.40:
        # within (and just around) 0.005 rad of +-z, both signs of x and y: the rotate() branch point
        s = r.choice([logu(r, 1e-9, 4.9e-3), r.uniform(1e-4, 4.99e-3), 0.005 * (1 + r.uniform(-1e-6, 1e-6)),
                      r.uniform(0.005, 0.0051), 1e-12, 1e-140])
        phi = r.choice([r.uniform(0, 2 * math.pi), math.pi / 2, -math.pi / 2, 0.0, math.pi])
        z = r.choice([1, -1]) * math.sqrt(max(0.0, 1 - s * s))
        return unit([s * math.cos(phi), s * math.sin(phi), z])
    z = r.uniform(-1, 1)
    phi = r.uniform(0, 2 * math.pi)
    s = math.sqrt(1 - z * z)
    return unit([s * math.cos(phi), s * math.sin(phi), z])


def small_branch_neg_y(d):
    """incident direction takes rotate()'s 0 < sintheta < 0.005 branch with y < 0"""
    st = math.sqrt(max(0.0, 1 - d[2] * d[2]))
    return 0 < st < 0.005 and d[1] < 0


def gen_alloc(r, needed):
    """(size, capacity): mostly room, sometimes exactly enough, sometimes short"""
    c = r.random()
    cap = r.choice([4, 8, 2, 16])
    if c < 0.80:
        return r.randrange(0, max(1, cap - needed + 1)) if cap >= needed else 0, max(cap, needed)
    if c < 0.88:
        cap = max(cap, needed)
        return cap - needed, cap          # exactly enough
    if needed == 0:
        return 0, cap
    if c < 0.96:
        return max(0, cap - needed + 1), cap  # one short
    return cap, cap                         # full


def other_cut(r, cut):
    """cut of another particle type: equal, or different in either direction (mildly / by orders of magnitude)"""
    c = r.random()
    if c < 0.2:
        return cut
    f = r.choice([1e-3, 1e-2, 0.1, 0.5, 2.0, 10.0, 1e2, 1e3])
    return min(max(cut * f, 1e-6), 1e4)


def mk(model, r, E, needed, cut, variant=0, mat=0, elcomp=0, nstream=48, modelled=False, tag="", p_ext=0.05,
       allow_zero=True, d=None, cuts=None):
    """cut = the production cut the model samples against (gamma cut for bremsstrahlung models, electron cut
    otherwise); the cuts of the other particle types differ from it in both directions"""
    size, cap = gen_alloc(r, needed)
    d = d if d is not None else gen_dir(r)
    if cuts is not None:
        ce, cg, cp = cuts
    elif model in ("sb", "relbrem", "combined", "mubrems"):
        cg, ce, cp = cut, other_cut(r, cut), other_cut(r, cut)
    else:
        ce, cg, cp = cut, other_cut(r, cut), other_cut(r, cut)
    return Case(model, [E] + d + [size, cap, ce, variant, mat, elcomp, cg, cp], gen_u(r, nstream, p_ext, allow_zero),
                modelled, tag)


def gen_kn(r):
    if r.random() < 0.12:
        # extreme low / high end (applicability (0, max)): oracle only, the differential is limited to
        # [1e-6, 1e8] MeV where 1 - eps is not dominated by the rounding of libm vs the model's exp/log
        E = r.choice([logu(r, 1e-12, 1e-6), logu(r, 1e8, 1e15), 1e-12, 1e15])
        return mk("kn", r, E, 1, 1e-3, modelled=False, tag="kn-extreme-energy")
    E = gen_energy(r, 1e-6, 1e8, specials=[1e-4, 3e-3, 1e-2, 0.0511, EMASS, 1.0])
    return mk("kn", r, E, 1, 1e-3, modelled=True)


def gen_eplusgg(r):
    c = r.random()
    E = 0.0 if c < 0.15 else gen_energy(r, 1e-9, 1e8, specials=[EMASS, 1.0, 1e-3])
    return mk("eplusgg", r, E, 2, 1e-3, modelled="eplusgg" in EXPRS)


def gen_mb(r):
    v = r.choice([0, 1])
    fac = 2 if v == 0 else 1
    cut = r.choice([1e-3, 1e-3, 0.02, logu(r, 1e-4, 10)])
    lo = nextafter(fac * cut, True)
    E = gen_energy(r, lo, 1e8, specials=[fac * cut * (1 + 1e-9), fac * cut * 1.01, 1.0, 10.0, fac * cut * 3])
    if r.random() < 0.15:
        # cut just below the kinematic maximum of the secondary
        E = logu(r, 1e-2, 1e4)
        cut = (E / fac) * (1 - r.choice([1e-15, 1e-12, 1e-6, 1e-3]))
        if not E > fac * cut:
            cut = nextafter(E / fac, False)
    return mk("mb", r, E, 1, cut, variant=v, nstream=64, modelled="mb" in EXPRS)


def pick_mat(r, mats=None):
    mi = r.randrange(len(MATS)) if mats is None else r.choice(mats)
    return mi, r.randrange(len(MATS[mi][1]))


def gen_bh(r):
    lpm = r.choice([0, 0, 1])
    E = gen_energy(r, 2 * EMASS, 1e8, specials=[2.0, 50.0, 1e5, 1.5, 80.0, 1e6])
    mi, ec = pick_mat(r)
    modelled = "bh" in EXPRS and (lpm == 0 or E <= 1e5)
    return mk("bh", r, E, 2, 1e-3, variant=lpm, mat=mi, elcomp=ec, nstream=160, modelled=modelled, allow_zero=False)


def mu_tmax(E):
    r_ = EMASS / MUMASS
    tau = E / MUMASS
    return 2 * EMASS * tau * (tau + 2) / (1 + 2 * (tau + 1) * r_ + r_ * r_)


def gen_muhad(kind, lo, hi):
    def g(r):
        v = r.choice([0, 1])
        E = gen_energy(r, lo, hi, specials=[0.2, 1.0, 10.0, 1e3])
        tmax = mu_tmax(E)
        c = r.random()
        if c < 0.55:
            cut = tmax * logu(r, 1e-4, 0.9)
        elif c < 0.75:
            cut = tmax * (1 - r.choice([1e-15, 1e-9, 1e-3]))     # just below the kinematic maximum
        elif c < 0.85:
            cut = tmax * (1 + r.choice([0.0, 1e-15, 1e-3, 1.0]))  # at/above: 'unchanged'
        else:
            cut = r.choice([1e-3, 1e-4, 1e-2])
        cut = min(max(cut, 1e-300), E * (1 - 1e-12))   # precondition: inc_energy > min secondary energy
        # acceptance >= 1 - beta^2 only: near the kinematic maximum the loop is long for large gamma
        tag = "low-acceptance" if cut > 0.5 * tmax else ""
        return mk("muhad_" + kind, r, E, 1, cut, variant=v, nstream=64, modelled=("muhad_" + kind) in EXPRS, tag=tag)
    return g


def gen_mubrems(r):
    cut = r.choice([1e-3, 1e-3, 0.02, logu(r, 1e-4, 10)])
    E = gen_energy(r, nextafter(cut, True), 1e8, specials=[cut * 1.01, 1.0, 1100.0, 1e5])
    mi, ec = pick_mat(r)
    cut = brem_cut_corner(r, E, cut)
    return mk("mubrems", r, E, 1, cut, variant=r.choice([0, 1]), mat=mi, elcomp=ec, nstream=200, allow_zero=False)


def gen_rayleigh(r):
    E = gen_energy(r, 1e-6, 1e8, specials=[1e-3, 1e-2, 0.1, 1.0])
    mi, ec = pick_mat(r)
    # differential only for E >= 1e-4 MeV: below, cos = 1 - 2x/(b factor) amplifies the libm-vs-model rounding of
    # fastpow(1-y, -1/n) - 1 by 1/(b factor) (factor ~ E^2); the oracle still runs
    return mk("rayleigh", r, E, 0, 1e-3, mat=mi, elcomp=ec, nstream=200, modelled="rayleigh" in EXPRS and E >= 1e-4)


def gen_sb(r):
    cut = r.choice([1e-3, 0.02064384, logu(r, 1e-3, 1.0)])
    E = gen_energy(r, nextafter(cut, True), nextafter(1e3, False), specials=[cut * 1.001, 1.0, 10.0, 100.0])
    cut = brem_cut_corner(r, E, cut)
    return mk("sb", r, E, 1, cut, variant=r.choice([0, 1]), mat=r.choice([0, 1]), nstream=256, allow_zero=False)


def gen_relbrem(r):
    cut = r.choice([1e-3, 0.0945861, logu(r, 1e-3, 10.0)])
    E = gen_energy(r, 1e3, 1e8, specials=[1e4, 2.5e4, 1e6])
    cut = brem_cut_corner(r, E, cut)
    return mk("relbrem", r, E, 1, cut, variant=r.choice([0, 1, 2, 3]), mat=r.choice([0, 1]), nstream=256,
              allow_zero=False)


def gen_combined(r):
    cut = r.choice([1e-3, 0.02064384, logu(r, 1e-3, 1.0)])
    E = gen_energy(r, nextafter(cut, True), 1e8, specials=[1e3, cut * 1.001, 1.0, 2.5e4])
    cut = brem_cut_corner(r, E, cut)
    return mk("combined", r, E, 1, cut, variant=r.choice([0, 1]), mat=r.choice([0, 1]), nstream=256,
              allow_zero=False)


def gen_livermore(r):
    v = r.choice([0, 1, 2])
    # applicability (0, max): down to far below the smallest binding energy of K (4.22 eV, the lowest tabulated
    # energy) and up to 1e8 MeV; specials = subshell binding energies / table ends / direction-sampling limits
    E = gen_energy(r, 1e-8, 1e8, specials=[4.22e-6, 3.6074e-3, 3.77e-4, 2.96e-4, 1.8e-5, 3.4e-5, 1e-6, 1e-3, 1e-2,
                                           100.0, 5e-3, 0.0035833, 0.104713])
    # electron / gamma cuts around the K (Z=19) transition energies (0.2-3.6 keV), different in both directions
    ce = r.choice([1e-5, 1e-4, 3e-4, 1e-3, 3e-3, 1e-2])
    cg = r.choice([1e-5, 1e-4, 3e-4, 1e-3, 3e-3, 1e-2])
    c = mk("livermore", r, E, 1, ce, variant=v, nstream=200, cuts=(ce, cg, r.choice([ce, 1e-2, 1e-5])))
    # room for relaxation products (count = 1 + max_secondaries) in most cases
    if r.random() < 0.8:
        c.p[4], c.p[5] = 0.0, 64.0
    if v > 0 and r.random() < 0.6:
        # the SAME element in two materials with per-material production cuts: AtomicRelaxationParams records per
        # element the minimum of each cut over the materials containing it and sizes the allocation (max_secondary)
        # from it.  The other material's (e-, gamma) cuts relate to this one's in all four ways (lower e- only, lower
        # gamma only, both, none; mostly the mixed ones), the interaction takes place in material 0 or 1 (mostly the one
        # processed last); photon above the K edge so that the cascade is long; cuts of this material below the K
        # transition energies (0.2-3.6 keV); ample storage (an under-sized allocation must show up as count >
        # allocated, not as a heap overflow of the harness)
        c.p[8] = float(r.choice([0, 1, 1, 1]))
        c.p[0] = r.choice([5e-3, 4e-3, logu(r, 3.7e-3, 1.0), 0.1])
        c.p[4], c.p[5] = 0.0, 64.0
        if r.random() < 0.65:
            # designed: one cut of THIS material is below the K transition energies it gates (L-shell Auger ~0.25 keV,
            # K x rays 3.3-3.6 keV) while the other material's is above them, and the remaining cut of this material is
            # NOT lower than the other material's (so a per-element minimum that only updates when both cuts are lower
            # loses it); mostly Auger on, mostly the material processed last
            if r.random() < 0.8:
                c.p[7] = 2.0
            c.p[8] = float(r.choice([1, 1, 1, 1, 1, 0]))
            if r.random() < 0.6:
                ce, oe = r.choice([1e-5, 1e-4, 2e-4]), r.choice([1e-3, 3e-3, 1e-2])
                cg = r.choice([1e-4, 1e-3, 1e-2])
                og = r.choice([cg, cg / 10])
            else:
                cg, og = r.choice([1e-4, 1e-3, 3e-3]), r.choice([5e-3, 1e-2])
                ce = r.choice([1e-5, 1e-4, 1e-3])
                oe = r.choice([ce, ce / 10])
            c.p[6], c.p[10] = ce, cg
            c.p += [oe, og]
        else:
            k1, k2 = r.choice([(0.1, 1.0), (1.0, 0.1), (0.1, 0.1), (10.0, 10.0), (1.0, 1.0), (10.0, 1.0), (1.0, 10.0),
                               (10.0, 0.1), (0.1, 10.0)])
            c.p += [min(max(ce * k1, 1e-6), 1.0), min(max(cg * k2, 1e-6), 1.0)]
        c.tag = "livermore-two-materials"
    return c


def gen_coulomb(r):
    E = gen_energy(r, 1e-5, nextafter(1e8, False), specials=[1.0, 50.0, 200.0, 1e3])
    cut = r.choice([0.5, 1e-3, 10.0])
    return mk("coulomb", r, E, 0, cut, variant=r.randrange(6), elcomp=r.choice([0, 1]), nstream=64)


GENERATORS = {
    "kn": (gen_kn, 400), "eplusgg": (gen_eplusgg, 300), "mb": (gen_mb, 400), "bh": (gen_bh, 400),
    "muhad_bb": (gen_muhad("bb", 0.2, 1e3), 200), "muhad_mubb": (gen_muhad("mubb", 0.2, 1e8), 200),
    "muhad_bragg": (gen_muhad("bragg", 1e-5, 0.2), 150), "mubrems": (gen_mubrems, 200),
    "rayleigh": (gen_rayleigh, 300), "sb": (gen_sb, 200), "relbrem": (gen_relbrem, 200),
    "combined": (gen_combined, 200), "livermore": (gen_livermore, 300), "coulomb": (gen_coulomb, 200),
}


def load_corpus():
    """minimised past disagreements / findings, run first"""
    import json
    path = os.path.join(os.path.dirname(os.path.abspath(__file__)), "corpus", "cases.json")
    if not os.path.exists(path):
        return []
    out = []
    for e in json.load(open(path)):
        out.append(Case(e["model"], [float.fromhex(x) for x in e["p_hex"]], [float.fromhex(x) for x in e["u_hex"]],
                        modelled=bool(e.get("modelled", False)) and e["model"] in EXPRS, tag="corpus"))
    return out


def brem_cut_corner(r, E, cut):
    """gamma production cut within a few ulp .. 1e-6 (relative) below the incident energy"""
    if r.random() < 0.08:
        return E * (1 - r.choice([2.0 ** -52, 2.0 ** -51, 1e-15, 1e-12, 1e-9, 1e-6]))
    return cut


def gen_cases(ctx, scale):
    r = ctx.rng
    cases = load_corpus()
    for name, (g, n) in GENERATORS.items():
        for _ in range(int(n * scale)):
            cases.append(g(r))
    return cases


# ---------------------------------------------------------------------------
# implementation side

def parse_impl(line):
    t = line.split()
    if not t:
        return {"status": "error", "what": "empty line"}
    if t[0] == "exhausted":
        return {"status": "exhausted"}
    if t[0] != "ok":
        return {"status": "error", "what": line}

    def f(s):
        return float.fromhex(s) if s not in ("nan", "inf", "-inf") else float(s)
    r = {"status": "ok", "draws": int(t[1]), "action": int(t[2]), "E": f(t[3]), "dir": [f(x) for x in t[4:7]],
         "dep": f(t[7]), "alloc": int(t[8]), "secs": []}
    n = int(t[9])
    for i in range(n):
        b = 10 + 5 * i
        r["secs"].append((int(t[b]), f(t[b + 1]), [f(x) for x in t[b + 2:b + 5]]))
    return r


def run_impl(ctx, exe, cases):
    inp = "".join(c.line() for c in cases)
    rc, out = ctx.run_harness(exe, input=inp, timeout=1200)
    lines = out.strip().splitlines()
    if rc != 0 or len(lines) != len(cases):
        raise vlib.BuildError("interactor harness failed rc=%d (%d lines for %d cases)" % (rc, len(lines), len(cases)),
                              out[-3000:])
    return [parse_impl(l) for l in lines]


# ---------------------------------------------------------------------------
# model side

def v3(d):
    return "(V3 %s %s %s)" % tuple(hexf(x) for x in d)


def expr_kn(c):
    return "run_kn %s %s %s %d %d %s" % (hexf(1 / EMASS), hexf(c.E), v3(c.dir), c.size, c.cap, fl(c.u))


PROTON_MEV = 938.27208816


EP_FIXED = [False]   # which EPlusGG variant the tree implements (detected from the implementation's outputs)


def detect_eplusgg_variant(ctx, cases, impl):
    """old code: the second gamma always leaves along the incident direction"""
    votes = {True: 0, False: 0}
    for c, a in zip(cases, impl):
        if c.model == "eplusgg" and c.E > 0 and a["status"] == "ok" and a["action"] == 1 and len(a["secs"]) == 2:
            d1 = a["secs"][1][2]
            if all(math.isfinite(x) for x in d1 + a["secs"][0][2]):
                along = max(abs(x - y) for x, y in zip(d1, c.dir)) < 1e-9
                back = abs(sum(x * y for x, y in zip(a["secs"][0][2], c.dir)) - 1) < 1e-9
                if not back:
                    votes[not along] += 1
    EP_FIXED[0] = votes[True] > votes[False]
    ctx.coverage["eplusgg_variant"] = "repaired" if EP_FIXED[0] else "pinned (second gamma along incident direction)"
    ctx.coverage["eplusgg_variant_votes"] = {"repaired": votes[True], "pinned": votes[False]}


def expr_eplusgg(c):
    return "run_eplusgg %s %s %s %s %d %d %s" % ("true" if EP_FIXED[0] else "false", hexf(EMASS), hexf(c.E),
                                                 v3(c.dir), c.size, c.cap, fl(c.u))


def expr_mb(c):
    return "run_mb %s %s %s %s %s %d %d %s" % (hexf(EMASS), hexf(c.cut), hexf(c.E), v3(c.dir),
                                              "true" if c.variant == 0 else "false", c.size, c.cap, fl(c.u))


def expr_muhad(kind):
    def f(c):
        tmin = c.cut
        if kind == 2:
            low = 5e-3 if c.variant == 0 else 2.5e-4   # mu- : ICRU73QO, mu+ : Bragg
            tmin = min(c.cut, low * MUMASS / PROTON_MEV)
        return "run_muhad %d %s %s %s %s %s %d %d %s" % (kind, hexf(MUMASS), hexf(c.E), v3(c.dir), hexf(EMASS),
                                                          hexf(tmin), c.size, c.cap, fl(c.u))
    return f


ELEM = {}      # (mat, elcomp) -> (Z, cbrt_z, log_z, coulomb)
RAYP = {}      # (mat, elcomp) -> (a[3], b[3], n[3], kfac)


def load_element_data(ctx, exe):
    inp = ""
    keys = [(mi, ec) for mi, (_, zs) in enumerate(MATS) for ec in range(len(zs))]
    for mi, ec in keys:
        inp += "elem 2 %d %d\nrayparams 2 %d %d\n" % (mi, ec, mi, ec)
    rc, out = ctx.run_harness(exe, input=inp)
    lines = out.strip().splitlines()
    if rc != 0 or len(lines) != 2 * len(keys):
        raise vlib.BuildError("element data query failed", out[-2000:])
    for i, k in enumerate(keys):
        t = lines[2 * i].split()
        ELEM[k] = (int(t[1]),) + tuple(float.fromhex(x) for x in t[2:5])
        t = [float.fromhex(x) for x in lines[2 * i + 1].split()[1:]]
        RAYP[k] = (t[0:3], t[3:6], t[6:9], t[9])


def expr_bh(c):
    z, cb, lz, cc = ELEM[(c.mat, c.elcomp)]
    return "run_bh %s %s %s %s %s %s %d %d %s" % (hexf(EMASS), hexf(c.E), v3(c.dir), hexf(cb), hexf(lz), hexf(cc),
                                                  c.size, c.cap, fl(c.u))


def expr_rayleigh(c):
    a, b, n, k = RAYP[(c.mat, c.elcomp)]
    return "run_rayleigh %s %s %s %s %s %s %d %d %s" % (hexf(c.E), v3(c.dir), fl(a), fl(b), fl(n), hexf(k),
                                                        c.size, c.cap, fl(c.u))


EXPRS["kn"] = expr_kn
EXPRS["eplusgg"] = expr_eplusgg
EXPRS["mb"] = expr_mb
EXPRS["muhad_bb"] = expr_muhad(0)
EXPRS["muhad_mubb"] = expr_muhad(1)
EXPRS["muhad_bragg"] = expr_muhad(2)
EXPRS["bh"] = expr_bh
EXPRS["rayleigh"] = expr_rayleigh


def parse_model(v):
    if v is None:
        return {"status": "exhausted"}
    a, e, d, dep, secs, size, draws = v
    return {"status": "ok", "draws": draws, "action": a, "E": float(e), "dir": [float(x) for x in d],
            "dep": float(dep), "alloc": size,
            "secs": [(s[0], float(s[1]), [float(x) for x in s[2]]) for s in secs]}


BREM = ("sb", "relbrem", "combined", "mubrems")


def run_model(ctx, cases, impl):
    detect_eplusgg_variant(ctx, cases, impl)
    idx = [i for i, c in enumerate(cases) if c.modelled]
    exprs = [EXPRS[cases[i].model](cases[i]) for i in idx]
    # Tier B: calc_exiting_direction of the model on the implementation's own outputs
    tb = [i for i, c in enumerate(cases) if c.model in BREM and impl[i]["status"] == "ok"
          and impl[i]["action"] == 0 and len(impl[i]["secs"]) == 1
          and all(math.isfinite(x) for x in impl[i]["secs"][0][2])]
    for i in tb:
        c, a = cases[i], impl[i]
        m = MASS[INC_PID[c.model](c)]
        pinc = math.sqrt(c.E * c.E + 2 * m * c.E)
        exprs.append("run_calc_exit %s %s %s %s" % (hexf(pinc), v3(c.dir), hexf(a["secs"][0][1]), v3(a["secs"][0][2])))
    res = [None] * len(cases)
    if not exprs:
        return res
    vals = ctx.coq_eval("cases", PRE, exprs, chunk=max(40, len(exprs) // 10 + 1), timeout=900)
    for i, v in zip(idx, vals[:len(idx)]):
        res[i] = parse_model(v)
    for i, v in zip(tb, vals[len(idx):]):
        res[i] = {"status": "tierb", "dir": [float(x) for x in v]}
    return res


# ---------------------------------------------------------------------------
# comparison

def _axis_tol(c, d, base):
    """a direction within ~1e-6 rad of +- the incident axis has sin(theta) = sqrt(1 - cos^2) with cos^2 within
    1e-12 of 1: the transverse components (~1e-6) are determined by the rounding of cos alone"""
    try:
        dot = sum(x * y for x, y in zip(d, c.dir))
        if math.isfinite(dot) and 1 - abs(dot) <= 1e-12:
            return max(base, 1e-6)
    except TypeError:
        pass
    return base


def _at_tmax(c, a):
    if not a["secs"] or a["secs"][0][0] != 0:
        return False
    tmax = (c.E if c.variant == 1 else c.E / 2) if c.model == "mb" else mu_tmax(c.E)
    return abs(a["secs"][0][1] - tmax) <= 1e-10 * tmax


def agree(c, a, b):
    """a = implementation, b = model"""
    if a["status"] != b["status"]:
        return False
    if a["status"] != "ok":
        return True
    if a["action"] != b["action"] or a["draws"] != b["draws"] or a["alloc"] != b["alloc"]:
        return False
    if len(a["secs"]) != len(b["secs"]):
        return False
    if a["action"] in (2, 3):
        return True   # energy/direction of failed/unchanged are indeterminate
    eatol = 1e-12 * (c.E + 2 * EMASS)
    if not close(a["dep"], b["dep"], 1e-9, eatol):
        return False
    if a["action"] == 0:
        if not close(a["E"], b["E"], 1e-9, eatol):
            return False
        # the direction of a particle left with (numerically) zero energy is the
        # normalised difference of two equal momenta: ill-conditioned, not compared
        # (an exactly stopped primary, E' = 0, keeps the incident direction since /repo a57af2a: compared)
        stopped = (c.model in ("mb", "muhad_bb", "muhad_mubb", "muhad_bragg") and abs(a["E"]) <= 1e-9 * c.E
                   and not (a["E"] == 0.0 and b["E"] == 0.0))
        patol = 1e-9
        if c.model in ("mb", "muhad_bb", "muhad_mubb", "muhad_bragg") and _at_tmax(c, a):
            patol = 1e-6
        if c.model == "kn" and a["E"] > 0 and abs((1 - a["E"] / c.E) / (a["E"] / c.E * c.E / EMASS) - 2) <= 1e-9:
            patol = 1e-6
        if not stopped and not close(a["dir"], b["dir"], 1e-9, _axis_tol(c, a["dir"], patol)):
            return False
    # at the kinematic limit T_e = Tmax, cos(theta) = 1 - O(eps) and sin(theta) = sqrt(1 - cos^2) is
    # determined by rounding alone (cf. the NaN known finding): directions compared to 1e-6 there
    datol = 1e-9
    if c.model == "kn" and a["action"] == 0 and a["E"] > 0:
        # exact backscatter (eps ~ eps0, cos ~ -1): sin(theta) = sqrt(1 - cos^2) is determined by rounding alone
        eps = a["E"] / c.E
        if abs((1 - eps) / (eps * c.E / EMASS) - 2) <= 1e-9:
            datol = 1e-6
    if c.model in ("mb", "muhad_bb", "muhad_mubb", "muhad_bragg") and a["secs"] and a["secs"][0][0] == 0:
        tmax = (c.E if c.variant == 1 else c.E / 2) if c.model == "mb" else mu_tmax(c.E)
        if abs(a["secs"][0][1] - tmax) <= 1e-10 * tmax:
            datol = 1e-6
    if c.model == "kn" and a["secs"] and a["secs"][0][0] == 0 and a["secs"][0][1] > 0:
        # electron direction = unit(E d - E' d'): a difference of nearly equal momenta when T << E; the rounding of
        # d' (1e-16) is amplified by E / p_e
        t = a["secs"][0][1]
        datol = max(datol, 1e-14 * c.E / math.sqrt(t * (t + 2 * EMASS)))
    for sa, sb in zip(a["secs"], b["secs"]):
        if sa[0] != sb[0] or not close(sa[1], sb[1], 1e-9, eatol) or not close(sa[2], sb[2], 1e-9, _axis_tol(c, sa[2], datol)):
            return False
    return True


def knife_edge(ctx, exe, c, mres):
    """accept the model's differing discrete answer only if nudging one consumed
    uniform by a few ulp makes the implementation give the same answer"""
    if mres["status"] != "ok":
        return False
    n = min(len(c.u), max(mres["draws"], 1) + 2)
    variants = []
    for k in range(n):
        for dlt in (1e-13, -1e-13, 4e-16, -4e-16):
            x = c.u[k] * (1 + dlt) if c.u[k] > 0 else abs(dlt) * 1e-3
            if not (0 <= x < 1):
                continue
            u2 = list(c.u)
            u2[k] = x
            variants.append(Case(c.model, c.p, u2))
    if not variants:
        return False
    res = run_impl(ctx, exe, variants)
    return any(agree(c, r, mres) for r in res)


def nsq(v):
    return v[0] * v[0] + v[1] * v[1] + v[2] * v[2]


NEEDED = {"kn": 1, "eplusgg": 2, "mb": 1, "bh": 2, "muhad_bb": 1, "muhad_mubb": 1, "muhad_bragg": 1,
          "mubrems": 1, "rayleigh": 0, "sb": 1, "relbrem": 1, "combined": 1, "coulomb": 0, "livermore": None}
INC_PID = {"kn": lambda c: 2, "eplusgg": lambda c: 1, "mb": lambda c: c.variant, "bh": lambda c: 2,
           "muhad_bb": lambda c: 3 + c.variant, "muhad_mubb": lambda c: 3 + c.variant,
           "muhad_bragg": lambda c: 3 + c.variant, "mubrems": lambda c: 3 + c.variant,
           "rayleigh": lambda c: 2, "sb": lambda c: c.variant % 2, "relbrem": lambda c: c.variant % 2,
           "combined": lambda c: c.variant % 2, "coulomb": lambda c: c.variant % 2, "livermore": lambda c: 2}
MOMENTUM_MODELS = {"kn", "eplusgg", "mb", "muhad_bb", "muhad_mubb", "muhad_bragg"}
ALLOWED_SEC = {"kn": {0}, "eplusgg": {2}, "mb": {0}, "bh": {0, 1}, "muhad_bb": {0}, "muhad_mubb": {0},
               "muhad_bragg": {0}, "mubrems": {2}, "sb": {2}, "relbrem": {2}, "combined": {2},
               "livermore": {0, 2}, "rayleigh": set(), "coulomb": set()}
MOM_TOL = 1e-7


def threshold(c, i, pid):
    """production threshold that secondary number i of particle type pid must respect: the cut OF ITS OWN
    PARTICLE TYPE for every model that applies cuts, the model's own constant where it has one; None = no bound"""
    m = c.model
    if m == "kn":
        return 1e-4                      # KleinNishinaInteractor::secondary_cutoff()
    if m in ("mb", "muhad_bb", "muhad_mubb", "mubrems", "sb", "relbrem", "combined"):
        return c.cut_of(pid)             # delta electron >= electron cut, brems photon >= gamma cut
    if m == "muhad_bragg":
        low = 5e-3 if c.variant == 0 else 2.5e-4
        return min(c.cut_e, low * MUMASS / PROTON_MEV) if pid == 0 else c.cut_of(pid)
    if m == "livermore":
        # photoelectron (first secondary): no cut; relaxation products: Auger e- >= electron cut,
        # fluorescence photon >= gamma cut
        return None if i == 0 else c.cut_of(pid)
    return None


def nan_signature(c, a):
    """Known-finding signatures for NaN directions, kept narrow: only when the exact
    (rational arithmetic on the doubles) argument of the square root is within a
    few ulp of its bound, i.e. the sampled kinematic variable sits at its limit, AND
    an extreme uniform was consumed (or the cut itself is within 1e-8 of Tmax)."""
    # The three defects behind these signatures are repaired (/repo 01d8a4d KN min(1-cos, 2), 9ddc3d9 EPlusGG
    # clamp(cos, -1, 1), 14a7210 IoniFinalStateHelper min(cos, 1)): a NaN there is a plain VIOLATION again
    # (corpus cases replay the former NaN inputs on every run), so no signature is ever returned.
    return None
    from fractions import Fraction as F
    m, act = c.model, a["action"]
    used = c.u[:a["draws"]]
    extreme = any(x <= 2.0 ** -29 or x >= 1 - 2.0 ** -19 for x in used)
    try:
        if m == "kn" and act == 0 and not all(math.isfinite(x) for x in a["dir"]):
            eps = F(a["E"]) / F(c.E)
            k = F(c.E) * F(1 / EMASS)
            cos = 1 - (1 - eps) / (eps * k)
            # E_out carries a relative rounding error ~1e-16 that 1 - cos amplifies by 1/(1 - eps0) = (1+2k)/(2k)
            tol = max(1e-9, 1e-15 * float((1 + 2 * k) / (2 * k)))
            if extreme and abs(float(1 + cos)) <= tol:
                return "kn-one-minus-costheta-exceeds-2-by-rounding-nan-direction"
        if m == "eplusgg" and c.E > 0 and not all(math.isfinite(x) for x in a["secs"][0][2]):
            etot = F(c.E) + 2 * F(EMASS)
            eps = F(a["secs"][0][1]) / etot
            cos2 = (eps * etot - F(EMASS)) ** 2 / (eps * eps * F(c.E) * etot)
            # eps = 1/2 -+ sqgrate carries an absolute rounding error ~1e-16 (cancellation at large tau) that
            # cos amplifies by d cos / d eps = m / (eps^2 p)
            tol = max(1e-11, 4e-15 * EMASS / (float(eps) ** 2 * math.sqrt(c.E * (c.E + 2 * EMASS))))
            if extreme and abs(float(1 - cos2)) <= tol:
                return "eplusgg-cost-outside-unit-interval-by-rounding-nan-direction"
        if m in ("mb", "muhad_bb", "muhad_mubb", "muhad_bragg") and act == 0:
            te = F(a["secs"][0][1])
            M = F(MASS[INC_PID[m](c)])
            me, E = F(EMASS), F(c.E)
            cos2 = te * (E + M + me) ** 2 / ((te + 2 * me) * E * (E + 2 * M))
            tmax = (c.E if c.variant == 1 else c.E / 2) if m == "mb" else mu_tmax(c.E)
            if abs(float(1 - cos2)) <= 1e-13 and (extreme or c.cut >= tmax * (1 - 1e-8)):
                return "ioni-final-state-costheta-exceeds-1-by-rounding-nan-direction"
    except (ZeroDivisionError, IndexError):
        pass
    return None


def oracle(c, a):
    """The property itself on the implementation's outputs.  Returns [(what, signature)]."""
    bad = []
    if a["status"] == "exhausted":
        return bad   # judged by the caller (stream length dependent)
    if a["status"] != "ok":
        return [("harness error: %s" % a.get("what"), None)]
    m = c.model
    act = a["action"]
    needed = NEEDED[m]
    pre = c.size if c.cap > 0 else 0
    cap = c.cap if c.cap > 0 else 0
    if act == 3:
        if a["secs"] or a["alloc"] != pre or a["draws"] != 0:
            bad.append(("failure is not atomic: secondaries=%d allocator size %d (was %d) draws=%d"
                        % (len(a["secs"]), a["alloc"], pre, a["draws"]), None))
        if needed is not None and pre + needed <= cap:
            bad.append(("spurious allocation failure", None))
        return bad
    if needed is not None and act != 2 and pre + needed > cap:
        bad.append(("allocation beyond capacity was not reported as failure", None))
    if act == 2:
        if a["secs"] or a["alloc"] != pre or a["dep"] != 0:
            bad.append(("'unchanged' interaction has side effects", None))
        return bad
    if a["alloc"] < pre + len(a["secs"]) or a["alloc"] > cap:
        bad.append(("allocator size %d inconsistent with %d secondaries (was %d, capacity %d)"
                    % (a["alloc"], len(a["secs"]), pre, cap), None))
    inc = INC_PID[m](c)
    vals = [a["dep"]] + ([a["E"]] + a["dir"] if act == 0 else []) + [x for s in a["secs"] for x in [s[1]] + s[2]]
    if not all(math.isfinite(x) for x in vals):
        sig = nan_signature(c, a)
        if sig is None and c.dir[0] == 0 and c.dir[1] == 0 and abs(c.dir[2]) < 1:
            sig = "rotate-nan-for-z-aligned-rot-with-rounded-unit-norm"
        return bad + [("non-finite value in the final state (NaN direction)", sig)]
    # energy balance
    e_in = c.E + (2 * EMASS if (act == 1 and inc == 1) else 0.0)
    e_out = a["dep"] + (a["E"] if act == 0 else 0.0)
    scale = e_in + 2 * EMASS
    for pid, e, d in a["secs"]:
        e_out += e + (2 * EMASS if pid == 1 else 0.0)
    if abs(e_in - e_out) > 32 * DEPS * scale:
        bad.append(("energy not conserved: in %.17g out %.17g (diff %.3g)" % (e_in, e_out, e_in - e_out), None))
    # validity
    if a["dep"] < 0 or (act == 0 and a["E"] < 0):
        sig = None
        # known finding, narrow: bremsstrahlung model, exiting energy negative at rounding level because the sampled
        # photon energy is the incident energy + 1-2 ulp, with the gamma cut within 1e-12 (relative) of the incident
        # energy or an extreme uniform consumed (photon energy at the upper end of its range)
        if (m in BREM and a["dep"] >= 0 and act == 0 and abs(a["E"]) <= 1e-12 * c.E and len(a["secs"]) == 1
                and abs(a["secs"][0][1] - c.E) <= 1e-12 * c.E):
            used = c.u[:a["draws"]]
            if abs(c.cut_g - c.E) <= 1e-12 * c.E or any(x <= 2.0 ** -29 or x >= 1 - 2.0 ** -19 for x in used):
                sig = "brem-exiting-energy-negative-by-rounding-at-cut-near-energy"
        bad.append(("negative energy (deposit %.3g, exiting %.3g)" % (a["dep"], a["E"]), sig))
    if act == 0 and abs(math.sqrt(nsq(a["dir"])) - 1) > 1e-12:
        bad.append(("exiting direction is not a unit vector: %r" % (a["dir"],), None))
    for i, (pid, e, d) in enumerate(a["secs"]):
        if pid < 0:
            if e != 0:
                bad.append(("cleared secondary %d keeps energy %.3g" % (i, e), None))
            continue
        if pid not in ALLOWED_SEC[m] or (m == "bh" and pid != i):
            bad.append(("secondary %d has unexpected particle id %d" % (i, pid), None))
        if e < 0:
            sig = None
            # known finding, narrow: Bethe-Heitler pair member at the kinematic limit eps = m/E (or 1/2), ulp-level
            # negative, with an extreme uniform (0 or >= 1 - 2^-52) among the draws consumed
            if (m == "bh" and abs(e) <= 1e-12 * c.E
                    and any(x == 0.0 or x >= 1 - 2.0 ** -52 for x in c.u[:a["draws"]])):
                sig = "bh-pair-energy-negative-by-rounding-at-extreme-uniform"
            bad.append(("secondary %d has negative energy %.3g" % (i, e), sig))
        if abs(math.sqrt(nsq(d)) - 1) > 1e-12:
            bad.append(("secondary %d direction is not a unit vector: %r" % (i, d), None))
        th = threshold(c, i, pid)
        if th is not None and e < th * (1 - 1e-12):
            sig = None
            # known finding, narrow: RBEnergySampler's sqrt(esq - density_corr) with density_corr >> cut^2 (relativistic
            # and combined brems at very high energy): photon within 1e-3 below the gamma cut, shortfall inside the rounding
            # bound of the subtraction (d_rho <= 1e-6 E_tot^2 for the fixture's materials), candidate draw ~ 0 consumed
            if (m in ("relbrem", "combined") and pid == 2 and e >= th * (1 - 1e-3)
                    and (th - e) / th <= 8 * 2.0 ** -52 * (1 + 1e-6 * (c.E + EMASS) ** 2 / (th * th))
                    and any(x <= 1e-15 for x in c.u[:a["draws"]])):
                sig = "relbrem-photon-below-cut-by-density-correction-rounding"
            bad.append(("secondary %d (pid %d) energy %.17g below the production threshold %.17g of its particle type"
                        % (i, pid, e, th), sig))
    # momentum balance where all products are returned
    if m in MOMENTUM_MODELS and not any(s[0] < 0 for s in a["secs"]):
        def pvec(pid, e, d):
            p = math.sqrt(e * (e + 2 * MASS[pid]))
            return [p * x for x in d]
        pin = pvec(inc, c.E, c.dir)
        tot = [0.0, 0.0, 0.0]
        mag = math.sqrt(nsq(pin))
        parts = ([pvec(inc, a["E"], a["dir"])] if act == 0 else []) + [pvec(*s) for s in a["secs"]]
        for q in parts:
            tot = [t + x for t, x in zip(tot, q)]
            mag += math.sqrt(nsq(q))
        res = math.sqrt(nsq([t - x for t, x in zip(tot, pin)]))
        if res > MOM_TOL * mag:
            # signatures of the two repaired defects: only while the tree still shows them
            sig = None
            if m == "eplusgg" and c.E > 0 and not EP_FIXED[0]:
                sig = "eplusgg-second-gamma-direction-ignores-first-gamma"
            elif small_branch_neg_y(c.dir) and m != "eplusgg":
                sig = "rotate-small-sintheta-branch-drops-sign-of-y"
            bad.append(("momentum not conserved: |sum p_out - p_in| = %.3g of %.3g" % (res, mag), sig))
    return bad


def compare_all(ctx, exe, cases, impl, model):
    ndis = 0
    nviol = {}
    maxdraws = {}
    for c, a, b in zip(cases, impl, model):
        ctx.count("model:" + c.model)
        st = a["status"]
        ctx.count("%s:%s" % (c.model, ACTIONS[a["action"]] if st == "ok" else st))
        if st == "ok":
            maxdraws[c.model] = max(maxdraws.get(c.model, 0), a["draws"])
            if small_branch_neg_y(c.dir):
                ctx.count("dir:rotate-small-branch-neg-y")
            if any(s[0] < 0 for s in a["secs"]):
                ctx.count(c.model + ":secondary-cut")
        ctx.case((c.model, c.p, c.u[:6]), nontrivial=(st == "ok" and a["action"] in (0, 1)))
        ctx.sample({"case": c.replay(8), "impl": a, "model": b})
        # property oracle on the implementation
        for what, sig in oracle(c, a):
            key = (c.model, re.sub(r"[-+]?[0-9][-+0-9.e]*", "#", what.split(":")[0])[:48], sig)
            nviol[key] = nviol.get(key, 0) + 1
            if nviol[key] <= 2:
                ctx.violation("property", "%s: %s" % (c.model, what),
                              {"input": c.replay(a.get("draws")), "impl": a, "model": b}, signature=sig)
        if st == "exhausted":
            ctx.count("exhausted-stream-len-%d" % len(c.u))
        if st == "exhausted" and len(c.u) >= 200 and c.tag != "low-acceptance" and not (
                c.model in BREM and c.E < 1.05 * c.cut):
            key = (c.model, "exhausted", None)
            nviol[key] = nviol.get(key, 0) + 1
            if nviol[key] <= 2:
                ctx.violation("property", "%s: sampling did not finish within %d draws" % (c.model, len(c.u)),
                              {"input": c.replay(), "impl": a, "model": b})
        if st == "error":
            continue
        # correspondence
        if b is None:
            continue
        if b["status"] == "tierb":
            ctx.count("tierB-final-state-checked")
            if not close(a["dir"], b["dir"], 1e-9, 1e-9):
                ndis += 1
                if ndis <= 4:
                    ctx.violation("correspondence", "BremFinalStateHelper: exiting direction is not the normalised momentum "
                                  "difference of the model (%s)" % c.model,
                                  {"input": c.replay(a["draws"]), "impl": a, "model_direction": b["dir"]}, no_input=True)
            continue
        if agree(c, a, b):
            continue
        if knife_edge(ctx, exe, c, b):
            ctx.count("knife-edge-accepted")
            continue
        if a["status"] == "ok" and b["status"] == "ok" and nan_signature(c, a) is not None:
            # the implementation is at one of the known NaN-at-kinematic-limit points (sqrt argument within a few ulp
            # of 0; reported by the oracle under its signature): whether the model's own rounding lands on the NaN
            # side too is a coin flip; energies, action, draws must still agree
            fa = dict(a, dir=[0.0] * 3, secs=[(s_[0], s_[1], [0.0] * 3) for s_ in a["secs"]])
            fb = dict(b, dir=[0.0] * 3, secs=[(s_[0], s_[1], [0.0] * 3) for s_ in b["secs"]])
            if agree(c, fa, fb):
                ctx.count("knife-edge-nan-accepted")
                continue
        ndis += 1
        if ndis <= 4:
            ctx.violation("correspondence", "model and implementation differ for %s" % c.model,
                          {"input": c.replay(max(a.get("draws", 0), b.get("draws", 0), 8)), "impl": a, "model": b,
                           "theorem": "Properties_C04.v is about a model that no longer matches the code"},
                          no_input=True)
    for k, v in maxdraws.items():
        ctx.coverage.setdefault("max_draws", {})[k] = v
    ctx.coverage["disagreements"] = ndis
    ctx.coverage["oracle_violation_counts"] = {"%s|%s|%s" % k: v for k, v in nviol.items()}


def replay_witnesses(ctx, exe):
    """replay the witnesses of the *_refuted theorems on the real code"""
    # rotate((0,0,1), rot) must return rot; rot in the small-sintheta branch with y < 0
    rot = [0.0, -2000.0 / 1000001.0, 999999.0 / 1000001.0]
    rc, out = ctx.run_harness(exe, input="rotate 6 0 0 1 %s\n" % " ".join(float(x).hex() for x in rot))
    t = out.split()
    rc2, out2 = ctx.run_harness(exe, input="rotate 6 0 0 1 0 0 %s\n" % (1 - EPS).hex())
    t2 = out2.split()
    if rc2 == 0 and t2 and t2[0] == "ok":
        ctx.count("witness:rotate-z-aligned-replayed")
        if any(x in ("nan", "-nan") for x in t2[1:4]):
            ctx.violation("finding", "rotate(dir, rot=(0,0,1-2^-53)) is NaN: sin(theta) = 1.5e-8 > 0 but x = y = 0, "
                          "so cosphi = 0/0", {"dir": [0, 0, 1], "rot": [0, 0, 1 - EPS], "impl_result": t2[1:4]},
                          signature="rotate-nan-for-z-aligned-rot-with-rounded-unit-norm")
    if rc == 0 and t and t[0] == "ok":
        v = [float.fromhex(x) for x in t[1:4]]
        dotp = sum(x * y for x, y in zip(v, rot))
        ctx.count("witness:rotate-replayed")
        if abs(dotp - 1) > 1e-9:
            ctx.violation("finding", "rotate(dir=+z, rot) does not return rot when 0 < sin(theta_rot) < 0.005 and rot.y < 0: "
                          "the sign of rot.y is dropped (polar angle to rot not preserved)",
                          {"dir": [0, 0, 1], "rot": rot, "impl_result": v, "dot(result, rot)": dotp, "expected_dot": 1.0,
                           "theorem": "C04_rotate_preserves_polar_small_branch_refuted"},
                          signature="rotate-small-sintheta-branch-drops-sign-of-y")
