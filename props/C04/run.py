"""C04 -- discrete interactions: proofs (Properties_C04.v) + replay-RNG
differential of the float model against the real interactor templates +
property oracle (energy/momentum balance, validity, draws, atomic failure) on
the implementation's outputs for every model that can be instantiated."""
import math, os, sys
import vlib
from vlib import hexf, close

HERE = os.path.dirname(os.path.abspath(__file__))
sys.path.insert(0, HERE)
import c04lib as L  # noqa: E402
import c04acc as A  # noqa: E402
import bremlib  # noqa: E402
import chipslib  # noqa: E402
import relaxlib  # noqa: E402


def run(ctx):
    quick = ctx.tier == "quick"
    ctx.trusted += [
        "hand-written models coq/C04/*.v tied by replay-RNG differential (props/C04/run.py, harness/interactors.cc)",
        "float instance of Num (Base/NumF.v, Base/FloatFun.v): own exp/log/sin/cos/cbrt/acos; compared with libm under rtol 1e-9",
        "gap R vs binary64 rounding (DESIGN.md 3.1)",
        "repo test support (InteractorHostTestBase) used to fill particle/material/cutoff data for the harness",
    ]
    ctx.assumptions += [
        "uniform stream values are canonical: in [0,1) (C13 proves it for the double generator)",
        "incident direction is a unit vector; incident energy inside the model's applicability interval",
        "Tier-B models (SB/relativistic/combined/muon brems, Livermore PE, Coulomb): only the property oracle on the implementation, no Coq model of the energy/angle samplers",
    ]
    # translator: Rayleigh parameter table of the tree under test -> coq/C04/RayleighTable.v (C04_rayleigh_table_ok)
    A.regen_rayleigh_table(ctx)
    proofs_ok = ctx.coq_prove("Properties_C04.v")
    ok, log = ctx.coq_build(["C04/Run.vo"])
    if not ok:
        ctx.violation("model-broken", "the executable model no longer compiles",
                      getattr(ctx, "broken_proof", {"log": log[-2000:]}), no_input=True)
        return
    ctx.build_libs(["celeritas", "testcel_celeritas"])
    exe = ctx.compile_harness([os.path.join(HERE, "harness", "interactors.cc")], "interactors",
                              libs=L.LIBS, test_includes=True)
    L.load_element_data(ctx, exe)
    A.check_rayleigh_hypothesis(ctx)
    n = 0.6 if quick else 12.0
    cases = L.gen_cases(ctx, n)
    ctx.log("cases: %d" % len(cases))
    impl = L.run_impl(ctx, exe, cases)
    model = L.run_model(ctx, cases, impl)
    L.compare_all(ctx, exe, cases, impl, model)
    L.replay_witnesses(ctx, exe)
    A.replay_acceptance_witnesses(ctx, exe)
    okb, logb = ctx.coq_build(["C04/RunBrem.vo"])
    if okb:
        bremlib.run_brem_energy(ctx, exe, quick)
    else:
        ctx.violation("model-broken", "C04/RunBrem.v no longer compiles", {"log": logb[-2000:]}, no_input=True)
    relaxlib.run_relax(ctx, exe, quick)
    chipslib.run_chips(ctx, quick)
    if not proofs_ok:
        ctx.violation("proof-broken", "Properties_C04.v no longer checks", ctx.broken_proof, no_input=True)
    ctx.coverage["rule"] = (
        "cases = (model, incident energy, direction, allocator size/capacity, cut, variant, material, uniform stream) "
        "drawn from one PRNG seeded by VERIF_SEED; non-trivial = the implementation returned a sampled interaction "
        "(not exhausted/failed); distinct by (model, params, stream head)")
    ctx.coverage["traces_validated_against_impl"] = sum(1 for c in cases if c.modelled)
