"""C04 round 3b: AtomicRelaxationParams' allocation size (max_secondary) of the real object, built for the
two-material fixture (same element, per-material cuts), against the model C04/Relax.v (per-element minima of each
cut + MaxSecondariesCalculator recursion over the real EADL transition graph)."""
import vlib
from vlib import hexf
import c04lib as L

PRE = ("From Coq Require Import ZArith List Floats.\n"
       "From Celer Require Import Base.Num Base.NumF C04.RunRelax.\n"
       "Import ListNotations.\nOpen Scope float_scope.\n")


def gen(ctx, n):
    r = ctx.rng
    out = []
    grid = [1e-5, 1e-4, 2e-4, 3e-4, 1e-3, 3e-3, 5e-3, 1e-2]
    for _ in range(n):
        ce, cg, oe, og = (r.choice(grid) for _ in range(4))
        if r.random() < 0.3:
            oe = ce
        if r.random() < 0.3:
            og = cg
        mat = r.choice([0, 1])
        v = r.choice([1, 2, 2])
        p = [5e-3, 0.0, 0.0, 1.0, 0, 64, ce, v, mat, 0, cg, 1e-3, oe, og]
        out.append(L.Case("relaxinfo", p, [0.5], False, ""))
    return out


def run_relax(ctx, exe, quick):
    ok, log = ctx.coq_build(["C04/RunRelax.vo"])
    if not ok:
        ctx.violation("model-broken", "C04/RunRelax.v no longer compiles", {"log": log[-2000:]}, no_input=True)
        return
    cases = gen(ctx, 24 if quick else 200)
    rc, out = ctx.run_harness(exe, input="".join(c.line() for c in cases), timeout=600)
    lines = out.strip().splitlines()
    if rc != 0 or len(lines) != len(cases):
        raise vlib.BuildError("relaxinfo harness failed rc=%d (%d lines for %d cases)" % (rc, len(lines), len(cases)), out[-2000:])
    exprs, impl = [], []
    for c, l in zip(cases, lines):
        t = l.split()
        if t[0] != "ok":
            ctx.violation("harness", "relaxinfo error", {"line": l[:300]}, no_input=True)
            return
        ms, ns = int(t[1]), int(t[2])
        k = 3
        shells = []
        for _ in range(ns):
            nt = int(t[k]); k += 1
            trs = []
            for _ in range(nt):
                trs.append("(%s, %s, %s)" % ("(%d)%%Z" % int(t[k]), "(%d)%%Z" % int(t[k + 1]), hexf(float.fromhex(t[k + 2]))))
                k += 3
            shells.append("[" + "; ".join(trs) + "]")
        own_e, own_g, oe, og = c.p[6], c.p[10], c.p[12], c.p[13]
        # material order: index 0 first
        e_cuts = [own_e, oe] if c.mat == 0 else [oe, own_e]
        g_cuts = [own_g, og] if c.mat == 0 else [og, own_g]
        exprs.append("run_max_secondary [%s] %s %s" % ("; ".join(shells), L.fl(e_cuts), L.fl(g_cuts)))
        impl.append(ms)
    vals = ctx.coq_eval("relax", PRE, exprs, chunk=8, timeout=600)
    ndis = 0
    for c, ms, v in zip(cases, impl, vals):
        ctx.case(("relaxinfo", tuple(c.p[6:14])), nontrivial=True)
        ctx.count("model:relax-max-secondary")
        ctx.count("relax:max_secondary=%d" % ms)
        if v != ms:
            ndis += 1
            if ndis <= 3:
                ctx.violation("correspondence", "AtomicRelaxationParams: max_secondary = %d, the model (per-element minimum of "
                              "each cut over both materials + MaxSecondariesCalculator) gives %s: the allocation of "
                              "LivermorePEInteractor is not the one C04_relax_allocation_sufficient is about" % (ms, v),
                              {"auger": c.variant == 2, "interaction_material": c.mat,
                               "cuts_this_material[e-,gamma]": [c.p[6], c.p[10]],
                               "cuts_other_material[e-,gamma]": [c.p[12], c.p[13]], "impl_max_secondary": ms,
                               "model_max_secondary": v}, no_input=True)
    ctx.coverage["relax_max_secondary"] = {"cases": len(cases), "disagreements": ndis}
