// C04 correspondence/oracle harness: the real interactor templates of
// /repo/src/celeritas/em/interactor instantiated with verif::ReplayEngine.
//
// stdin, one case per line:
//   <model> <np> p0..  <ns> u0..
//   common params: p0 = incident kinetic energy [MeV], p1..p3 = incident
//   direction, p4 = allocator size before the call, p5 = allocator capacity,
//   p6 = electron production cut [MeV], p10 = gamma cut, p11 = positron cut (default: same as p6),
//   p7 = variant (particle / flags), p8 = material index, p9 = element
//   component index.
// stdout, one line per case:
//   ok <draws> <action> <E> <dx> <dy> <dz> <deposit> <alloc size> <nsec> {<pid> <E> <dx> <dy> <dz>}*
//   | exhausted | error <what>
// pid codes: -1 invalid, 0 e-, 1 e+, 2 gamma, 3 mu-, 4 mu+ (InteractorHostTestBase order)
#include "../../../harness/common.hh"
#include <map>
#include <tuple>

#include "corecel/cont/Span.hh"
#include "corecel/data/StackAllocator.hh"
#include "corecel/math/ArrayUtils.hh"
#include "celeritas/Quantities.hh"
#include "celeritas/mat/MaterialTrackView.hh"
#include "celeritas/mat/MaterialView.hh"
#include "celeritas/mat/ElementView.hh"
#include "celeritas/phys/CutoffView.hh"
#include "celeritas/phys/Interaction.hh"
#include "celeritas/phys/InteractionUtils.hh"
#include "celeritas/phys/PDGNumber.hh"
#include "celeritas/phys/ParticleTrackView.hh"
#include "celeritas/phys/InteractorHostTestBase.hh"

#include "celeritas/em/interactor/KleinNishinaInteractor.hh"
#include "celeritas/em/interactor/EPlusGGInteractor.hh"
#include "celeritas/em/interactor/MollerBhabhaInteractor.hh"
#include "celeritas/em/interactor/BetheHeitlerInteractor.hh"
#include "celeritas/em/interactor/MuHadIonizationInteractor.hh"
#include "celeritas/em/interactor/MuBremsstrahlungInteractor.hh"
#include "celeritas/em/interactor/RayleighInteractor.hh"
#include "celeritas/em/interactor/SeltzerBergerInteractor.hh"
#include "celeritas/em/interactor/detail/SBEnergySampler.hh"
#include "celeritas/em/interactor/detail/RBEnergySampler.hh"
#include "celeritas/em/interactor/detail/SBPositronXsCorrector.hh"
#include "celeritas/em/interactor/detail/PhysicsConstants.hh"
#include "celeritas/em/distribution/SBEnergyDistHelper.hh"
#include "celeritas/em/xs/RBDiffXsCalculator.hh"
#include "celeritas/random/distribution/ReciprocalDistribution.hh"
#include "celeritas/random/distribution/RejectionSampler.hh"
#include "celeritas/em/interactor/RelativisticBremInteractor.hh"
#include "celeritas/em/interactor/CombinedBremInteractor.hh"
#include "celeritas/em/interactor/LivermorePEInteractor.hh"
#include "celeritas/em/interactor/CoulombScatteringInteractor.hh"
#include "celeritas/em/distribution/BetheBlochEnergyDistribution.hh"
#include "celeritas/em/distribution/MuBBEnergyDistribution.hh"
#include "celeritas/em/distribution/BraggICRU73QOEnergyDistribution.hh"
#include "celeritas/em/model/RayleighModel.hh"
#include "celeritas/em/model/SeltzerBergerModel.hh"
#include "celeritas/em/model/RelativisticBremModel.hh"
#include "celeritas/em/model/CombinedBremModel.hh"
#include "celeritas/em/model/LivermorePEModel.hh"
#include "celeritas/em/model/CoulombScatteringModel.hh"
#include "celeritas/em/params/AtomicRelaxationParams.hh"
#include "celeritas/em/params/WentzelOKVIParams.hh"
#include "celeritas/em/xs/LivermorePEMicroXsCalculator.hh"
#include "celeritas/io/AtomicRelaxationReader.hh"
#include "celeritas/io/LivermorePEReader.hh"
#include "celeritas/io/SeltzerBergerReader.hh"
#include "celeritas/io/ImportProcess.hh"

using namespace celeritas;
using namespace celeritas::units;
using celeritas::test::InteractorHostTestBase;
using verif::hex;

namespace
{
//---------------------------------------------------------------------------//
struct Case
{
    std::string model;
    std::vector<double> p;
    std::vector<double> u;
    double energy() const { return p[0]; }
    Real3 dir() const { return {p[1], p[2], p[3]}; }
    int size() const { return int(p[4]); }
    int cap() const { return int(p[5]); }
    double cut() const { return p[6]; }   // electron production cut
    double cut_g() const { return p.size() > 10 ? p[10] : p[6]; }   // gamma cut
    double cut_p() const { return p.size() > 11 ? p[11] : p[6]; }   // positron cut
    int variant() const { return int(p[7]); }
    int mat() const { return p.size() > 8 ? int(p[8]) : 0; }
    int elcomp() const { return p.size() > 9 ? int(p[9]) : 0; }
};

enum class Mats
{
    general,
    cu,
    k,
    cu_iso,
    k2
};

class Fix : public InteractorHostTestBase
{
  public:
    void TestBody() override {}

    explicit Fix(Mats m) : mats_(m)
    {
        MaterialParams::Input mi;
        auto solid = MatterState::solid;
        switch (m)
        {
            case Mats::general:
                mi.elements = {{AtomicNumber{29}, AmuMass{63.546}, {}, Label{"Cu"}},
                               {AtomicNumber{19}, AmuMass{39.0983}, {}, Label{"K"}},
                               {AtomicNumber{8}, AmuMass{15.999}, {}, Label{"O"}},
                               {AtomicNumber{74}, AmuMass{183.84}, {}, Label{"W"}},
                               {AtomicNumber{82}, AmuMass{207.2}, {}, Label{"Pb"}},
                               {AtomicNumber{1}, AmuMass{1.008}, {}, Label{"H"}}};
                mi.materials = {
                    {native_value_from(MolCcDensity{0.141}), 293.0, solid, {{ElementId{0}, 1.0}}, Label{"Cu"}},
                    {native_value_from(MolCcDensity{0.05477}), 293.15, solid, {{ElementId{4}, 1.0}}, Label{"Pb"}},
                    {native_value_from(MolCcDensity{1e-5}), 293., solid, {{ElementId{1}, 1.0}}, Label{"K"}},
                    {native_value_from(MolCcDensity{1.0}), 293.0, solid,
                     {{ElementId{2}, 0.5}, {ElementId{3}, 0.3}, {ElementId{4}, 0.2}}, Label{"PbWO"}},
                    {native_value_from(MolCcDensity{0.1}), 293.0, solid,
                     {{ElementId{5}, 0.667}, {ElementId{2}, 0.333}}, Label{"H2O"}},
                };
                names_ = {"Cu", "Pb", "K", "PbWO", "H2O"};
                break;
            case Mats::cu:
                mi.elements = {{AtomicNumber{29}, AmuMass{63.546}, {}, Label{"Cu"}}};
                mi.materials = {
                    {native_value_from(MolCcDensity{0.141}), 293.0, solid, {{ElementId{0}, 1.0}}, Label{"Cu"}},
                    {native_value_from(MolCcDensity{1.0}), 293.0, solid, {{ElementId{0}, 1.0}}, Label{"Cu-1.0"}}};
                names_ = {"Cu", "Cu-1.0"};
                break;
            case Mats::k:
                mi.elements = {{AtomicNumber{19}, AmuMass{39.0983}, {}, Label{"K"}}};
                mi.materials = {
                    {native_value_from(MolCcDensity{1e-5}), 293., solid, {{ElementId{0}, 1.0}}, Label{"K"}}};
                names_ = {"K"};
                break;
            case Mats::k2:
                // the SAME element in two materials (per-material production cuts, see set_cut2)
                mi.elements = {{AtomicNumber{19}, AmuMass{39.0983}, {}, Label{"K"}}};
                mi.materials = {
                    {native_value_from(MolCcDensity{1e-5}), 293., solid, {{ElementId{0}, 1.0}}, Label{"K-a"}},
                    {native_value_from(MolCcDensity{2e-5}), 293., solid, {{ElementId{0}, 1.0}}, Label{"K-b"}}};
                names_ = {"K-a", "K-b"};
                break;
            case Mats::cu_iso:
                mi.isotopes = {{AtomicNumber{29}, AtomicNumber{63}, MevEnergy{551.384}, MevEnergy{6.122},
                                MevEnergy{10.864}, MevMass{58618.5}, Label{"63Cu"}},
                               {AtomicNumber{29}, AtomicNumber{65}, MevEnergy{569.211}, MevEnergy{7.454},
                                MevEnergy{9.911}, MevMass{60479.8}, Label{"65Cu"}}};
                mi.elements = {{AtomicNumber{29}, AmuMass{63.546},
                                {{IsotopeId{0}, 0.692}, {IsotopeId{1}, 0.308}}, Label{"Cu"}}};
                mi.materials = {
                    {native_value_from(MolCcDensity{0.141}), 293.0, solid, {{ElementId{0}, 1.0}}, Label{"Cu"}}};
                names_ = {"Cu"};
                break;
        }
        this->set_material_params(std::move(mi));
        auto const& pp = *this->particle_params();
        id_e = pp.find(pdg::electron());
        id_p = pp.find(pdg::positron());
        id_g = pp.find(pdg::gamma());
        id_mum = pp.find(pdg::mu_minus());
        id_mup = pp.find(pdg::mu_plus());
        emass = pp.get(id_e).mass();
    }

    //! (re)build cutoffs: per-particle energy cuts (e-, gamma, e+), same in all materials
    void set_cut(double cut, double cut_g, double cut_p)
    {
        if (this->have_cut_ && cut == cut_ && cut_g == cut_g_ && cut_p == cut_p_)
            return;
        CutoffParams::Input ci;
        ci.materials = this->material_params();
        ci.particles = this->particle_params();
        auto mc = [this](double e) {
            return CutoffParams::MaterialCutoffs(this->material_params()->size(),
                                                 ParticleCutoff{MevEnergy{e}, 0.1});
        };
        ci.cutoffs.insert({pdg::electron(), mc(cut)});
        ci.cutoffs.insert({pdg::positron(), mc(cut_p)});
        ci.cutoffs.insert({pdg::gamma(), mc(cut_g)});
        this->set_cutoff_params(ci);
        cut_ = cut;
        cut_g_ = cut_g;
        cut_p_ = cut_p;
        have_cut_ = true;
    }

    //! per-material cuts for the two-material fixture: material `mat` gets (cut, cut_g), the other (other_e, other_g)
    void set_cut2(int mat, double cut, double cut_g, double cut_p, double other_e, double other_g)
    {
        CutoffParams::Input ci;
        ci.materials = this->material_params();
        ci.particles = this->particle_params();
        auto mc = [mat](double own, double other) {
            CutoffParams::MaterialCutoffs v(2, ParticleCutoff{MevEnergy{other}, 0.1});
            v[mat] = ParticleCutoff{MevEnergy{own}, 0.1};
            return v;
        };
        ci.cutoffs.insert({pdg::electron(), mc(cut, other_e)});
        ci.cutoffs.insert({pdg::positron(), mc(cut_p, cut_p)});
        ci.cutoffs.insert({pdg::gamma(), mc(cut_g, other_g)});
        this->set_cutoff_params(ci);
        have_cut_ = false;
    }

    //! Prepare allocator (capacity, pre-existing size), particle, material
    void prepare(Case const& c, PDGNumber pdg)
    {
        this->resize_secondaries(c.cap() > 0 ? c.cap() : 1);
        if (c.cap() <= 0)
        {
            // capacity 0 is emulated by a full stack of capacity 1
            this->secondary_allocator()(1);
        }
        else if (c.size() > 0)
        {
            this->secondary_allocator()(c.size());
        }
        dir_ = c.dir();
        this->set_inc_particle(pdg, MevEnergy{c.energy()});
        this->set_material(names_.at(c.mat()));
        this->set_cut(c.cut(), c.cut_g(), c.cut_p());
    }
    CutoffView cutoff_view(Case const& c)
    {
        return CutoffView(this->cutoff_params()->host_ref(), MaterialId(c.mat()));
    }
    MaterialView material_view() { return this->material_track().make_material_view(); }

    Real3 dir_;
    ParticleId id_e, id_p, id_g, id_mum, id_mup;
    MevMass emass;
    std::vector<std::string> names_;
    Mats mats_;
    bool imported_processes_set_{false};

    // lazily built model data
    std::shared_ptr<RayleighModel> rayleigh_;
    std::shared_ptr<SeltzerBergerModel> sb_;
    std::shared_ptr<RelativisticBremModel> rb_, rb_lpm_;
    std::shared_ptr<CombinedBremModel> cb_;
    std::shared_ptr<LivermorePEModel> lpe_;
    std::map<std::tuple<int, double, double>, std::shared_ptr<AtomicRelaxationParams>> relax_;
    HostVal<AtomicRelaxStateData> relax_states_;
    HostRef<AtomicRelaxStateData> relax_states_ref_;
    std::shared_ptr<CoulombScatteringModel> coulomb_;
    std::shared_ptr<WentzelOKVIParams> wentzel_[3];

    void brems_processes()
    {
        ImportProcess ip_electron = this->make_import_process(
            pdg::electron(), pdg::gamma(), ImportProcessClass::e_brems,
            {ImportModelClass::e_brems_sb, ImportModelClass::e_brems_lpm});
        ImportProcess ip_positron = ip_electron;
        ip_positron.particle_pdg = pdg::positron().get();
        this->set_imported_processes({std::move(ip_electron), std::move(ip_positron)});
    }

  private:
    double cut_{-1}, cut_g_{-1}, cut_p_{-1};
    bool have_cut_{false};
};

Fix& fixture(Mats m)
{
    static std::unique_ptr<Fix> f[5];
    auto& p = f[int(m)];
    if (!p)
        p = std::make_unique<Fix>(m);
    return *p;
}

int pid_code(ParticleId id)
{
    return id ? int(id.get()) : -1;
}

void emit(Fix& f, Interaction const& r, verif::ReplayEngine const& rng, int pre_fill)
{
    std::cout << "ok " << rng.consumed() << " " << int(r.action) << " " << hex(r.energy.value());
    for (double x : r.direction)
        std::cout << " " << hex(x);
    // allocator size reported without the artificial fill used for capacity 0
    std::cout << " " << hex(r.energy_deposition.value()) << " "
              << int(f.secondary_allocator().get().size()) - pre_fill << " " << r.secondaries.size();
    for (Secondary const& s : r.secondaries)
    {
        std::cout << " " << pid_code(s.particle_id) << " " << hex(s.energy.value());
        for (double x : s.direction)
            std::cout << " " << hex(x);
    }
    std::cout << "\n";
}

//---------------------------------------------------------------------------//
Interaction run_case(Case const& c, verif::ReplayEngine& rng, Fix*& used)
{
    std::string const& m = c.model;
    if (m == "kn")
    {
        Fix& f = fixture(Mats::general);
        used = &f;
        f.prepare(c, pdg::gamma());
        KleinNishinaData d;
        d.ids.electron = f.id_e;
        d.ids.gamma = f.id_g;
        d.inv_electron_mass = 1 / f.emass.value();
        KleinNishinaInteractor interact(d, f.particle_track(), f.dir_, f.secondary_allocator());
        return interact(rng);
    }
    if (m == "eplusgg")
    {
        Fix& f = fixture(Mats::general);
        used = &f;
        f.prepare(c, pdg::positron());
        EPlusGGData d;
        d.positron = f.id_p;
        d.gamma = f.id_g;
        d.electron_mass = f.emass;
        EPlusGGInteractor interact(d, f.particle_track(), f.dir_, f.secondary_allocator());
        return interact(rng);
    }
    if (m == "mb")
    {
        Fix& f = fixture(Mats::general);
        used = &f;
        f.prepare(c, c.variant() == 0 ? pdg::electron() : pdg::positron());
        MollerBhabhaData d;
        d.ids.electron = f.id_e;
        d.ids.positron = f.id_p;
        d.electron_mass = f.emass;
        auto cv = f.cutoff_view(c);
        MollerBhabhaInteractor interact(d, f.particle_track(), cv, f.dir_, f.secondary_allocator());
        return interact(rng);
    }
    if (m == "bh")
    {
        Fix& f = fixture(Mats::general);
        used = &f;
        f.prepare(c, pdg::gamma());
        BetheHeitlerData d;
        d.ids.electron = f.id_e;
        d.ids.positron = f.id_p;
        d.ids.gamma = f.id_g;
        d.electron_mass = f.emass;
        d.enable_lpm = c.variant() != 0;
        auto mv = f.material_view();
        auto ev = mv.make_element_view(ElementComponentId(c.elcomp()));
        BetheHeitlerInteractor interact(d, f.particle_track(), f.dir_, f.secondary_allocator(), mv, ev);
        return interact(rng);
    }
    if (m == "muhad_bb" || m == "muhad_mubb" || m == "muhad_bragg")
    {
        Fix& f = fixture(Mats::general);
        used = &f;
        f.prepare(c, c.variant() == 0 ? pdg::mu_minus() : pdg::mu_plus());
        MuHadIonizationData d;
        d.electron = f.id_e;
        d.electron_mass = f.emass;
        auto cv = f.cutoff_view(c);
        if (m == "muhad_bb")
        {
            MuHadIonizationInteractor<BetheBlochEnergyDistribution> interact(
                d, f.particle_track(), cv, f.dir_, f.secondary_allocator());
            return interact(rng);
        }
        if (m == "muhad_mubb")
        {
            MuHadIonizationInteractor<MuBBEnergyDistribution> interact(
                d, f.particle_track(), cv, f.dir_, f.secondary_allocator());
            return interact(rng);
        }
        MuHadIonizationInteractor<BraggICRU73QOEnergyDistribution> interact(
            d, f.particle_track(), cv, f.dir_, f.secondary_allocator());
        return interact(rng);
    }
    if (m == "mubrems")
    {
        Fix& f = fixture(Mats::general);
        used = &f;
        f.prepare(c, c.variant() == 0 ? pdg::mu_minus() : pdg::mu_plus());
        MuBremsstrahlungData d;
        d.gamma = f.id_g;
        d.mu_minus = f.id_mum;
        d.mu_plus = f.id_mup;
        d.electron_mass = f.emass;
        auto cv = f.cutoff_view(c);
        auto mv = f.material_view();
        MuBremsstrahlungInteractor interact(
            d, f.particle_track(), f.dir_, cv, f.secondary_allocator(), mv, ElementComponentId(c.elcomp()));
        return interact(rng);
    }
    if (m == "rayleigh")
    {
        Fix& f = fixture(Mats::general);
        used = &f;
        f.prepare(c, pdg::gamma());
        if (!f.rayleigh_)
        {
            f.set_imported_processes({f.make_import_process(
                pdg::gamma(), {}, ImportProcessClass::rayleigh, {ImportModelClass::livermore_rayleigh})});
            f.rayleigh_ = std::make_shared<RayleighModel>(
                ActionId{0}, *f.particle_params(), *f.material_params(), f.imported_processes());
        }
        auto mv = f.material_view();
        ElementId el = mv.element_id(ElementComponentId(c.elcomp()));
        RayleighInteractor interact(f.rayleigh_->host_ref(), f.particle_track(), f.dir_, el);
        return interact(rng);
    }
    if (m == "sb" || m == "relbrem" || m == "combined")
    {
        Fix& f = fixture(Mats::cu);
        used = &f;
        f.prepare(c, c.variant() % 2 == 0 ? pdg::electron() : pdg::positron());
        if (!f.imported_processes_set_)
        {
            f.brems_processes();
            f.imported_processes_set_ = true;
        }
        auto cv = f.cutoff_view(c);
        auto mv = f.material_view();
        ElementComponentId ec(c.elcomp());
        std::string data_path = Fix::test_data_path("celeritas", "");
        if (m == "sb")
        {
            if (!f.sb_)
            {
                SeltzerBergerReader rd(data_path.c_str());
                f.sb_ = std::make_shared<SeltzerBergerModel>(
                    ActionId{0}, *f.particle_params(), *f.material_params(), f.imported_processes(), rd);
            }
            SeltzerBergerInteractor interact(
                f.sb_->host_ref(), f.particle_track(), f.dir_, cv, f.secondary_allocator(), mv, ec);
            return interact(rng);
        }
        if (m == "relbrem")
        {
            bool lpm = c.variant() >= 2;
            auto& mdl = lpm ? f.rb_lpm_ : f.rb_;
            if (!mdl)
            {
                mdl = std::make_shared<RelativisticBremModel>(
                    ActionId{0}, *f.particle_params(), *f.material_params(), f.imported_processes(), lpm);
            }
            RelativisticBremInteractor interact(
                mdl->host_ref(), f.particle_track(), f.dir_, cv, f.secondary_allocator(), mv, ec);
            return interact(rng);
        }
        if (!f.cb_)
        {
            SeltzerBergerReader rd(data_path.c_str());
            f.cb_ = std::make_shared<CombinedBremModel>(
                ActionId{0}, *f.particle_params(), *f.material_params(), f.imported_processes(), rd, true);
        }
        CombinedBremInteractor interact(
            f.cb_->host_ref(), f.particle_track(), f.dir_, cv, f.secondary_allocator(), mv, ec);
        return interact(rng);
    }
    if (m == "livermore")
    {
        // variant: 0 = no relaxation, 1 = fluorescence only, 2 = fluorescence + auger
        // p[12], p[13] present: two materials sharing the element, the OTHER material's (e-, gamma) cuts
        bool two_mats = c.p.size() > 13;
        Fix& f = fixture(two_mats ? Mats::k2 : Mats::k);
        used = &f;
        f.prepare(c, pdg::gamma());
        if (two_mats)
            f.set_cut2(c.mat(), c.cut(), c.cut_g(), c.cut_p(), c.p[12], c.p[13]);
        std::string data_path = Fix::test_data_path("celeritas", "");
        if (!f.lpe_)
        {
            LivermorePEReader rd(data_path.c_str());
            f.lpe_ = std::make_shared<LivermorePEModel>(
                ActionId{0}, *f.particle_params(), *f.material_params(), rd);
        }
        auto cv = f.cutoff_view(c);
        ElementId el{0};
        int v = c.variant();
        if (v == 0)
        {
            HostCRef<AtomicRelaxParamsData> norelax_params;
            HostRef<AtomicRelaxStateData> norelax_states;
            AtomicRelaxationHelper relaxation(norelax_params, norelax_states, el, TrackSlotId{0});
            LivermorePEInteractor interact(
                f.lpe_->host_ref(), relaxation, el, f.particle_track(), cv, f.dir_, f.secondary_allocator());
            return interact(rng);
        }
        std::shared_ptr<AtomicRelaxationParams> relax_uncached;
        auto& relax = two_mats ? relax_uncached : f.relax_[std::make_tuple(v, c.cut(), c.cut_g())];
        if (!relax)
        {
            AtomicRelaxationReader rd(data_path.c_str(), data_path.c_str());
            AtomicRelaxationParams::Input inp;
            inp.cutoffs = f.cutoff_params();
            inp.materials = f.material_params();
            inp.particles = f.particle_params();
            inp.load_data = rd;
            inp.is_auger_enabled = (v == 2);
            relax = std::make_shared<AtomicRelaxationParams>(std::move(inp));
        }
        auto const& rp = relax->host_ref();
        f.relax_states_ = {};
        resize(&f.relax_states_, rp, 1);
        f.relax_states_ref_ = f.relax_states_;
        AtomicRelaxationHelper relaxation(rp, f.relax_states_ref_, el, TrackSlotId{0});
        LivermorePEInteractor interact(
            f.lpe_->host_ref(), relaxation, el, f.particle_track(), cv, f.dir_, f.secondary_allocator());
        return interact(rng);
    }
    if (m == "coulomb")
    {
        // variant: particle (0 e-, 1 e+) + 2 * form factor type (0 none, 1 flat, 2 exponential, 3 gaussian)
        Fix& f = fixture(Mats::cu_iso);
        used = &f;
        f.prepare(c, c.variant() % 2 == 0 ? pdg::electron() : pdg::positron());
        if (!f.coulomb_)
        {
            ImportProcess ip_electron = f.make_import_process(
                pdg::electron(), {}, ImportProcessClass::coulomb_scat, {ImportModelClass::e_coulomb_scattering});
            ImportProcess ip_positron = ip_electron;
            ip_positron.particle_pdg = pdg::positron().get();
            f.set_imported_processes({std::move(ip_electron), std::move(ip_positron)});
            f.coulomb_ = std::make_shared<CoulombScatteringModel>(
                ActionId{0}, *f.particle_params(), *f.material_params(), f.imported_processes());
        }
        int ff = (c.variant() / 2) % 3;
        if (!f.wentzel_[ff])
        {
            WentzelOKVIParams::Options options;
            options.is_combined = false;
            options.polar_angle_limit = 0;
            options.form_factor = ff == 0   ? NuclearFormFactorType::exponential
                                  : ff == 1 ? NuclearFormFactorType::gaussian
                                            : NuclearFormFactorType::flat;
            f.wentzel_[ff] = std::make_shared<WentzelOKVIParams>(f.material_params(), options);
        }
        auto cv = f.cutoff_view(c);
        auto mv = f.material_view();
        IsotopeView iso = mv.make_element_view(ElementComponentId{0})
                              .make_isotope_view(IsotopeComponentId(c.elcomp()));
        CoulombScatteringInteractor interact(f.coulomb_->host_ref(),
                                             f.wentzel_[ff]->host_ref(),
                                             f.particle_track(),
                                             f.dir_,
                                             mv,
                                             iso,
                                             ElementId{0},
                                             cv);
        return interact(rng);
    }
    throw std::runtime_error("unknown model " + m);
}

//---------------------------------------------------------------------------//
// Photon-energy samplers of the bremsstrahlung models alone (detail::SBEnergySampler, detail::RBEnergySampler).
// The REAL sampler is run on the replayed stream; the cross-section oracle values of every iteration (and
// tmin, tmax, density correction, maximum) are logged by re-running the loop from the sampler's own public
// components (SBEnergyDistHelper / RBDiffXsCalculator) on a copy of the stream.
// output: ok <draws> <E_gamma> <draws of the logging loop> <tmin> <tmax> <dens_corr> <xs_max> <n> xs_1..xs_n
void run_brem_energy(Case const& c)
{
    Fix& f = fixture(Mats::cu);
    bool is_electron = c.variant() % 2 == 0;
    f.prepare(c, is_electron ? pdg::electron() : pdg::positron());
    if (!f.imported_processes_set_)
    {
        f.brems_processes();
        f.imported_processes_set_ = true;
    }
    auto cv = f.cutoff_view(c);
    auto mv = f.material_view();
    ElementComponentId ec(c.elcomp());
    auto const& particle = f.particle_track();
    double const inc_e = value_as<MevEnergy>(particle.energy());
    verif::ReplayEngine rng(c.u), rng2(c.u);
    std::vector<double> xs_log;
    double result = 0, tmin = 0, tmax = 0, dc = 0, xs_max = 0;
    if (c.model == "sbenergy")
    {
        if (!f.sb_)
        {
            std::string data_path = Fix::test_data_path("celeritas", "");
            SeltzerBergerReader rd(data_path.c_str());
            f.sb_ = std::make_shared<SeltzerBergerModel>(
                ActionId{0}, *f.particle_params(), *f.material_params(), f.imported_processes(), rd);
        }
        auto const& shared = f.sb_->host_ref();
        MevEnergy gamma_cutoff = cv.energy(shared.ids.gamma);
        detail::SBEnergySampler sample(shared.differential_xs, particle, gamma_cutoff, mv, ec, is_electron);
        result = sample(rng).value();
        // logging loop
        dc = mv.electron_density() * detail::migdal_constant() * ipow<2>(value_as<MevEnergy>(particle.total_energy()));
        SBEnergyDistHelper helper(shared.differential_xs, particle.energy(), mv.element_id(ec),
                                  SBEnergyDistHelper::EnergySq{dc}, gamma_cutoff);
        detail::SBPositronXsCorrector scale(particle.mass(), mv.make_element_view(ec), gamma_cutoff, particle.energy());
        tmin = gamma_cutoff.value();
        tmax = inc_e;
        xs_max = helper.max_xs().value();
        bool rej = true;
        while (rej)
        {
            MevEnergy e = helper.sample_exit_energy(rng2);
            double xs = helper.calc_xs(e).value() * (is_electron ? 1.0 : scale(e));
            xs_log.push_back(xs);
            rej = RejectionSampler<>(xs, xs_max)(rng2);
        }
    }
    else
    {
        bool lpm = c.variant() >= 2;
        auto& mdl = lpm ? f.rb_lpm_ : f.rb_;
        if (!mdl)
        {
            mdl = std::make_shared<RelativisticBremModel>(
                ActionId{0}, *f.particle_params(), *f.material_params(), f.imported_processes(), lpm);
        }
        auto const& shared = mdl->host_ref();
        detail::RBEnergySampler sample(shared, particle, cv, mv, ec);
        result = sample(rng).value();
        RBDiffXsCalculator calc(shared, particle, mv, ec);
        dc = calc.density_correction();
        xs_max = calc.maximum_value();
        tmin = std::min(cv.energy(shared.ids.gamma).value(), inc_e);
        tmax = std::min(value_as<MevEnergy>(detail::high_energy_limit()), inc_e);
        ReciprocalDistribution<real_type> sample_esq(tmin * tmin + dc, tmax * tmax + dc);
        bool rej = true;
        while (rej)
        {
            double e = std::sqrt(sample_esq(rng2) - dc);
            double xs = calc(MevEnergy{e});
            xs_log.push_back(xs);
            rej = RejectionSampler<>(xs, xs_max)(rng2);
        }
    }
    std::cout << "ok " << rng.consumed() << " " << hex(result) << " " << rng2.consumed() << " " << hex(tmin) << " "
              << hex(tmax) << " " << hex(dc) << " " << hex(xs_max) << " " << xs_log.size();
    for (double x : xs_log)
        std::cout << " " << hex(x);
    std::cout << "\n";
}

//---------------------------------------------------------------------------//
// AtomicRelaxationParams of the two-material fixture (same element K in both, per-material cuts as in the
// two-material Livermore cases): the pre-computed max_secondary and the transition graph it was computed from.
// output: ok <max_secondary> <nshells> { <ntransitions> { <initial_shell|-1> <auger_shell|-1> <energy> } }
void run_relax_info(Case const& c)
{
    Fix& f = fixture(Mats::k2);
    f.prepare(c, pdg::gamma());
    f.set_cut2(c.mat(), c.cut(), c.cut_g(), c.cut_p(), c.p[12], c.p[13]);
    std::string data_path = Fix::test_data_path("celeritas", "");
    AtomicRelaxationReader rd(data_path.c_str(), data_path.c_str());
    AtomicRelaxationParams::Input inp;
    inp.cutoffs = f.cutoff_params();
    inp.materials = f.material_params();
    inp.particles = f.particle_params();
    inp.load_data = rd;
    inp.is_auger_enabled = (c.variant() == 2);
    AtomicRelaxationParams relax(std::move(inp));
    auto const& rp = relax.host_ref();
    auto const& el = rp.elements[ElementId{0}];
    auto shells = rp.shells[el.shells];
    std::cout << "ok " << el.max_secondary << " " << shells.size();
    for (auto const& sh : shells)
    {
        auto trs = rp.transitions[sh.transitions];
        std::cout << " " << trs.size();
        for (auto const& t : trs)
        {
            std::cout << " " << (t.initial_shell ? int(t.initial_shell.get()) : -1) << " "
                      << (t.auger_shell ? int(t.auger_shell.get()) : -1) << " " << hex(t.energy.value());
        }
    }
    std::cout << "\n";
}
}  // namespace

int main()
{
    std::string line;
    while (std::getline(std::cin, line))
    {
        if (line.empty())
            continue;
        std::istringstream is(line);
        Case c;
        is >> c.model;
        if (c.model == "rotate")
        {
            // rotate(dir, rot) alone: p = dir, rot
            c.p = verif::rdvec(is);
            Real3 r = rotate(Real3{c.p[0], c.p[1], c.p[2]}, Real3{c.p[3], c.p[4], c.p[5]});
            std::cout << "ok " << hex(r[0]) << " " << hex(r[1]) << " " << hex(r[2]) << "\n";
            continue;
        }
        if (c.model == "elem" || c.model == "rayparams")
        {
            // element data of the general fixture: p = material index, element component
            c.p = verif::rdvec(is);
            Fix& f = fixture(Mats::general);
            Case cc = c;
            cc.p = {1.0, 0, 0, 1, 0, 4, 1e-3, 0, c.p[0], c.p[1]};
            f.prepare(cc, pdg::gamma());
            auto mv = f.material_view();
            auto ev = mv.make_element_view(ElementComponentId(int(c.p[1])));
            if (c.model == "elem")
            {
                std::cout << "ok " << ev.atomic_number().get() << " " << hex(ev.cbrt_z()) << " " << hex(ev.log_z())
                          << " " << hex(ev.coulomb_correction()) << "\n";
                continue;
            }
            verif::ReplayEngine dummy({0.5, 0.5, 0.5, 0.5, 0.5, 0.5, 0.5, 0.5});
            Fix* used = nullptr;
            cc.model = "rayleigh";
            try { run_case(cc, dummy, used); } catch (...) {}
            auto const& rp = f.rayleigh_->host_ref().params[mv.element_id(ElementComponentId(int(c.p[1])))];
            std::cout << "ok";
            for (auto const* arr : {&rp.a, &rp.b, &rp.n})
                for (double x : *arr)
                    std::cout << " " << hex(x);
            std::cout << " "
                      << hex(units::centimeter / (constants::c_light * constants::h_planck)
                             * native_value_from(MevEnergy{1.0}))
                      << "\n";
            continue;
        }
        c.p = verif::rdvec(is);
        c.u = verif::rdvec(is);
        if (c.model == "sbenergy" || c.model == "rbenergy" || c.model == "relaxinfo")
        {
            try
            {
                if (c.model == "relaxinfo")
                    run_relax_info(c);
                else
                    run_brem_energy(c);
            }
            catch (verif::StreamExhausted const&)
            {
                std::cout << "exhausted\n";
            }
            catch (std::exception const& e)
            {
                std::string w = e.what();
                for (auto& ch : w)
                    if (ch == '\n')
                        ch = ' ';
                std::cout << "error " << w.substr(0, 300) << "\n";
            }
            continue;
        }
        verif::ReplayEngine rng(c.u);
        Fix* used = nullptr;
        try
        {
            Interaction r = run_case(c, rng, used);
            emit(*used, r, rng, c.cap() <= 0 ? 1 : 0);
        }
        catch (verif::StreamExhausted const&)
        {
            std::cout << "exhausted\n";
        }
        catch (std::exception const& e)
        {
            std::string w = e.what();
            for (auto& ch : w)
                if (ch == '\n')
                    ch = ' ';
            std::cout << "error " << w.substr(0, 300) << "\n";
        }
    }
    return 0;
}
