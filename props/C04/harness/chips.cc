//---------------------------------------------------------------------------//
// C04 harness: the real ChipsNeutronElasticInteractor with a replay RNG engine.
// stdin: one case per line:  chips <np> E dx dy dz elcomp isocomp <nu> u...
// stdout: ok <draws> <action> <E_out> <dx dy dz> <deposit> <nsec> <neutron mass> <target nuclear mass>
//            <Q^2 the real MomentumTransferSampler returned on the same stream> <draws it consumed> <A>
//            <incident direction as used>
//---------------------------------------------------------------------------//
#include "../../../harness/common.hh"

#include "corecel/math/ArrayUtils.hh"
#include "celeritas/Quantities.hh"
#include "celeritas/io/NeutronXsReader.hh"
#include "celeritas/mat/IsotopeView.hh"
#include "celeritas/mat/MaterialTrackView.hh"
#include "celeritas/neutron/NeutronTestBase.hh"
#include "celeritas/neutron/interactor/ChipsNeutronElasticInteractor.hh"
#include "celeritas/neutron/interactor/detail/MomentumTransferSampler.hh"
#include "celeritas/neutron/model/ChipsNeutronElasticModel.hh"
#include "celeritas/phys/Interaction.hh"
#include "celeritas/phys/PDGNumber.hh"

using namespace celeritas;
using namespace celeritas::units;
using verif::hex;

namespace
{
class Fix : public celeritas::test::NeutronTestBase
{
  public:
    void TestBody() override {}
    Fix()
    {
        std::string data_path = this->test_data_path("celeritas", "");
        NeutronXsReader read_el_data(NeutronXsType::el, data_path.c_str());
        this->set_inc_particle(pdg::neutron(), MevEnergy{100});
        this->set_inc_direction({0, 0, 1});
        this->set_material("HeCu");
        model_ = std::make_shared<ChipsNeutronElasticModel>(
            ActionId{0}, *this->particle_params(), *this->material_params(), read_el_data);
    }
    std::shared_ptr<ChipsNeutronElasticModel const> model_;
};
}  // namespace

int main()
{
    Fix f;
    std::string line;
    while (std::getline(std::cin, line))
    {
        if (line.empty())
            continue;
        std::istringstream is(line);
        std::string model;
        is >> model;
        std::vector<double> p = verif::rdvec(is);
        std::vector<double> u = verif::rdvec(is);
        try
        {
            f.set_inc_particle(pdg::neutron(), MevEnergy{p[0]});
            Real3 dir{p[1], p[2], p[3]};
            f.set_inc_direction(dir);
            NeutronElasticRef const& shared = f.model_->host_ref();
            IsotopeView iso = f.material_track()
                                  .make_material_view()
                                  .make_element_view(ElementComponentId(int(p[4])))
                                  .make_isotope_view(IsotopeComponentId(int(p[5])));
            verif::ReplayEngine rng(u), rng2(u);
            ChipsNeutronElasticInteractor interact(shared, f.particle_track(), f.direction(), iso);
            Interaction r = interact(rng);
            detail::MomentumTransferSampler sample_q2(shared, iso, f.particle_track().momentum());
            double q2 = sample_q2(rng2);
            std::cout << "ok " << rng.consumed() << " " << int(r.action) << " " << hex(r.energy.value());
            for (double x : r.direction)
                std::cout << " " << hex(x);
            std::cout << " " << hex(r.energy_deposition.value()) << " " << r.secondaries.size() << " "
                      << hex(value_as<MevMass>(shared.neutron_mass)) << " " << hex(value_as<MevMass>(iso.nuclear_mass()))
                      << " " << hex(q2) << " " << rng2.consumed() << " " << iso.atomic_mass_number().get();
            // the direction the fixture actually hands to the interactor (NeutronTestBase may renormalise it)
            for (double x : f.direction())
                std::cout << " " << hex(x);
            std::cout << "\n";
        }
        catch (verif::StreamExhausted const&)
        {
            std::cout << "exhausted\n";
        }
        catch (std::exception const& e)
        {
            std::string w = e.what();
            for (auto& ch : w)
                if (ch == '\n')
                    ch = ' ';
            std::cout << "error " << w.substr(0, 300) << "\n";
        }
    }
    return 0;
}
