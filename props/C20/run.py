"""C20 -- generated optical photons are physically valid.

Proofs (coq/Properties_C20.v, instance R) + replay-RNG differential of the
float model (coq/C20/Optical.v) against the real CerenkovGenerator /
CerenkovDndxCalculator / CerenkovOffload / ScintillationGenerator /
ScintillationOffload / rotate(), + per-photon relational oracle on the
implementation's output."""
import bisect, math, os
import vlib
from vlib import hexf, close

HERE = os.path.dirname(os.path.abspath(__file__))
EPS = 2.0 ** -53
MIN_ACC = 0.005
ME = 0.5109989461
SIG_F10 = "rotate-small-sintheta-drops-sign-of-y"
SIG_F8 = "scint-nonpositive-wavelength"
SIG_NAN = "rotate-nan-for-z-aligned-rot-one-ulp-below-unit"

PRE0 = ("From Coq Require Import ZArith List Floats.\n"
        "From Celer Require Import Base.Num Base.NumF Base.Vec3 C20.Optical C20.Run.\n"
        "Import ListNotations.\nOpen Scope float_scope.\n")


# --------------------------------------------------------------------------
# formatting helpers
def fl(xs):
    return "[" + "; ".join(hexf(x) for x in xs) + "]"


def v3(v):
    return "(V3 %s %s %s)" % tuple(hexf(x) for x in v)


def hx(xs):
    return " ".join(float(x).hex() for x in xs)


def vec(xs):
    return "%d %s" % (len(xs), hx(xs))


def dist_expr(d):
    return "(mkdist %s %s %s %s %s %s %s)" % (hexf(d["t0"]), hexf(d["len"]), hexf(d["q"]), hexf(d["v0"]),
                                             v3(d["p0"]), hexf(d["v1"]), v3(d["p1"]))


def dist_line(d):
    return "%s %s" % (hx([d["t0"], d["len"], d["q"], d["v0"]] + d["p0"] + [d["v1"]] + d["p1"]), "")


# --------------------------------------------------------------------------
# generators
def logu(r, lo, hi):
    return 10 ** r.uniform(lo, hi)


def gen_u(r, n, extremes=True, nonzero=False):
    out = []
    for _ in range(n):
        if extremes and r.random() < 0.05:
            x = r.choice([0.0, 1 - EPS, EPS, 0.5, 2.0 ** -30, 1 - 2.0 ** -20, 0.25, 0.75])
        else:
            x = r.random()
        if nonzero and x <= 0:
            x = 2.0 ** -60
        out.append(x)
    return out


def gen_material(r, valid=True):
    """refractive-index table: photon energies [MeV] in the eV range, n in 1..2.5"""
    n = r.choice([2, 2, 3, 4, 6, 9])
    e0 = logu(r, -6.3, -5.5)
    es = [e0]
    for _ in range(n - 1):
        es.append(es[-1] * (1 + r.choice([logu(r, -3, 0), r.uniform(0.05, 0.6)])))
    n0 = r.choice([1.0, 1.0003, 1.33, r.uniform(1.0, 2.0)])
    ns = [n0]
    for _ in range(n - 1):
        ns.append(ns[-1] + r.choice([logu(r, -6, -1), r.uniform(0.001, 0.2)]))
    if not valid:
        k = r.randrange(1, n)
        c = r.random()
        if c < 0.4:
            ns[k] = ns[k - 1]                   # flat: not strictly increasing
        elif c < 0.8:
            ns[k] = ns[k - 1] - r.uniform(0.001, 0.1)   # non-monotone
        else:
            es[k] = es[k - 1]                   # degenerate energy grid
    return es, ns


def py_material_ok(es, ns):
    return (len(es) >= 2 and all(a < b for a, b in zip(es, es[1:])) and all(a < b for a, b in zip(ns, ns[1:])))


def n_of(es, ns, e):
    """independent linear interpolation of the refractive index (oracle side)"""
    if e <= es[0]:
        return ns[0]
    if e >= es[-1]:
        return ns[-1]
    i = bisect.bisect_right(es, e) - 1
    w = (e - es[i]) / (es[i + 1] - es[i])
    return ns[i] + w * (ns[i + 1] - ns[i])


def unit(v):
    n = math.sqrt(sum(x * x for x in v))
    return [x / n for x in v]


def gen_dir(r):
    """step directions: general, axes, exactly +-z, near +-z on both sides of the
    0.005 switch and with both signs of y"""
    c = r.random()
    if c < 0.30:
        return unit([r.gauss(0, 1) for _ in range(3)])
    if c < 0.40:
        return r.choice([[0, 0, 1.0], [0, 0, -1.0], [1.0, 0, 0], [0, -1.0, 0], [0, 1.0, 0],
                         [0, 0, 1.0 - EPS], [0, 0, -(1.0 - EPS)]])
    sgn = r.choice([1.0, -1.0])
    st = r.choice([logu(r, -9, -2.4), r.uniform(0.0005, 0.00499), MIN_ACC * (1 + r.choice([-1, 1]) * logu(r, -8, -2)),
                   r.uniform(0.005, 0.05)])
    phi = r.choice([r.uniform(0, 2 * math.pi), -math.pi / 2, math.pi / 2, math.pi, 0.0, r.uniform(math.pi, 2 * math.pi)])
    return [st * math.cos(phi), st * math.sin(phi), sgn * math.sqrt(1 - st * st)]


def beta_to_energy(beta):
    g = 1 / math.sqrt(1 - beta * beta)
    return ME * (g - 1)


def gen_speeds(r, ns, above=True):
    """pre/post speeds placed around the Cerenkov threshold 1/n_max"""
    thr = 1 / ns[-1]
    top = 1 / ns[0]
    if above:
        mean = r.choice([thr * (1 + logu(r, -5, -1)), r.uniform(thr, min(0.99999, max(top, thr * 1.01))), r.uniform(thr, 0.99999)])
        mean = min(mean, 0.999995)
        mean = max(mean, thr * (1 + 1e-6))
        half = r.choice([0.0, logu(r, -6, -1)]) * mean
        half = min(half, 0.999999 - mean, mean * 0.5)
        v0, v1 = mean + half, mean - half
        # keep the mean strictly above threshold after rounding
        if 2 / (v0 + v1) >= ns[-1] * (1 - 1e-9):
            v0 = v0 + 2e-6 * mean
        return v0, v1
    mean = r.choice([thr * (1 - logu(r, -9, -1)), r.uniform(0.05, thr)])
    half = r.choice([0.0, logu(r, -6, -1)]) * mean
    half = min(half, mean * 0.5, (thr - mean) * 0.999)
    return mean + half, mean - half


def gen_dist(r, v0, v1, q=None):
    p0 = [r.choice([0.0, r.uniform(-100, 100)]) for _ in range(3)]
    d = gen_dir(r)
    L = logu(r, -4, 1)
    p1 = [a + L * b for a, b in zip(p0, d)]
    dl = math.sqrt(sum((b - a) ** 2 for a, b in zip(p0, p1)))
    return {"t0": r.choice([0.0, logu(r, -12, -6)]), "len": dl * r.choice([1.0, 1.0, 1 + logu(r, -3, -0.5)]),
            "q": q if q is not None else r.choice([-1.0, 1.0]), "v0": v0, "p0": p0, "v1": v1, "p1": p1}


def gen_scint(r, wide=False):
    m = r.choice([1, 1, 2, 3])
    comps = []
    for _ in range(m):
        mean = r.uniform(80e-7, 700e-7)          # 80..700 nm in cm
        sigma = mean * (r.uniform(0.2, 0.45) if wide else r.choice([logu(r, -3, -1.3), 0.05]))
        rise = r.choice([0.0, 0.0, logu(r, -10, -7)])
        fall = logu(r, -9, -5)
        comps.append([r.choice([1.0, r.uniform(0.05, 1.0)]), mean, sigma, rise, fall])
    return comps


# --------------------------------------------------------------------------
# property oracle on the implementation's photons
def rot_tol(st, axis=(0.0, 0.0, 1.0)):
    """accuracy of rotate() as a rotation about `rot` (documented in NOTES.md):
    typical branch: (x^2+y^2)/sin^2 - 1 ~ eps/sin^2; middle branch: sin(theta) = sqrt(1 - z^2)
    has relative error eps/sin^2 and sinphi = sqrt(1 - cosphi^2) absolute error sqrt(eps)"""
    if st >= MIN_ACC:
        return 1e-12 + 8e-16 / (st * st)
    if st > 0:
        return 1e-12 + 1e-15 / st + 1e-7 * st
    # |z| rounds to 1 (here; in the code it may be 1 - 2^-53, i.e. sin(theta) = 1.5e-8): rot is treated as
    # the z axis itself (or tilted by that rounding residue), off by its (x, y) <~ 1.5e-8
    return 1e-12 + 2 * math.hypot(axis[0], axis[1]) + 3e-8


def dot(a, b):
    return sum(x * y for x, y in zip(a, b))


def photon_oracle(kind, ph, d, mat=None):
    """returns (message, signature) or None.  ph = [E, pos(3), dir(3), pol(3), t]"""
    e, pos, dr, pol, t = ph[0], ph[1:4], ph[4:7], ph[7:10], ph[10]
    delta = [b - a for a, b in zip(d["p0"], d["p1"])]
    if not all(math.isfinite(x) for x in ph):
        if kind == "scint" and not math.isfinite(e):
            return "photon energy not finite (%r)" % e, SIG_F8
        if kind == "ckv" and delta[0] == 0 and delta[1] == 0 and all(math.isfinite(x) for x in [e, t] + pos):
            return "Cerenkov photon direction/polarisation is NaN for a step exactly along z: %r" % (dr,), SIG_NAN
        return "non-finite photon field %r" % (ph,), None
    if not e > 0:
        return "photon energy %r is not positive" % e, (SIG_F8 if kind == "scint" else None)
    dl2 = dot(delta, delta)
    sdir = [x / math.sqrt(dl2) for x in delta]
    st = math.sqrt(max(0.0, 1 - sdir[2] ** 2))
    if kind == "ckv":
        rtol_rot = rot_tol(st, sdir)
    else:   # scintillation: sqrt(1 - (1 - cos^2)) loses eps/|cos| of the direction's polar cosine
        rtol_rot = 1e-12 + 4e-16 / max(abs(dr[2]), 1e-8)
    if abs(math.sqrt(dot(dr, dr)) - 1) > 1e-12:
        return "direction is not a unit vector (|d| - 1 = %g)" % (math.sqrt(dot(dr, dr)) - 1), None
    if abs(math.sqrt(dot(pol, pol)) - 1) > 1e-12:
        return "polarisation is not a unit vector", None
    if abs(dot(pol, dr)) > rtol_rot:
        return "polarisation not perpendicular to direction (pol.dir = %g)" % dot(pol, dr), None
    scale = max(1.0, max(abs(x) for x in d["p0"] + d["p1"]))
    rel = [a - b for a, b in zip(pos, d["p0"])]
    u = dot(rel, delta) / dl2
    res = max(abs(a - u * b) for a, b in zip(rel, delta))
    if not (-1e-12 <= u <= 1 + 1e-12) or res > 1e-12 * scale:
        return "position not on the step segment (u = %r, residual %g)" % (u, res), None
    if not t >= d["t0"]:
        return "time %r earlier than the pre-step time %r" % (t, d["t0"]), None
    if kind == "ckv":
        es, ns = mat
        if not (es[0] * (1 - 1e-12) <= e <= es[-1] * (1 + 1e-12)):
            return "Cerenkov photon energy %r outside the refractive-index grid [%r, %r]" % (e, es[0], es[-1]), None
        cone = (2 / (d["v0"] + d["v1"])) / n_of(es, ns, e)
        got = dot(dr, sdir)
        if abs(got - cone) > rtol_rot:
            sig = SIG_F10 if (0 < st < MIN_ACC and sdir[1] < 0) else None
            return ("Cerenkov photon off the cone: dir.step_dir = %r, 1/(n beta) = %r (diff %g)" % (got, cone, got - cone)), sig
    return None


def rotate_oracle(d, rot, out):
    if not all(math.isfinite(x) for x in out):
        sig = SIG_NAN if (rot[0] == 0 and rot[1] == 0 and abs(rot[2]) < 1) else None
        return "rotate returned a non-finite vector %r for rot = %r" % (out, rot), sig
    if abs(math.sqrt(dot(out, out)) - 1) > 1e-12:
        return "rotate result is not a unit vector", None
    st = math.sqrt(max(0.0, 1 - rot[2] ** 2))
    tol = rot_tol(st, rot)
    if abs(dot(out, rot) - d[2]) > tol:
        sig = SIG_F10 if (0 < st < MIN_ACC and rot[1] < 0) else None
        return "rotate does not keep the polar angle: result.rot = %r, dir_z = %r" % (dot(out, rot), d[2]), sig
    return None


# --------------------------------------------------------------------------
def build_cases(ctx, n):
    r = ctx.rng
    cases = []
    # ---- corpus: witnesses of the candidate findings, replayed first
    t = 1e-3
    f10rot = [0.0, -2 * t / (1 + t * t), (1 - t * t) / (1 + t * t)]
    cases.append({"k": "rotate", "d": [1.0, 0.0, 0.0], "rot": f10rot, "corpus": "F10"})
    es, ns = [2e-6, 4e-6, 8e-6], [1.3, 1.4, 1.5]
    d = {"t0": 0.0, "len": 1.0, "q": -1.0, "v0": 0.95, "p0": [0.0, 0.0, 0.0], "v1": 0.9, "p1": f10rot[:]}
    cases.append({"k": "ckvgen", "es": es, "ns": ns, "d": d, "n": 3, "u": [0.5, 0.3, 0.0, 0.4, 0.2] * 12, "corpus": "F10"})
    comps = [[1.0, 1e-5, 0.25e-5, 0.0, 1e-9]]
    d8 = {"t0": 0.0, "len": 1.0, "q": -1.0, "v0": 0.875, "p0": [0.0, 0.0, 0.0], "v1": 0.8125, "p1": [0.0, 0.0, 1.0]}
    cases.append({"k": "scgen", "comps": comps, "d": d8, "n": 1, "u": [0.5, 0.75, 1e-5, 0.5, 0.25, 0.5, 0.5, 0.5], "corpus": "F8"})
    kinds = ["rotate", "dndx", "ckvgen", "ckvgen", "ckvoff", "scgen", "scgen", "scoff", "matbad", "ckvchain", "scchain"]
    for i in range(n):
        k = kinds[i % len(kinds)]
        if k == "rotate":
            c = r.uniform(-1, 1)
            ph = r.uniform(0, 2 * math.pi)
            s = math.sqrt(1 - c * c)
            cases.append({"k": k, "d": [s * math.cos(ph), s * math.sin(ph), c], "rot": gen_dir(r)})
        elif k == "dndx":
            es, ns = gen_material(r)
            thr, top = 1 / ns[-1], 1 / ns[0]
            b = r.choice([thr, thr * (1 + EPS * 4), thr * (1 - EPS * 4), thr * (1 + logu(r, -8, -1)),
                          min(1.0, top), r.uniform(thr, min(1.0, max(top, thr))), r.uniform(0.05, 1.0), 1.0,
                          1 / r.choice(ns), min(1.0, top * (1 + logu(r, -6, -1))), min(1.0, top * (1 + logu(r, -6, -1)))])
            cases.append({"k": k, "es": es, "ns": ns, "q": r.choice([-1.0, 1.0, 2.0]), "beta": min(b, 1.0)})
        elif k == "ckvgen":
            es, ns = gen_material(r)
            if 1 / ns[-1] >= 0.9999:
                ns = [x + 0.3 for x in ns]
            v0, v1 = gen_speeds(r, ns, above=True)
            if r.random() < 0.5:
                v0, v1 = v1, v0
            nph = r.choice([1, 2, 3, 5])
            cases.append({"k": k, "es": es, "ns": ns, "d": gen_dist(r, v0, v1), "n": nph,
                          "u": gen_u(r, 40 * nph)})
        elif k in ("ckvoff", "ckvchain"):
            es, ns = gen_material(r)
            if 1 / ns[-1] >= 0.9999:
                ns = [x + 0.3 for x in ns]
            v0, v1 = gen_speeds(r, ns, above=r.random() < 0.6)
            lam_hint = r.choice([logu(r, -4, 1), logu(r, -2, 3)])
            if k == "ckvchain":      # photons wanted: above threshold, a few to a few hundred expected
                v0, v1 = gen_speeds(r, ns, above=True)
                lam_hint = logu(r, -0.5, 2)
            c_ = {"k": k, "es": es, "ns": ns, "pdg": r.choice([11, -11]), "epost": beta_to_energy(v1),
                  "len": lam_hint, "v0": v0, "p0": [r.uniform(-50, 50) for _ in range(3)], "t0": logu(r, -12, -8),
                  "u": gen_u(r, 120, extremes=False, nonzero=True)}
            dl = gen_dir(r) if k == "ckvchain" else unit([r.gauss(0, 1) for _ in range(3)])
            c_["p1"] = [a + lam_hint * b for a, b in zip(c_["p0"], dl)]
            if k == "ckvchain":
                c_["maxn"] = r.choice([1, 2, 3])
                c_["u"] = gen_u(r, 140 + 40 * c_["maxn"], extremes=False, nonzero=True)
            cases.append(c_)
        elif k == "scgen":
            comps = gen_scint(r, wide=(r.random() < 0.12))
            v0 = r.uniform(0.05, 0.9999)
            v1 = max(1e-3, v0 * r.uniform(0.3, 1.0))
            nph = r.choice([1, 2, 3, 5])
            u = gen_u(r, 30 * nph, nonzero=True)
            if r.random() < 0.15:        # extreme normal draw (low tail of the wavelength)
                u[1], u[2] = r.choice([0.75, r.uniform(0.7, 0.8)]), logu(r, -14, -4)
            cases.append({"k": k, "comps": comps, "d": gen_dist(r, v0, v1, q=r.choice([0.0, -1.0, 1.0])), "n": nph, "u": u})
        elif k in ("scoff", "scchain"):
            yld = logu(r, -1, 4)
            mean = r.choice([10.0, 10.0 * (1 + 4 * EPS), 10.0 * (1 - 4 * EPS), logu(r, -3, 1), logu(r, 1, 5), r.uniform(5, 30), 0.0])
            if k == "scchain":
                mean = r.choice([logu(r, 0, 1), logu(r, 1, 4), r.uniform(5, 30)])
            c_ = {"k": k, "res": r.choice([1.0, 0.0, r.uniform(0.1, 3)]) if k == "scoff" else r.choice([1.0, r.uniform(0.1, 3)]),
                  "yield": yld, "edep": mean / yld,
                  "comps": gen_scint(r), "pdg": r.choice([11, -11]), "epost": logu(r, -2, 2), "len": logu(r, -3, 1),
                  "v0": r.uniform(0.1, 0.9999), "p0": [r.uniform(-50, 50) for _ in range(3)], "t0": logu(r, -12, -8),
                  "p1": [r.uniform(-50, 50) for _ in range(3)], "u": gen_u(r, 120, extremes=False, nonzero=True)}
            if k == "scchain":
                c_["maxn"] = r.choice([1, 2, 3])
                c_["u"] = gen_u(r, 140 + 30 * c_["maxn"], extremes=False, nonzero=True)
            cases.append(c_)
        elif k == "matbad":
            es, ns = gen_material(r, valid=False)
            cases.append({"k": "dndx", "es": es, "ns": ns, "q": -1.0, "beta": 0.9, "bad": True})
    return cases


def bulk_cases(ctx, n, nph):
    """oracle-only volume: many photons per generator on the implementation"""
    r = ctx.rng
    out = []
    for i in range(n):
        if i % 2 == 0:
            es, ns = gen_material(r)
            if 1 / ns[-1] >= 0.9999:
                ns = [x + 0.3 for x in ns]
            v0, v1 = gen_speeds(r, ns, above=True)
            out.append({"k": "ckvgen", "es": es, "ns": ns, "d": gen_dist(r, v0, v1), "n": nph,
                        "u": [r.random() for _ in range(30 * nph)], "bulk": True})
        else:
            v0 = r.uniform(0.05, 0.9999)
            out.append({"k": "scgen", "comps": gen_scint(r), "d": gen_dist(r, v0, v0 * r.uniform(0.3, 1.0), q=r.choice([0.0, -1.0])),
                        "n": nph, "u": [max(r.random(), 2.0 ** -60) for _ in range(14 * nph)], "bulk": True})
    return out


def case_line(c):
    k = c["k"]
    if k == "rotate":
        return "rotate %s %s" % (hx(c["d"]), hx(c["rot"]))
    if k == "dndx":
        return "dndx %s %s %s" % (vec(c["es"]), vec(c["ns"]), hx([c["q"], c["beta"]]))
    if k == "ckvgen":
        return "ckvgen %s %s %s %d %s" % (vec(c["es"]), vec(c["ns"]), dist_line(c["d"]), c["n"], vec(c["u"]))
    if k in ("ckvoff", "ckvchain"):
        return "%s %s %s %d %s %s%s" % (k, vec(c["es"]), vec(c["ns"]), c["pdg"],
                                       hx([c["epost"], c["len"], c["v0"]] + c["p0"] + [c["t0"]] + c["p1"]),
                                       "%d " % c["maxn"] if k == "ckvchain" else "", vec(c["u"]))
    flat = [x for comp in c["comps"] for x in comp]
    if k == "scgen":
        return "scgen %s %s %s %d %s" % (hx([1.0, 5.0]), vec(flat), dist_line(c["d"]), c["n"], vec(c["u"]))
    if k in ("scoff", "scchain"):
        return "%s %s %s %d %s %s%s" % (k, hx([c["res"], c["yield"]]), vec(flat), c["pdg"],
                                      hx([c["epost"], c["len"], c["edep"], c["v0"]] + c["p0"] + [c["t0"]] + c["p1"]),
                                      "%d " % c["maxn"] if k == "scchain" else "", vec(c["u"]))
    raise ValueError(k)


def parse_impl(c, line):
    tok = line.split()
    f = lambda s: float.fromhex(s) if s not in ("nan", "inf", "-inf") else float(s)
    if tok[0] == "rejected":
        return {"rejected": True}
    if tok[0] == "exhausted":
        return {"exhausted": True, "v1": f(tok[1])}
    if tok[0] != "ok":
        raise vlib.BuildError("harness: unexpected output", line[:300])
    k = c["k"]
    if k == "rotate":
        return {"v": [f(x) for x in tok[1:4]]}
    if k == "dndx":
        return {"v": f(tok[1])}
    if k in ("ckvgen", "scgen"):
        n = int(tok[2])
        ph = []
        for i in range(n):
            b = 3 + 12 * i
            ph.append(([f(x) for x in tok[b + 1:b + 12]], int(tok[b])))
        return {"exh": int(tok[1]), "photons": ph}
    # offload (and chains: "... | exh n photons")
    if "|" in tok:
        b = tok.index("|")
        rest = tok[b + 1:]
        n = int(rest[1])
        ph = [([f(x) for x in rest[2 + 12 * i + 1:2 + 12 * i + 12]], int(rest[2 + 12 * i])) for i in range(n)]
        return {"consumed": int(tok[1]), "num": int(tok[2]), "valid": int(tok[3]), "fields": [f(x) for x in tok[4:b]],
                "exh": int(rest[0]), "photons": ph}
    return {"consumed": int(tok[1]), "num": int(tok[2]), "valid": int(tok[3]), "fields": [f(x) for x in tok[4:]]}


def chain_dist(c, impl):
    """the step data handed to the offload (ORIGINAL pre/post positions); post speed = ParticleTrackView::speed"""
    v1 = impl["v1"] if "v1" in impl else (impl["fields"][7] if impl.get("num", 0) > 0 else c["v1_py"])
    return {"t0": c["t0"], "len": c["len"], "q": -1.0 if c["pdg"] == 11 else 1.0, "v0": c["v0"], "p0": c["p0"], "v1": v1, "p1": c["p1"]}


def offload_fields_ok(c, impl):
    """GeneratorDistributionData field by field against the step data (the model of the offload's output is the
    record built from its inputs): time, step_length, charge, pre speed/pos, post speed/pos, material"""
    f = impl["fields"]
    exp = [c["t0"], c["len"], -1.0 if c["pdg"] == 11 else 1.0, c["v0"]] + c["p0"] + [f[7]] + c["p1"] + [0.0]
    names = ["time", "step_length", "charge", "pre.speed", "pre.pos.x", "pre.pos.y", "pre.pos.z", "post.speed",
             "post.pos.x", "post.pos.y", "post.pos.z", "material"]
    bad = [n for n, a, b in zip(names, f, exp) if a != b]
    if not close(f[7], c["v1_py"], rtol=1e-12):
        bad.append("post.speed(vs kinematics)")
    if not impl["valid"]:
        bad.append("operator bool")
    return bad, exp


def model_expr(c, impl):
    k = c["k"]
    if k == "rotate":
        return "run_rotate %s %s" % (v3(c["d"]), v3(c["rot"]))
    if k == "dndx":
        return "(run_material_ok %s %s, run_dndx K %s %s %s %s)" % (fl(c["es"]), fl(c["ns"]), fl(c["es"]), fl(c["ns"]),
                                                                    hexf(c["q"]), hexf(c["beta"]))
    if k == "ckvgen":
        return "run_ckvgen K %s %s %s %d%%nat %s" % (fl(c["es"]), fl(c["ns"]), dist_expr(c["d"]), c["n"], fl(c["u"]))
    if k == "ckvoff":
        v1 = impl["v1"] if "v1" in impl else impl["fields"][7] if impl.get("num", 0) > 0 else c["v1_py"]
        return "run_ckvoff K %s %s %s %s %s %s %s" % (fl(c["es"]), fl(c["ns"]), hexf(-1.0 if c["pdg"] == 11 else 1.0),
                                                      hexf(c["len"]), hexf(c["v0"]), hexf(v1), fl(c["u"]))
    if k in ("ckvchain", "scchain"):
        d = chain_dist(c, impl)
        if k == "ckvchain":
            return "run_ckvchain K %s %s %s %d%%nat %s" % (fl(c["es"]), fl(c["ns"]), dist_expr(d), c["maxn"], fl(c["u"]))
        flat = [x for comp in c["comps"] for x in comp]
        return "run_scchain K %s %s %s %s %s %d%%nat %s" % (hexf(c["yield"]), hexf(c["res"]), hexf(c["edep"]), fl(flat), dist_expr(d),
                                                        c["maxn"], fl(c["u"]))
    if k == "scgen":
        flat = [x for comp in c["comps"] for x in comp]
        return "run_scgen K %s %s %d%%nat %s" % (fl(flat), dist_expr(c["d"]), c["n"], fl(c["u"]))
    if k == "scoff":
        return "run_scoff %s %s %s %s" % (hexf(c["yield"]), hexf(c["res"]), hexf(c["edep"]), fl(c["u"]))
    raise ValueError(k)


def vec_agree(a, b, st, axis, others=()):
    """compare two results of rotate(): by components, except that for a rotation
    axis within 1e-7 of z (where 1 - z^2 is pure rounding and the branch taken may
    flip) only rotation-invariant quantities are compared"""
    if any(x != x for x in list(a) + list(b)):
        return all((x != x) == (y != y) for x, y in zip(a, b))
    # narrow knife-edge rule: axis within 1e-7 rad of +-z but not exactly (0, 0, +-1) -- whether 1 - z^2 is 0 or a few
    # 1e-16 (z = +-1 or +-(1 - 2^-53)) is decided by the rounding of make_unit_vector, and with it rotate()'s branch
    # (arbitrary azimuth 0 vs the true azimuth of the residual (x, y)); only the azimuth about the axis can differ
    near_axis = math.hypot(axis[0], axis[1]) < 1e-7 and not (axis[0] == 0 and axis[1] == 0 and abs(axis[2]) == 1)
    if near_axis or 0 < st < 1e-7:
        return abs(dot(a, axis) - dot(b, axis)) <= 1e-7 and abs(dot(a, a) - dot(b, b)) <= 1e-9
    atol = 1e-10 + (4e-16 / st if 0 < st < MIN_ACC else 0.0)
    return close(list(a), list(b), rtol=1e-9, atol=atol)


def photons_agree(impl_ph, model_ph, d, rotated=False):
    if len(impl_ph) != len(model_ph):
        return False
    scale = max(1.0, max(abs(x) for x in d["p0"] + d["p1"]))
    delta = [b - a for a, b in zip(d["p0"], d["p1"])]
    sdir = unit(delta)
    st = math.sqrt(max(0.0, 1 - sdir[2] ** 2))
    for (a, ca), (b, cb) in zip(impl_ph, model_ph):
        b = list(b)
        if ca != cb or len(b) != 11:
            return False
        if not close(a[0], b[0], rtol=1e-9):
            return False
        if not close(a[1:4], b[1:4], rtol=1e-9, atol=1e-12 * scale):
            return False
        if rotated:
            if not (vec_agree(a[4:7], b[4:7], st, sdir) and vec_agree(a[7:10], b[7:10], st, sdir)):
                return False
            if all(x == x for x in a[4:10] + b[4:10]) and abs(dot(a[4:7], a[7:10]) - dot(b[4:7], b[7:10])) > 1e-7:
                return False
        elif not close(a[4:10], b[4:10], rtol=1e-9, atol=1e-10):
            return False
        if not close(a[10], b[10], rtol=1e-9, atol=1e-300):
            return False
    return True


def run(ctx):
    n = 450 if ctx.tier == "quick" else 9000
    ctx.trusted += [
        "hand-written model coq/C20/Optical.v (+ C15/Samplers.v, Base/Vec3.v) tied by replay-RNG differential (props/C20/run.py, harness/optical.cc)",
        "float instance of Num (Base/NumF.v, Base/FloatFun.v): own exp/log/sin/cos/expm1, sin(pi w) for sincospi; compared with libm under rtol 1e-9",
        "gap R vs binary64 rounding (DESIGN.md 3.1); near its 0.005 branch switch rotate() is orthogonal only to ~1e-11, reflected in the oracle tolerance",
        "Collection/OpaqueId storage, ParticleTrackView::speed (post-step speed is taken from the implementation), std::lower_bound (modelled as a linear scan)",
    ]
    ctx.assumptions += [
        "uniform stream values are canonical: in [0,1) (C13 proves it for the double generator); draws fed to log() are > 0",
        "optical material data passed input validation (strictly increasing energy grid and refractive index; positive sigma/fall time)",
        "C20_cerenkov_on_cone needs the step direction outside rotate()'s middle branch or with y >= 0 (finding F10 otherwise)",
        "C20_scint_photon_valid gives positive energy only for a positive sampled wavelength (finding F8 otherwise)",
        "distribution laws of the rejection loops are not theorems (see C15)",
    ]
    proofs_ok = ctx.coq_prove("Properties_C20.v")
    ok, _ = ctx.coq_build(["C20/Run.vo"])
    if not ok:
        ctx.violation("model-broken", "the executable model no longer compiles", getattr(ctx, "broken_proof", {}), no_input=True)
        return
    ctx.build_libs(["celeritas"])
    exe = ctx.compile_harness([os.path.join(HERE, "harness", "optical.cc")], "optical",
                              libs=["celeritas", "orange", "geocel", "corecel"])
    cases = build_cases(ctx, n)
    nb, nph = (60, 120) if ctx.tier == "quick" else (600, 400)
    bulk = bulk_cases(ctx, nb, nph)
    inp = "consts\n" + "".join(case_line(c) + "\n" for c in cases + bulk)
    rc, out = ctx.run_harness(exe, input=inp, timeout=1200)
    lines = [l for l in out.strip().splitlines() if l.startswith(("ok", "rejected", "exhausted", "unknown"))]
    if rc != 0 or len(lines) != len(cases) + len(bulk) + 1:
        raise vlib.BuildError("optical harness failed rc=%d (%d lines for %d cases)" % (rc, len(lines), len(cases) + len(bulk) + 1), out[-2000:])
    consts = [float.fromhex(x) for x in lines[0].split()[1:5]]
    pre = PRE0 + "Definition K := mkconsts %s.\n" % " ".join(hexf(x) for x in consts)
    impls = [parse_impl(c, l) for c, l in zip(cases + bulk, lines[1:])]
    for c in cases:
        if c["k"] in ("ckvoff", "ckvchain", "scoff", "scchain"):
            g = c["epost"] / ME + 1
            c["v1_py"] = math.sqrt(1 - 1 / (g * g))
    exprs = [model_expr(c, i) for c, i in zip(cases, impls)]
    mvals = ctx.coq_eval("cases", pre, exprs, chunk=max(20, len(exprs) // 16 + 1), timeout=1500)
    ndis = [0]
    found_input = [False]

    def disagree(c, impl, model, what):
        ndis[0] += 1
        if ndis[0] <= 5:
            ctx.violation("correspondence", "model and implementation differ for %s: %s" % (c["k"], what),
                          {"case": {k: v for k, v in c.items() if k != "u"}, "stream_head": c.get("u", [])[:24],
                           "impl": impl, "model": model,
                           "theorem": "Properties_C20.v is about a model that no longer matches the code"},
                          no_input=True)

    def oracle_fail(c, msg, sig, extra):
        found_input[0] = True
        ctx.count("oracle-failure:" + (sig or "UNSIGNED"))
        ctx.violation("photon-validity", msg + (" [%s]" % sig if sig else ""), dict({"case": {k: v for k, v in c.items() if k != "u"},
                                                    "stream_head": c.get("u", [])[:40]}, **extra), signature=sig)

    nphot = 0
    for idx, (c, impl) in enumerate(zip(cases + bulk, impls)):
        k = c["k"]
        model = mvals[idx] if idx < len(cases) else None
        is_bulk = idx >= len(cases)
        ctx.count("kind:" + k + (":bulk" if is_bulk else ""))
        # ---------------- property oracle on the implementation
        if k == "rotate":
            bad = rotate_oracle(c["d"], c["rot"], impl["v"])
            st = math.sqrt(max(0.0, 1 - c["rot"][2] ** 2))
            ctx.count("rotate-branch:" + ("typical" if st >= MIN_ACC else "middle" if st > 0 else "axis"))
            if bad:
                oracle_fail(c, bad[0], bad[1], {"impl": impl["v"], "model": model})
        elif k in ("ckvgen", "scgen") and "photons" in impl:
            kind = "ckv" if k == "ckvgen" else "scint"
            nbad = 0
            for ph, _ in impl["photons"]:
                nphot += 1
                bad = photon_oracle(kind, ph, c["d"], (c["es"], c["ns"]) if kind == "ckv" else None)
                if bad and nbad < 1:
                    nbad += 1
                    oracle_fail(c, bad[0], bad[1], {"photon": ph})
        elif k in ("ckvoff", "ckvchain", "scoff", "scchain") and "num" in impl:
            if k in ("ckvoff", "ckvchain"):
                v1 = impl["fields"][7] if impl["num"] > 0 else c["v1_py"]
                inv_beta = 1 / (0.5 * (c["v0"] + v1))
                margin = abs(inv_beta - c["ns"][-1]) / c["ns"][-1]
                below = inv_beta > c["ns"][-1] and margin > 1e-12
                ctx.count("%s:%s" % (k, "below-threshold" if below else "above-threshold"))
                if below and (impl["num"] != 0 or impl["consumed"] != 0):
                    oracle_fail(c, "Cerenkov photons requested below threshold (num=%d)" % impl["num"], None, {"impl": impl})
            elif c["yield"] * c["edep"] <= 0 and impl["num"] != 0:
                oracle_fail(c, "scintillation photons requested for zero energy deposition", None, {"impl": impl})
            if impl["num"] > 0:
                # the offload's OUTPUT distribution data, field by field
                bad, exp_f = offload_fields_ok(c, impl)
                ctx.count("offload-data-checked:" + k)
                if bad:
                    oracle_fail(c, "%s output does not carry the step data: field(s) %s differ" % (
                        "CerenkovOffload" if k.startswith("ckv") else "ScintillationOffload", ", ".join(bad)),
                        None, {"impl_fields": impl["fields"], "expected_fields": exp_f})
            elif any(x != 0 for x in impl["fields"][:11]) or impl["valid"]:
                oracle_fail(c, "empty distribution expected when no photons are requested", None, {"impl": impl})
            if "photons" in impl:
                # chain: photons generated from the data the real offload produced, judged against the ORIGINAL step
                d0 = chain_dist(c, impl)
                kind = "ckv" if k == "ckvchain" else "scint"
                for ph, _ in impl["photons"]:
                    nphot += 1
                    bad = photon_oracle(kind, ph, d0, (c["es"], c["ns"]) if kind == "ckv" else None)
                    if bad:
                        oracle_fail(c, "offload->generator chain: " + bad[0], bad[1], {"photon": ph, "offload_output": impl["fields"]})
                        break
        if is_bulk:
            ctx.case((k, idx, c["u"][:3]), nontrivial=bool(impl.get("photons")))
            continue
        # ---------------- correspondence model <-> implementation
        key = (k, {kk: vv for kk, vv in c.items() if kk != "u"}, c.get("u", [])[:4])
        if k == "rotate":
            ctx.case(key, True)
            st = math.sqrt(max(0.0, 1 - c["rot"][2] ** 2))
            if not vec_agree(impl["v"], list(model), st, c["rot"]):
                disagree(c, impl, model, "rotate result")
        elif k == "dndx":
            mok, mv = model
            ctx.count("material:" + ("valid" if mok else "rejected"))
            ctx.case(key, bool(mok))
            if impl.get("rejected"):
                if mok:
                    disagree(c, impl, model, "implementation rejected a material the model accepts")
            elif not mok:
                if py_material_ok(c["es"], c["ns"]):
                    disagree(c, impl, model, "model rejects a material the implementation accepted")
                else:
                    oracle_fail(c, "non-monotone refractive index table accepted by MaterialParams", None, {"impl": impl})
            else:
                scale = 369.81e6 * c["q"] ** 2 * c["es"][-1]
                ctx.count("dndx:" + ("zero" if impl["v"] == 0 else "positive"))
                if not (impl["v"] >= 0 and math.isfinite(impl["v"])):
                    oracle_fail(c, "dN/dx negative or not finite: %r" % impl["v"], None, {"impl": impl})
                if not close(impl["v"], mv, rtol=1e-9, atol=1e-9 * scale):
                    disagree(c, impl, model, "dN/dx")
                # integral oracle (theorems C20_dndx_zero_beyond_nmax, C20_dndx_full_range_is_trapezoid,
                # C20_dndx_full_range_le_exact) on the implementation's value, computed independently here
                es_, ns_ = c["es"], c["ns"]
                ib = 1.0 / c["beta"]
                kk = c["q"] ** 2 * consts[1] * consts[2]
                if ib > ns_[-1]:
                    ctx.count("dndx-integral-oracle:beyond-nmax")
                    if impl["v"] != 0:
                        oracle_fail(c, "dN/dx = %r is not 0 although 1/beta = %r exceeds the largest refractive index %r"
                                    % (impl["v"], ib, ns_[-1]), None, {"impl": impl})
                elif ib < ns_[0]:
                    ctx.count("dndx-integral-oracle:full-range")
                    seg = range(len(es_) - 1)
                    trap = sum(0.5 * (es_[i + 1] - es_[i]) * ((1 - ib * ib / ns_[i] ** 2) + (1 - ib * ib / ns_[i + 1] ** 2)) for i in seg)
                    exact = (es_[-1] - es_[0]) - ib * ib * sum((es_[i + 1] - es_[i]) / (ns_[i] * ns_[i + 1]) for i in seg)
                    if not close(impl["v"], max(0.0, kk * trap), rtol=1e-9, atol=1e-9 * scale):
                        oracle_fail(c, "dN/dx = %r is not the trapezoid-rule integral of 1 - 1/(n^2 beta^2) over the energy grid (%r)"
                                    % (impl["v"], max(0.0, kk * trap)), None, {"impl": impl, "trapezoid_energy": trap})
                    elif impl["v"] > max(0.0, kk * exact) * (1 + 1e-9) + 1e-9 * scale:
                        oracle_fail(c, "dN/dx = %r exceeds the exact integral for piecewise-linear n(E) (%r)"
                                    % (impl["v"], kk * exact), None, {"impl": impl, "exact_energy": exact})
                else:
                    # threshold inside the grid (theorems C20_dndx_inside_grid, C20_crossing_segment_le_exact): full trapezoids
                    # above the crossing segment j (n_j <= 1/beta < n_j+1) + the fraction (1 - t) of segment j's FULL trapezoid,
                    # t = (1/beta - n_j)/(n_j+1 - n_j); never above the exact integral from the crossing point
                    ctx.count("dndx-integral-oracle:threshold-inside-grid")
                    if ib == ns_[-1]:
                        coded = exact = 0.0
                    else:
                        j = max(i for i in range(len(ns_) - 1) if ns_[i] <= ib)
                        T = lambda i: 0.5 * (es_[i + 1] - es_[i]) * (1 / ns_[i] ** 2 + 1 / ns_[i + 1] ** 2)
                        t = (ib - ns_[j]) / (ns_[j + 1] - ns_[j])
                        de = es_[j + 1] - es_[j]
                        coded = sum((es_[i + 1] - es_[i]) - ib * ib * T(i) for i in range(j + 1, len(es_) - 1)) + (1 - t) * (de - ib * ib * T(j))
                        exact = (sum((es_[i + 1] - es_[i]) * (1 - ib * ib / (ns_[i] * ns_[i + 1])) for i in range(j + 1, len(es_) - 1))
                                 + (1 - t) * de * (1 - ib / ns_[j + 1]))
                    if not close(impl["v"], max(0.0, kk * coded), rtol=1e-9, atol=1e-9 * scale):
                        oracle_fail(c, "dN/dx = %r is not the value of the crossing-segment formula (%r): trapezoids above the crossing segment "
                                    "+ (1 - t) of the crossing segment's trapezoid" % (impl["v"], max(0.0, kk * coded)), None,
                                    {"impl": impl, "coded_energy": coded})
                    elif impl["v"] > max(0.0, kk * exact) * (1 + 1e-9) + 1e-9 * scale:
                        oracle_fail(c, "dN/dx = %r exceeds the exact integral from the threshold crossing for piecewise-linear n(E) (%r)"
                                    % (impl["v"], kk * exact), None, {"impl": impl, "exact_energy": exact})
        elif k in ("ckvgen", "scgen"):
            if impl.get("rejected"):
                ctx.case(key, False)
                disagree(c, impl, model, "valid data rejected")
                continue
            ctx.case(key, len(impl["photons"]) > 0)
            ctx.count("%s:photons=%d" % (k, min(len(impl["photons"]), 5)))
            if k == "ckvgen":
                sd = unit([b - a for a, b in zip(c["d"]["p0"], c["d"]["p1"])])
                st = math.sqrt(max(0.0, 1 - sd[2] ** 2))
                ctx.count("ckv-stepdir:" + ("typical" if st >= MIN_ACC else ("middle-y<0" if sd[1] < 0 else "middle-y>=0") if st > 0 else "axis"))
            else:
                ctx.count("scint:" + ("neutral" if c["d"]["q"] == 0 else "charged"))
            ctx.sample({"kind": k, "impl_first": impl["photons"][:1], "model_first": list(model)[:1]})
            if not photons_agree(impl["photons"], list(model), c["d"], rotated=(k == "ckvgen")):
                disagree(c, impl, model, "photon list")
        elif k in ("ckvoff", "scoff", "ckvchain", "scchain"):
            if impl.get("exhausted"):
                ctx.case(key, False)
                if model is not None:
                    disagree(c, impl, model, "implementation ran out of stream, model did not")
                continue
            ctx.case(key, impl["num"] > 0)
            ctx.count("%s:%s" % (k, "none" if impl["num"] == 0 else "some"))
            if model is None or (impl["num"], impl["consumed"]) != (model[0], model[1]):
                if model is not None and impl["consumed"] == model[1] and abs(impl["num"] - model[0]) <= 1 and impl["num"] > 8:
                    ctx.count("knife-edge-accepted")      # rounding of x + 0.5 / p*u ~ 1
                else:
                    disagree(c, impl, model, "photon count / draws")
            elif "photons" in impl:
                ctx.count("%s:photons=%d" % (k, len(impl["photons"])))
                mph = [(list(a), b + model[1]) for a, b in model[2]]
                if not photons_agree(impl["photons"], mph, chain_dist(c, impl), rotated=(k == "ckvchain")):
                    disagree(c, impl, model, "photons of the offload->generator chain")
    if not proofs_ok:
        ctx.violation("proof-broken", "Properties_C20.v no longer checks", ctx.broken_proof, no_input=found_input[0] is False)
    ctx.coverage["rule"] = ("cases = (kind, material tables, step data, uniform stream) drawn from one PRNG seeded by VERIF_SEED, "
                            "corpus (F8/F10 witnesses) first; non-trivial = at least one photon generated / photons requested / valid material; "
                            "bulk cases run the per-photon oracle on the implementation only")
    ctx.coverage["traces_validated_against_impl"] = len(cases)
    ctx.coverage["photons_checked_by_oracle"] = nphot
