// C20 correspondence harness: the real optical photon generators / offload
// helpers / rotate() on a replayed uniform stream, optical data built on host
// exactly as Cerenkov.test.cc / Scintillation.test.cc do.
//
// stdin: one case per line (numbers as C hex floats), stdout one line per case.
//   consts
//   rotate dx dy dz rx ry rz
//   dndx   <n> E.. <n> N..  charge beta
//   ckvgen <n> E.. <n> N..  t0 len charge v0 p0x p0y p0z v1 p1x p1y p1z  nphot <k> u..
//   ckvoff <n> E.. <n> N..  pdg(11|-11) Epost len v0 p0x p0y p0z t0 p1x p1y p1z <k> u..
//   scgen  res yield <5m> (frac mean sigma rise fall)*m  t0 len charge v0 p0 v1 p1 nphot <k> u..
//   scoff  res yield <5m> (...)*m  pdg Epost len edep v0 p0 t0 p1 <k> u..
//   ckvchain / scchain: as ckvoff / scoff with <maxphot> before the stream: offload, then the generator on
//            the distribution data the offload produced: "ok <dist...> | <exh> <n> photons..."
// photon record: consumed energy px py pz dx dy dz ex ey ez time
#include "../../../harness/common.hh"

#include <memory>

#include "corecel/data/CollectionStateStore.hh"
#include "corecel/math/ArrayUtils.hh"
#include "celeritas/Constants.hh"
#include "celeritas/Quantities.hh"
#include "celeritas/Units.hh"
#include "celeritas/io/ImportOpticalMaterial.hh"
#include "celeritas/optical/CerenkovDndxCalculator.hh"
#include "celeritas/optical/CerenkovGenerator.hh"
#include "celeritas/optical/CerenkovOffload.hh"
#include "celeritas/optical/CerenkovParams.hh"
#include "celeritas/optical/GeneratorDistributionData.hh"
#include "celeritas/optical/MaterialParams.hh"
#include "celeritas/optical/MaterialView.hh"
#include "celeritas/optical/ScintillationGenerator.hh"
#include "celeritas/optical/ScintillationOffload.hh"
#include "celeritas/optical/ScintillationParams.hh"
#include "celeritas/optical/TrackInitializer.hh"
#include "celeritas/optical/detail/OpticalUtils.hh"
#include "celeritas/phys/PDGNumber.hh"
#include "celeritas/phys/ParticleParams.hh"
#include "celeritas/phys/ParticleTrackView.hh"
#include "celeritas/track/SimParams.hh"
#include "celeritas/track/SimTrackView.hh"

using namespace celeritas;
namespace opt = celeritas::optical;
using opt::CerenkovDndxCalculator; using opt::CerenkovGenerator; using opt::CerenkovParams;
using opt::GeneratorDistributionData; using opt::ScintillationGenerator; using opt::ScintillationParams;
using opt::TrackInitializer;
using verif::hex;
using verif::rd;

namespace
{
template<template<Ownership, MemSpace> class S>
using StateStore = CollectionStateStore<S, MemSpace::host>;

//! Particle/sim track views as built by test/celeritas/optical/OpticalTestBase
struct Tracks
{
    std::shared_ptr<ParticleParams> particle_params;
    std::shared_ptr<SimParams> sim_params;
    StateStore<ParticleStateData> particle_state;
    StateStore<SimStateData> sim_state;

    Tracks()
    {
        units::MevMass e_mass(0.5109989461);
        ParticleParams::Input inp;
        inp.push_back({"electron", pdg::electron(), e_mass,
                       units::ElementaryCharge{-1},
                       constants::stable_decay_constant});
        inp.push_back({"positron", pdg::positron(), e_mass,
                       units::ElementaryCharge{1},
                       constants::stable_decay_constant});
        particle_params = std::make_shared<ParticleParams>(std::move(inp));
        particle_state
            = StateStore<ParticleStateData>(particle_params->host_ref(), 1);
        sim_params = std::make_shared<SimParams>();
        sim_state = StateStore<SimStateData>(sim_params->host_ref(), 1);
    }
    ParticleTrackView particle(double energy, int pdgnum)
    {
        ParticleTrackView::Initializer_t init;
        init.particle_id = particle_params->find(PDGNumber{pdgnum});
        init.energy = units::MevEnergy{energy};
        ParticleTrackView v(
            particle_params->host_ref(), particle_state.ref(), TrackSlotId(0));
        v = init;
        return v;
    }
    SimTrackView sim(double step_len)
    {
        SimTrackView::Initializer_t init;
        init.event_id = EventId{0};
        init.parent_id = TrackId{0};
        SimTrackView v(sim_params->host_ref(), sim_state.ref(), TrackSlotId(0));
        v = init;
        v.step_length(step_len);
        v.status(TrackStatus::alive);
        return v;
    }
};

struct OptMat
{
    std::shared_ptr<opt::MaterialParams const> material;
    std::shared_ptr<CerenkovParams const> cerenkov;
};

OptMat read_material(std::istream& is)
{
    ImportOpticalProperty prop;
    prop.refractive_index.x = verif::rdvec(is);
    prop.refractive_index.y = verif::rdvec(is);
    prop.refractive_index.vector_type = ImportPhysicsVectorType::free;
    opt::MaterialParams::Input input;
    input.properties.push_back(std::move(prop));
    input.volume_to_mat = {OpticalMaterialId{0}};
    OptMat m;
    m.material = std::make_shared<opt::MaterialParams>(std::move(input));
    m.cerenkov = std::make_shared<CerenkovParams>(m.material);
    return m;
}

std::shared_ptr<ScintillationParams> read_scint(std::istream& is)
{
    ScintillationParams::Input inp;
    inp.resolution_scale.push_back(rd(is));
    ImportMaterialScintSpectrum spec;
    spec.yield_per_energy = rd(is);
    std::vector<double> c = verif::rdvec(is);
    for (std::size_t i = 0; i + 4 < c.size(); i += 5)
    {
        spec.components.push_back({c[i], c[i + 1], c[i + 2], c[i + 3], c[i + 4]});
    }
    inp.materials.push_back(std::move(spec));
    return std::make_shared<ScintillationParams>(std::move(inp));
}

Real3 rd3(std::istream& is)
{
    Real3 r;
    for (auto& x : r) x = rd(is);
    return r;
}

GeneratorDistributionData read_dist(std::istream& is)
{
    GeneratorDistributionData d;
    d.time = rd(is);
    d.step_length = rd(is);
    d.charge = units::ElementaryCharge{rd(is)};
    d.material = OpticalMaterialId{0};
    d.points[StepPoint::pre].speed = units::LightSpeed{rd(is)};
    d.points[StepPoint::pre].pos = rd3(is);
    d.points[StepPoint::post].speed = units::LightSpeed{rd(is)};
    d.points[StepPoint::post].pos = rd3(is);
    return d;
}

void print_photon(std::ostream& os, std::size_t consumed, TrackInitializer const& p)
{
    os << " " << consumed << " " << hex(p.energy.value());
    for (auto x : p.position) os << " " << hex(x);
    for (auto x : p.direction) os << " " << hex(x);
    for (auto x : p.polarization) os << " " << hex(x);
    os << " " << hex(p.time);
}

template<class Gen>
void run_photons(Gen& gen, size_type nphot, verif::ReplayEngine& rng, char const* prefix = "ok")
{
    std::ostringstream os;
    size_type done = 0;
    bool exhausted = false;
    try
    {
        for (; done < nphot; ++done)
        {
            TrackInitializer p = gen(rng);
            print_photon(os, rng.consumed(), p);
        }
    }
    catch (verif::StreamExhausted const&)
    {
        exhausted = true;
    }
    std::cout << prefix << " " << (exhausted ? 1 : 0) << " " << done << os.str() << "\n";
}

void print_dist(GeneratorDistributionData const& d, std::size_t consumed, bool newline = true)
{
    std::cout << "ok " << consumed << " " << d.num_photons << " "
              << (d ? 1 : 0) << " " << hex(d.time) << " " << hex(d.step_length)
              << " " << hex(d.charge.value()) << " "
              << hex(d.points[StepPoint::pre].speed.value());
    for (auto x : d.points[StepPoint::pre].pos) std::cout << " " << hex(x);
    std::cout << " " << hex(d.points[StepPoint::post].speed.value());
    for (auto x : d.points[StepPoint::post].pos) std::cout << " " << hex(x);
    std::cout << " " << (d.material ? static_cast<int>(d.material.get()) : -1);
    if (newline) std::cout << "\n";
}
}  // namespace

int main()
{
    Tracks tracks;
    std::string line;
    while (std::getline(std::cin, line))
    {
        if (line.empty()) continue;
        std::istringstream is(line);
        std::string kind;
        is >> kind;
        try
        {
            if (kind == "consts")
            {
                // c_light; alpha/(hbar c); native value of 1 MeV; h c
                std::cout << "ok " << hex(constants::c_light) << " "
                          << hex(constants::alpha_fine_structure
                                 / (constants::hbar_planck * constants::c_light))
                          << " " << hex(native_value_from(units::MevEnergy(1)))
                          << " " << hex(constants::h_planck * constants::c_light)
                          << "\n";
            }
            else if (kind == "rotate")
            {
                Real3 d = rd3(is);
                Real3 r = rd3(is);
                Real3 v = rotate(d, r);
                std::cout << "ok";
                for (auto x : v) std::cout << " " << hex(x);
                std::cout << "\n";
            }
            else if (kind == "dndx")
            {
                OptMat m = read_material(is);
                double charge = rd(is);
                double beta = rd(is);
                opt::MaterialView mv{m.material->host_ref(), OpticalMaterialId{0}};
                CerenkovDndxCalculator calc(
                    mv, m.cerenkov->host_ref(), units::ElementaryCharge{charge});
                std::cout << "ok " << hex(calc(units::LightSpeed{beta})) << "\n";
            }
            else if (kind == "ckvgen")
            {
                OptMat m = read_material(is);
                GeneratorDistributionData dist = read_dist(is);
                size_type nphot;
                is >> nphot;
                dist.num_photons = nphot;
                verif::ReplayEngine rng(verif::rdvec(is));
                opt::MaterialView mv{m.material->host_ref(), OpticalMaterialId{0}};
                CerenkovGenerator gen(mv, m.cerenkov->host_ref(), dist);
                run_photons(gen, nphot, rng);
            }
            else if (kind == "ckvoff")
            {
                OptMat m = read_material(is);
                int pdgnum;
                is >> pdgnum;
                double epost = rd(is);
                double len = rd(is);
                OffloadPreStepData pre;
                pre.speed = units::LightSpeed{rd(is)};
                pre.pos = rd3(is);
                pre.time = rd(is);
                pre.material = OpticalMaterialId{0};
                Real3 pos = rd3(is);
                verif::ReplayEngine rng(verif::rdvec(is));
                opt::MaterialView mv{m.material->host_ref(), OpticalMaterialId{0}};
                auto particle = tracks.particle(epost, pdgnum);
                auto sim = tracks.sim(len);
                CerenkovOffload off(
                    particle, sim, mv, pos, m.cerenkov->host_ref(), pre);
                try
                {
                    auto d = off(rng);
                    print_dist(d, rng.consumed());
                }
                catch (verif::StreamExhausted const&)
                {
                    // still report the post-step speed for the model
                    std::cout << "exhausted " << hex(particle.speed().value())
                              << "\n";
                }
            }
            else if (kind == "ckvchain")
            {   // CerenkovOffload -> CerenkovGenerator on the distribution data it produced
                OptMat m = read_material(is);
                int pdgnum;
                is >> pdgnum;
                double epost = rd(is);
                double len = rd(is);
                OffloadPreStepData pre;
                pre.speed = units::LightSpeed{rd(is)};
                pre.pos = rd3(is);
                pre.time = rd(is);
                pre.material = OpticalMaterialId{0};
                Real3 pos = rd3(is);
                size_type maxphot;
                is >> maxphot;
                verif::ReplayEngine rng(verif::rdvec(is));
                opt::MaterialView mv{m.material->host_ref(), OpticalMaterialId{0}};
                auto particle = tracks.particle(epost, pdgnum);
                auto sim = tracks.sim(len);
                CerenkovOffload off(
                    particle, sim, mv, pos, m.cerenkov->host_ref(), pre);
                try
                {
                    auto d = off(rng);
                    print_dist(d, rng.consumed(), false);
                    if (d)
                    {
                        CerenkovGenerator gen(mv, m.cerenkov->host_ref(), d);
                        run_photons(gen, std::min(maxphot, d.num_photons), rng, " |");
                    }
                    else
                    {
                        std::cout << " | 0 0\n";
                    }
                }
                catch (verif::StreamExhausted const&)
                {
                    std::cout << "exhausted " << hex(particle.speed().value())
                              << "\n";
                }
            }
            else if (kind == "scchain")
            {   // ScintillationOffload -> ScintillationGenerator on the data it produced
                auto sp = read_scint(is);
                int pdgnum;
                is >> pdgnum;
                double epost = rd(is);
                double len = rd(is);
                double edep = rd(is);
                OffloadPreStepData pre;
                pre.speed = units::LightSpeed{rd(is)};
                pre.pos = rd3(is);
                pre.time = rd(is);
                pre.material = OpticalMaterialId{0};
                Real3 pos = rd3(is);
                size_type maxphot;
                is >> maxphot;
                verif::ReplayEngine rng(verif::rdvec(is));
                auto particle = tracks.particle(epost, pdgnum);
                auto sim = tracks.sim(len);
                ScintillationOffload off(particle, sim, pos,
                                         units::MevEnergy{edep},
                                         sp->host_ref(), pre);
                try
                {
                    auto d = off(rng);
                    print_dist(d, rng.consumed(), false);
                    if (d)
                    {
                        ScintillationGenerator gen(sp->host_ref(), d);
                        run_photons(gen, std::min(maxphot, d.num_photons), rng, " |");
                    }
                    else
                    {
                        std::cout << " | 0 0\n";
                    }
                }
                catch (verif::StreamExhausted const&)
                {
                    std::cout << "exhausted " << hex(particle.speed().value())
                              << "\n";
                }
            }
            else if (kind == "scgen")
            {
                auto sp = read_scint(is);
                GeneratorDistributionData dist = read_dist(is);
                size_type nphot;
                is >> nphot;
                dist.num_photons = nphot;
                verif::ReplayEngine rng(verif::rdvec(is));
                ScintillationGenerator gen(sp->host_ref(), dist);
                run_photons(gen, nphot, rng);
            }
            else if (kind == "scoff")
            {
                auto sp = read_scint(is);
                int pdgnum;
                is >> pdgnum;
                double epost = rd(is);
                double len = rd(is);
                double edep = rd(is);
                OffloadPreStepData pre;
                pre.speed = units::LightSpeed{rd(is)};
                pre.pos = rd3(is);
                pre.time = rd(is);
                pre.material = OpticalMaterialId{0};
                Real3 pos = rd3(is);
                verif::ReplayEngine rng(verif::rdvec(is));
                auto particle = tracks.particle(epost, pdgnum);
                auto sim = tracks.sim(len);
                ScintillationOffload off(particle, sim, pos,
                                         units::MevEnergy{edep},
                                         sp->host_ref(), pre);
                try
                {
                    auto d = off(rng);
                    print_dist(d, rng.consumed());
                }
                catch (verif::StreamExhausted const&)
                {
                    std::cout << "exhausted " << hex(particle.speed().value())
                              << "\n";
                }
            }
            else
            {
                std::cout << "unknown " << kind << "\n";
            }
        }
        catch (celeritas::RuntimeError const& e)
        {
            // input validation (CELER_VALIDATE) refused the material data
            std::cout << "rejected\n";
        }
    }
    return 0;
}
