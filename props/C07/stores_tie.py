"""C07 -- source shapes behind the index model of the per-stream stores (coq/C07/Stores.v).

Regenerated from /repo on every run; an unrecognised shape is a broken tie."""
import os
import re

import vlib

SHAPES = [
    ("src/corecel/data/StreamStore.hh",
     r"CELER_EXPECT\(stream_id < num_streams_\);\s*auto& state_vec = StreamStore::states_impl<M>\(\*this\);\s*CELER_ASSERT\(state_vec\.size\(\) == num_streams_\);\s*auto& state_store = state_vec\[stream_id\.unchecked_get\(\)\];",
     "StreamStore::state(stream, size) indexes the vector by the stream id (ss_index)"),
    ("src/corecel/data/StreamStore.hh",
     r"CELER_EXPECT\(stream_id < self\.num_streams_ \|\| !self\);.{0,400}?auto& state_vec = StreamStore::states_impl<M>\(self\);\s*CELER_ASSERT\(state_vec\.size\(\) == self\.num_streams_\);\s*auto& state_store = state_vec\[stream_id\.unchecked_get\(\)\];",
     "StreamStore::stateptr_impl indexes the vector by the stream id"),
    ("src/corecel/data/StreamStore.hh",
     r"host_states_\.resize\(num_streams_\);\s*device_states_\.resize\(num_streams_\);",
     "StreamStore constructor sizes the vectors to num_streams (never resized afterwards)"),
    ("src/corecel/data/StreamStore.hh",
     r"state_store = \{this->params<MemSpace::host>\(\), stream_id, size\};",
     "StreamStore lazily creates only the entry of the calling stream"),
    ("src/corecel/data/AuxStateVec.hh",
     r"AuxStateInterface& AuxStateVec::at\(AuxId id\)\s*\{\s*CELER_EXPECT\(id < states_\.size\(\)\);\s*return \*states_\[id\.unchecked_get\(\)\];",
     "AuxStateVec::at indexes states_ by the aux id (aux_get)"),
    ("src/corecel/data/AuxStateVec.cc",
     r"states_\.reserve\(registry\.size\(\)\);\s*for \(auto auxid : range\(AuxId\{registry\.size\(\)\}\)\)\s*\{\s*states_\.emplace_back\(registry\.at\(auxid\)->create_state\(m, sid, size\)\);",
     "AuxStateVec constructor creates one state for EVERY aux id, for the given stream (aux_construct)"),
    ("src/celeritas/global/CoreState.cc",
     r"aux_state_\s*=\s*AuxStateVec\{\*params\.aux_reg\(\), M, stream_id, num_track_slots\};",
     "each CoreState owns its AuxStateVec, built with its own stream id"),
    ("src/celeritas/user/detail/StepGatherAction.cc",
     r"auto& step_state = params_->state_ref<MemSpace::native>\(state\.aux\(\)\);",
     "StepGatherAction takes its step buffers from the aux state of the stream's own CoreState"),
    ("src/celeritas/user/detail/StepGatherAction.cc",
     r"StepState<MemSpace::native> cb_state\{step_state, state\.stream_id\(\)\};",
     "StepGatherAction passes the stream id of the state to the callbacks"),
    ("app/celer-sim/Transporter.cc",
     r"step_input\.stream_id = inp\.stream_id;\s*step_input\.action_times = inp\.action_times;\s*stepper_ = std::make_shared<Stepper<M>>\(std::move\(step_input\)\);",
     "Transporter owns one Stepper (one CoreState) for its stream id"),
    ("app/celer-sim/Runner.cc",
     r"UPTransporterBase& result = transporters_\[stream\.get\(\)\];",
     "Runner::get_transporter indexes the transporters by the stream id"),
    ("src/corecel/data/AuxParamsRegistry.cc",
     r"void AuxParamsRegistry::insert\(SPParams params\)\s*\{.{0,300}?CELER_VALIDATE\(id == this->next_id\(\),.{0,600}?params_\.push_back\(std::move\(params\)\);",
     "AuxParamsRegistry::insert (set-up time only) appends with consecutive ids"),
]


def check_shapes(ctx):
    """returns the list of unrecognised shapes"""
    bad = []
    for rel, rx, what in SHAPES:
        try:
            src = open(os.path.join(vlib.REPO, rel), errors="replace").read()
        except OSError:
            bad.append("%s: %s (file missing)" % (rel, what))
            continue
        src = re.sub(r"/\*.*?\*/", " ", src, flags=re.S)
        src = re.sub(r"//[^\n]*", "", src)
        if not re.search(rx, src, flags=re.S):
            bad.append("%s: %s" % (rel, what))
    ctx.coverage["store_shape_checks"] = len(SHAPES)
    # AuxParamsRegistry must not be mutated outside set-up: insert() is its only non-const member
    try:
        hh = open(os.path.join(vlib.REPO, "src/corecel/data/AuxParamsRegistry.hh"), errors="replace").read()
        hh = re.sub(r"/\*.*?\*/", " ", hh, flags=re.S)
        hh = re.sub(r"//[^\n]*", "", hh)
        nonconst = [m.group(1) for m in re.finditer(r"\n\s*(?:inline\s+)?[\w:<>&\*\s]+?\b(\w+)\([^)]*\)\s*;", hh)
                    if not re.search(r"\b%s\([^)]*\)\s*const" % re.escape(m.group(1)), hh) and m.group(1) not in ("AuxParamsRegistry",)]
        if sorted(set(nonconst)) != ["insert"]:
            bad.append("src/corecel/data/AuxParamsRegistry.hh: the only non-const member function is insert() (found %r)" % sorted(set(nonconst)))
    except OSError:
        bad.append("src/corecel/data/AuxParamsRegistry.hh missing")
    return bad
